#!/bin/sh
# usage: check.sh <property> <quick|thorough>
# Runs the static checker for one property against /repo's current working tree and writes evidence/<property>.json.
cd "$(dirname "$0")"
export PATH=/opt/veriftools/go1.26.8/bin:$PATH GOTOOLCHAIN=local GOFLAGS=-mod=mod GOPROXY=off GOSUMDB=off GOWORK=off CGO_ENABLED=0
if [ ! -x bin/foxcheck ] || [ -n "$(find checker -newer bin/foxcheck -name '*.go' 2>/dev/null | head -1)" ]; then
  sh tools/build.sh || { echo "checker build failed" >&2; exit 2; }
fi
exec bin/foxcheck -property "$1" -tier "${2:-quick}" -repo "${REPO:-/repo}" -verif "$(pwd)"
