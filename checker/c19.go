package main

import (
	"fmt"
	"go/token"
	"go/types"
	"strings"

	"golang.org/x/tools/go/ssa"
)

func init() { register("C19", checkC19) }

func checkC19(w *World, r *Report) {
	r.Explanation = "Invariants of route and router options, decided over all writers of the fields involved (enumerated by who-writes, per target type): every store that may enable one trailing-slash mode " +
		"is accompanied, under the same condition and on the same object, by a store disabling the other; NewRoute copies both flags, the resolver and the middleware list from the router before the " +
		"option loop; a resolver field is only ever assigned a boxed concrete value, a value tested non-nil, cmp.Or(x, non-nil) or the router's field, the accessor maps the 'none' sentinel back to nil and " +
		"Context.ClientIP chooses the route's resolver exactly when a route is set (with C11.1: the router-wide one in every special handler); function-typed option arguments are nil-checked before " +
		"being stored, failing with ErrInvalidConfig (ErrInvalidRoute for the Txn entry points); an interface-typed map key is checked with the dynamic reflect.Value.Comparable after a nil test; the " +
		"accessors slice the pattern at the host split computed by the validator."
	r.NotDecided = []string{"last-one-wins for arbitrary option sequences beyond the invariants", "behaviour of user-supplied resolvers"}
	r.Assumptions = []string{"options are applied only during New/NewRoute (C05.4, C03.4)"}
	checkC19Exclusive(w, r)
	checkC19Resolver(w, r)
	checkC19NilArgs(w, r)
	checkC19Annotation(w, r)
	checkC19Inherit(w, r)
	checkScrubRule(w, r, analyseDispatch(w), "C19.6")
	checkCloneWithCarries(w, r, "C19.7", "route")
	// a route's middleware list must be its own: an append onto the router-wide slice's spare capacity hands one route the
	// middleware option of another (= C13.1)
	checkAppendAliasing(w, r, "C19.8")
}

// objectOf: the struct pointer a field address belongs to, resolved through spilled option parameters.
func ownerExpr(addr ssa.Value) ssa.Value {
	b, _, ok := fieldOfAddr(addr)
	if !ok {
		return nil
	}
	return b
}

func checkC19Exclusive(w *World, r *Report) {
	ru := r.Rule("C19.1", "the two trailing-slash modes exclude each other: every store to redirectTrailingSlash/ignoreTrailingSlash of a Router or Route that is not the constant false is either a copy of the same flag from the router (inheritance) or is paired, on the same object, with a store of false to the other flag under the condition that the stored value is true", 2)
	names := map[string]string{"redirectTrailingSlash": "ignoreTrailingSlash", "ignoreTrailingSlash": "redirectTrailingSlash"}
	for _, fn := range w.FoxFuncs() {
		if isTestHelper(w, fn) {
			continue
		}
		eachInstr(fn, func(in ssa.Instruction) {
			st, ok := in.(*ssa.Store)
			if !ok {
				return
			}
			base, f, ok := fieldOfAddr(st.Addr)
			if !ok {
				return
			}
			other, isFlag := names[f.Name()]
			if !isFlag || !(isNamed(base.Type(), modulePath, "Router") || isNamed(base.Type(), modulePath, "Route")) {
				return
			}
			if b, isConst := constBool(st.Val); isConst && !b {
				return
			}
			construct := "store " + w.FieldOwner(f) + " in " + FuncName(fn)
			// inheritance: copy of the same-named flag of another object
			if _, lf, isLoad := loadedField(st.Val); isLoad && lf.Name() == f.Name() {
				ru.Pass(construct, w.Pos(st.Pos()), "copy of the same flag (inherits the invariant)", "copied from "+valStr(st.Val))
				return
			}
			// find the paired store
			paired, why := false, "no store of false to "+other+" on the same object under the condition "+valStr(st.Val)
			eachInstr(fn, func(in2 ssa.Instruction) {
				s2, ok := in2.(*ssa.Store)
				if !ok || paired {
					return
				}
				b2, f2, ok := fieldOfAddr(s2.Addr)
				if !ok || f2.Name() != other || !sameExpr(b2, base) {
					return
				}
				if v, isConst := constBool(s2.Val); !isConst || v {
					return
				}
				if v, isConst := constBool(st.Val); isConst && v {
					// unconditional enable: the disable must be unconditional too (same block or dominating/post)
					paired = s2.Block() == st.Block() || s2.Block().Dominates(st.Block()) || st.Block().Dominates(s2.Block()) && len(factsAtBlock(s2.Block())) == len(factsAtBlock(st.Block()))
					why = "paired with unconditional disable"
					return
				}
				for _, ft := range factsAtBlock(s2.Block()) {
					if ft.Val && sameExpr(ft.Cond, st.Val) && instrReachableFrom(st, s2) {
						paired = true
						why = "paired: " + other + " = false under " + valStr(st.Val)
					}
				}
			})
			ru.Check(construct, w.Pos(st.Pos()), "enabling this mode disables "+other+" on the same object", paired, why)
		})
	}
}

func checkC19Resolver(w *World, r *Report) {
	ru := r.Rule("C19.2", "the resolver fields are never nil: each store to Router.clientip / Route.clientip is a boxed concrete value, a value dominated by a non-nil test, cmp.Or(x, boxed value) or a copy of the router's field; Route.ClientIPResolver maps the 'none' sentinel to nil; Context.ClientIP uses the route's resolver exactly when a route is set, the router's otherwise", 3)
	for _, fn := range w.FoxFuncs() {
		if isTestHelper(w, fn) {
			continue
		}
		eachInstr(fn, func(in ssa.Instruction) {
			st, ok := in.(*ssa.Store)
			if !ok {
				return
			}
			base, f, ok := fieldOfAddr(st.Addr)
			if !ok || f.Name() != "clientip" || !(isNamed(base.Type(), modulePath, "Router") || isNamed(base.Type(), modulePath, "Route")) {
				return
			}
			okk, why := false, "may store a nil resolver: "+valStr(st.Val)
			switch v := st.Val.(type) {
			case *ssa.MakeInterface:
				okk, why = true, "boxed concrete value "+v.X.Type().String()
			case *ssa.Call:
				if obj := calleeObj(v); isFuncNamed(obj, "cmp", "Or") {
					// some argument of the variadic is a boxed value
					boxed := false
					if sl, isSlice := v.Call.Args[0].(*ssa.Slice); isSlice {
						if arr, isAlloc := sl.X.(*ssa.Alloc); isAlloc {
							if refs := arr.Referrers(); refs != nil {
								for _, ref := range *refs {
									if ia, ok := ref.(*ssa.IndexAddr); ok {
										if ir := ia.Referrers(); ir != nil {
											for _, x := range *ir {
												if s2, ok := x.(*ssa.Store); ok {
													if _, isBox := s2.Val.(*ssa.MakeInterface); isBox {
														boxed = true
													}
												}
											}
										}
									}
								}
							}
						}
					}
					okk, why = boxed, fmt.Sprintf("cmp.Or with a boxed fallback: %v", boxed)
				}
			case *ssa.UnOp:
				if _, lf, isLoad := loadedField(v); isLoad && lf.Name() == "clientip" {
					okk, why = true, "copy of the router's resolver"
				} else {
					// a captured parameter tested non-nil
					for _, ft := range factsAtBlock(st.Block()) {
						if bo, isBin := ft.Cond.(*ssa.BinOp); isBin && isNilConst(bo.Y) && sameExpr(bo.X, v) {
							if (bo.Op == token.NEQ && ft.Val) || (bo.Op == token.EQL && !ft.Val) {
								okk, why = true, "dominated by a non-nil test"
							}
						}
					}
				}
			}
			ru.Check("store "+w.FieldOwner(f)+" in "+FuncName(fn), w.Pos(st.Pos()), "the stored resolver is never nil", okk, why)
		})
	}
	// accessor
	acc := w.Method("Route", "ClientIPResolver")
	okAcc := false
	eachInstr(acc, func(in ssa.Instruction) {
		if ta, ok := in.(*ssa.TypeAssert); ok && ta.CommaOk && isNamed(ta.AssertedType, modulePath, "noClientIPResolver") {
			okAcc = true
		}
	})
	ru.Check("Route.ClientIPResolver", w.Pos(acc.Pos()), "returns nil for the 'none' sentinel", okAcc, fmt.Sprint(okAcc))
	// selection at request time
	ci := w.Method("cTx", "ClientIP")
	var routerCall, routeCall bool
	bad := ""
	eachInstr(ci, func(in ssa.Instruction) {
		c, ok := in.(*ssa.Call)
		if !ok || !c.Common().IsInvoke() || c.Common().Method.Name() != "ClientIP" {
			return
		}
		recvBase, rf, ok := loadedField(c.Common().Value)
		if !ok || rf.Name() != "clientip" {
			bad = "resolver taken from " + valStr(c.Common().Value)
			return
		}
		routeNil, known := false, false
		for _, ft := range factsAtBlock(c.Block()) {
			if bo, isBin := ft.Cond.(*ssa.BinOp); isBin && isNilConst(bo.Y) {
				if _, lf, isLoad := loadedField(bo.X); isLoad && lf.Name() == "route" {
					known = true
					routeNil = (bo.Op == token.EQL && ft.Val) || (bo.Op == token.NEQ && !ft.Val)
				}
			}
		}
		isRouter := isNamed(recvBase.Type(), modulePath, "Router")
		switch {
		case !known:
			bad = "a resolver is invoked without testing c.route"
		case routeNil && isRouter:
			routerCall = true
		case !routeNil && !isRouter:
			routeCall = true
		default:
			bad = fmt.Sprintf("routeIsNil=%v but the %s resolver is used", routeNil, map[bool]string{true: "router's", false: "route's"}[isRouter])
		}
	})
	ru.Check("cTx.ClientIP", w.Pos(ci.Pos()), "route == nil -> router resolver; route != nil -> that route's resolver", bad == "" && routerCall && routeCall, orDefault(bad, "both branches present"))
}

func checkC19NilArgs(w *World, r *Report) {
	ru := r.Rule("C19.3", "nil handlers and middleware are rejected: every store of a function-typed option argument into a Router/Route field or a middleware entry is dominated by a nil test of that argument whose failing branch returns an error wrapping ErrInvalidConfig; Txn.Handle/Update reject a nil handler and Txn.HandleRoute/UpdateRoute a nil route with ErrInvalidRoute", 4)
	isFuncT := func(t types.Type) bool {
		_, ok := t.Underlying().(*types.Signature)
		return ok
	}
	// value derives from a captured variable (FreeVar): *fv or (*fv)[i]
	fromCapture := func(v ssa.Value) bool {
		for i := 0; i < 4; i++ {
			switch x := v.(type) {
			case *ssa.UnOp:
				if x.Op == token.MUL {
					if _, ok := x.X.(*ssa.FreeVar); ok {
						return true
					}
					v = x.X
					continue
				}
			case *ssa.IndexAddr:
				v = x.X
				continue
			}
			break
		}
		return false
	}
	errBranchOK := func(fn *ssa.Function, cond ssa.Value, sentinel string) bool {
		// the block taken when cond (x == nil) is true returns an error wrapping the sentinel
		for _, b := range fn.Blocks {
			if len(b.Instrs) == 0 {
				continue
			}
			iff, ok := b.Instrs[len(b.Instrs)-1].(*ssa.If)
			if !ok || !sameExpr(normFact(Fact{iff.Cond, true}).Cond, cond) {
				continue
			}
			nf := normFact(Fact{iff.Cond, true})
			nilSucc := b.Succs[0]
			bo := nf.Cond.(*ssa.BinOp)
			if (bo.Op == token.NEQ) == nf.Val {
				nilSucc = b.Succs[1]
			}
			found := false
			for _, in := range nilSucc.Instrs {
				if u, ok := in.(*ssa.UnOp); ok {
					if g, ok := u.X.(*ssa.Global); ok && g.Name() == sentinel {
						found = true
					}
				}
			}
			if _, isRet := nilSucc.Instrs[len(nilSucc.Instrs)-1].(*ssa.Return); isRet && found {
				return true
			}
		}
		return false
	}
	for _, fn := range w.FoxFuncs() {
		if isTestHelper(w, fn) || fn.Parent() == nil {
			continue
		}
		eachInstr(fn, func(in ssa.Instruction) {
			st, ok := in.(*ssa.Store)
			if !ok || !isFuncT(st.Val.Type()) || !fromCapture(st.Val) {
				return
			}
			_, f, ok := fieldOfAddr(st.Addr)
			if !ok {
				return
			}
			dest := w.FieldOwner(f)
			if !(strings.HasPrefix(dest, "Router.") || strings.HasPrefix(dest, "Route.") || strings.HasPrefix(dest, "middleware.")) {
				return
			}
			okk, why := false, "no dominating nil test of "+valStr(st.Val)
			for _, ft := range factsAtBlock(st.Block()) {
				bo, isBin := ft.Cond.(*ssa.BinOp)
				if !isBin || !isNilConst(bo.Y) || !sameExpr(bo.X, st.Val) {
					continue
				}
				if (bo.Op == token.EQL && !ft.Val) || (bo.Op == token.NEQ && ft.Val) {
					if errBranchOK(fn, ft.Cond, "ErrInvalidConfig") {
						okk, why = true, "nil test with ErrInvalidConfig on the failing branch"
					} else {
						why = "nil test present but its failing branch does not return ErrInvalidConfig"
					}
				}
			}
			ru.Check("store "+dest+" in "+FuncName(fn), w.Pos(st.Pos()), "the function value was tested non-nil (ErrInvalidConfig otherwise)", okk, why)
		})
	}
	// exported entry points that store a function-typed parameter into a route or the router themselves (NewRoute builds
	// the route every registration path uses; it is callable directly and its result goes to HandleRoute/UpdateRoute)
	for _, fn := range w.FoxFuncs() {
		if isTestHelper(w, fn) || fn.Parent() != nil || fn.Object() == nil || !fn.Object().Exported() {
			continue
		}
		eachInstr(fn, func(in ssa.Instruction) {
			st, ok := in.(*ssa.Store)
			if !ok || !isFuncT(st.Val.Type()) {
				return
			}
			prm, isParam := st.Val.(*ssa.Parameter)
			if !isParam {
				return
			}
			_, f, ok := fieldOfAddr(st.Addr)
			if !ok {
				return
			}
			dest := w.FieldOwner(f)
			if !(strings.HasPrefix(dest, "Router.") || strings.HasPrefix(dest, "Route.")) {
				return
			}
			okk, why := false, "no dominating nil test of parameter "+prm.Name()
			for _, ft := range factsAtBlock(st.Block()) {
				bo, isBin := ft.Cond.(*ssa.BinOp)
				if !isBin || !isNilConst(bo.Y) || bo.X != ssa.Value(prm) {
					continue
				}
				if (bo.Op == token.EQL && !ft.Val) || (bo.Op == token.NEQ && ft.Val) {
					if errBranchOK(fn, ft.Cond, "ErrInvalidRoute") || errBranchOK(fn, ft.Cond, "ErrInvalidConfig") {
						okk, why = true, "nil test with an ErrInvalidRoute/ErrInvalidConfig error on the failing branch"
					} else {
						why = "nil test present but its failing branch does not return ErrInvalidRoute or ErrInvalidConfig"
					}
				}
			}
			ru.Check("store "+dest+" in "+FuncName(fn), w.Pos(st.Pos()), "the function-typed parameter was tested non-nil (error otherwise): a route with a nil handler panics when it is served", okk, why)
		})
	}
	for _, m := range []struct {
		name string
		arg  int
	}{{"Handle", 3}, {"Update", 3}, {"HandleRoute", 2}, {"UpdateRoute", 2}} {
		fn := w.Method("Txn", m.name)
		p := ssa.Value(fn.Params[m.arg])
		okk := false
		for _, b := range fn.Blocks {
			if len(b.Instrs) == 0 {
				continue
			}
			if iff, ok := b.Instrs[len(b.Instrs)-1].(*ssa.If); ok {
				nf := normFact(Fact{iff.Cond, true})
				if bo, ok := nf.Cond.(*ssa.BinOp); ok && bo.X == p && isNilConst(bo.Y) {
					okk = errBranchOK(fn, nf.Cond, "ErrInvalidRoute")
				}
			}
		}
		ru.Check("nil argument of Txn."+m.name, w.Pos(fn.Pos()), "a nil "+fn.Params[m.arg].Name()+" is rejected with ErrInvalidRoute", okk, fmt.Sprint(okk))
	}
}

func checkC19Annotation(w *World, r *Report) {
	ru := r.Rule("C19.4", "annotation keys: a map assignment whose key has interface type is dominated by key != nil and by reflect.ValueOf(key).Comparable() (the dynamic check); no method is called on reflect.TypeOf(key) without the nil test", 1)
	n := 0
	for _, fn := range w.FoxFuncs() {
		if isTestHelper(w, fn) {
			continue
		}
		eachInstr(fn, func(in ssa.Instruction) {
			mu, ok := in.(*ssa.MapUpdate)
			if !ok {
				return
			}
			if _, isIface := mu.Key.Type().Underlying().(*types.Interface); !isIface {
				return
			}
			n++
			nonNil, comparable := false, false
			for _, ft := range factsAtBlock(mu.Block()) {
				if bo, isBin := ft.Cond.(*ssa.BinOp); isBin && isNilConst(bo.Y) && sameExpr(bo.X, mu.Key) {
					if (bo.Op == token.EQL && !ft.Val) || (bo.Op == token.NEQ && ft.Val) {
						nonNil = true
					}
				}
				if c, isCall := ft.Cond.(*ssa.Call); isCall && ft.Val {
					obj := calleeObj(c)
					if isMethodNamed(obj, "reflect", "Value", "Comparable") {
						if src, ok := c.Call.Args[0].(*ssa.Call); ok && isFuncNamed(calleeObj(src), "reflect", "ValueOf") && sameExpr(src.Call.Args[0], mu.Key) {
							comparable = true
						}
					}
				}
			}
			ru.Check("map update with interface key in "+FuncName(fn), w.Pos(mu.Pos()), "key != nil and reflect.ValueOf(key).Comparable() hold", nonNil && comparable, fmt.Sprintf("nonNil=%v dynamicComparable=%v", nonNil, comparable))
		})
		// method calls on reflect.TypeOf(x) must be nil-guarded
		eachInstr(fn, func(in ssa.Instruction) {
			c, ok := in.(*ssa.Call)
			if !ok || !c.Common().IsInvoke() {
				return
			}
			src, ok := c.Common().Value.(*ssa.Call)
			if !ok || !isFuncNamed(calleeObj(src), "reflect", "TypeOf") {
				return
			}
			guarded := false
			for _, ft := range factsAtBlock(c.Block()) {
				if bo, isBin := ft.Cond.(*ssa.BinOp); isBin && isNilConst(bo.Y) && sameExpr(bo.X, src.Call.Args[0]) {
					guarded = (bo.Op == token.EQL && !ft.Val) || (bo.Op == token.NEQ && ft.Val)
				}
			}
			ru.Check("method on reflect.TypeOf in "+FuncName(fn), w.Pos(c.Pos()), "reflect.TypeOf(nil) is nil: its methods need a nil test of the argument first", guarded, fmt.Sprint(guarded))
		})
	}
	if n == 0 {
		ru.Fail("annotation map update", "-", "WithAnnotation stores into the annotation map", "no map update with an interface-typed key found")
	}
}

func checkC19Inherit(w *World, r *Report) {
	ru := r.Rule("C19.5", "inheritance and accessors: NewRoute initialises both trailing-slash flags, the resolver and the middleware list from the router and the parameter count / host split from the validator's results, all before the option loop; Hostname() and Path() slice the pattern at the host split; ParamsLen() reports the stored count", 4)
	nr := w.Method("Router", "NewRoute")
	route := w.FoxType("Route")
	parse := w.Method("Router", "parseRoute")
	var firstOpt ssa.Instruction
	eachInstr(nr, func(in ssa.Instruction) {
		if site, ok := in.(ssa.CallInstruction); ok && site.Common().IsInvoke() && site.Common().Method.Name() == "applyRoute" && firstOpt == nil {
			firstOpt = in
		}
	})
	want := map[string]string{"clientip": "Router.clientip", "redirectTrailingSlash": "Router.redirectTrailingSlash", "ignoreTrailingSlash": "Router.ignoreTrailingSlash", "mws": "Router.mws", "psLen": "parseRoute#0", "hostSplit": "parseRoute#1", "pattern": "param:pattern"}
	got := map[string]string{}
	before := map[string]bool{}
	// the Route may be built by a constructor helper of the module called before the option loop (rte := fox.routeDefaults()):
	// its stores into the Route it allocates count as NewRoute's
	type scanFn struct {
		fn     *ssa.Function
		before bool
	}
	scans := []scanFn{{nr, false}}
	eachInstr(nr, func(in ssa.Instruction) {
		c, ok := in.(*ssa.Call)
		if !ok || c.Call.StaticCallee() == nil || !w.InModule(c.Call.StaticCallee()) || c.Call.StaticCallee().Blocks == nil || c.Call.StaticCallee() == parse {
			return
		}
		if pt, ok := c.Type().(*types.Pointer); ok && namedOf(pt.Elem()) == route {
			scans = append(scans, scanFn{c.Call.StaticCallee(), firstOpt == nil || !instrReachableFrom(firstOpt, c)})
		}
	})
	for _, sc := range scans {
		sc := sc
		eachInstr(sc.fn, func(in ssa.Instruction) {
			st, ok := in.(*ssa.Store)
			if !ok {
				return
			}
			base, f, ok := fieldOfAddr(st.Addr)
			if !ok || namedOf(base.Type()) != route {
				return
			}
			if _, wanted := want[f.Name()]; !wanted {
				return
			}
			if sc.fn != nr {
				if a, isAlloc := seeThrough(base).(*ssa.Alloc); !isAlloc || a.Parent() != sc.fn {
					return
				}
			}
			v := st.Val
			if sl, ok := v.(*ssa.Slice); ok {
				v = sl.X
			}
			desc := valStr(v)
			if _, lf, isLoad := loadedField(v); isLoad {
				desc = w.FieldOwner(lf)
			}
			if ex, ok := v.(*ssa.Extract); ok {
				if c, ok := ex.Tuple.(*ssa.Call); ok && c.Call.StaticCallee() == parse {
					desc = fmt.Sprintf("parseRoute#%d", ex.Index)
				}
			}
			if p, ok := v.(*ssa.Parameter); ok {
				desc = "param:" + p.Name()
			}
			got[f.Name()] = desc
			if sc.fn != nr {
				before[f.Name()] = sc.before
			} else {
				before[f.Name()] = firstOpt == nil || !instrReachableFrom(firstOpt, st)
			}
		})
	}
	for _, name := range []string{"clientip", "redirectTrailingSlash", "ignoreTrailingSlash", "mws", "psLen", "hostSplit", "pattern"} {
		ru.Check("NewRoute initialises "+name, w.Pos(nr.Pos()), "from "+want[name]+", before the options run", got[name] == want[name] && before[name], fmt.Sprintf("from %s, beforeOptions=%v", orDefault(got[name], "<not set>"), before[name]))
	}
	// accessors
	for _, a := range []struct{ name, shape string }{{"Hostname", "pattern[:hostSplit]"}, {"Path", "pattern[hostSplit:]"}} {
		fn := w.Method("Route", a.name)
		shape := "?"
		eachInstr(fn, func(in ssa.Instruction) {
			ret, ok := in.(*ssa.Return)
			if !ok {
				return
			}
			if sl, ok := ret.Results[0].(*ssa.Slice); ok {
				_, xf, okx := loadedField(sl.X)
				lo, hi := "", ""
				if sl.Low != nil {
					if _, f, ok := loadedField(sl.Low); ok {
						lo = f.Name()
					} else {
						lo = valStr(sl.Low)
					}
				}
				if sl.High != nil {
					if _, f, ok := loadedField(sl.High); ok {
						hi = f.Name()
					} else {
						hi = valStr(sl.High)
					}
				}
				if okx {
					shape = xf.Name() + "[" + lo + ":" + hi + "]"
				}
			}
		})
		ru.Check("Route."+a.name, w.Pos(fn.Pos()), "returns "+a.shape, shape == a.shape, shape)
	}
	pl := w.Method("Route", "ParamsLen")
	okPL := false
	eachInstr(pl, func(in ssa.Instruction) {
		if ret, ok := in.(*ssa.Return); ok {
			v := ret.Results[0]
			if cv, ok := v.(*ssa.Convert); ok {
				v = cv.X
			}
			if _, f, ok := loadedField(v); ok && f.Name() == "psLen" {
				okPL = true
			}
		}
	})
	ru.Check("Route.ParamsLen", w.Pos(pl.Pos()), "returns the stored wildcard count", okPL, fmt.Sprint(okPL))
	// Annotation accessor reads the map with the key
	an := w.Method("Route", "Annotation")
	okAn := false
	eachInstr(an, func(in ssa.Instruction) {
		if lk, ok := in.(*ssa.Lookup); ok && lk.Index == ssa.Value(an.Params[1]) {
			okAn = true
		}
	})
	ru.Check("Route.Annotation", w.Pos(an.Pos()), "looks the key up in the route's annotation map", okAn, fmt.Sprint(okAn))
}
