package main

import (
	"fmt"
	"go/ast"
	"go/token"
	"strings"

	"golang.org/x/tools/go/cfg"
	"golang.org/x/tools/go/ssa"
)

func init() { register("C09", checkC09) }

func checkC09(w *World, r *Report) {
	r.Explanation = "Structure of hostname matching: the host matcher enters the path phase only when the whole host AND the whole key of the current node were consumed, and only through the node's '/' child " +
		"(the sibling rule of the path matcher's full-consumption test; this is the clause whose absence let 'example.com.evil.org' match 'example.com/'); the host handed to it is the request Host with port and " +
		"trailing dot stripped and is tested non-empty; StripHostPort returns its input unchanged only for an empty host or an unparsable host:port and otherwise trims one trailing dot; the path-only fallback " +
		"starts from an empty parameter list and a cleared trailing-slash flag and is reached only when the hostname attempt produced no node; the path-only shortcut is taken only when the method's root has " +
		"the single child '/'."
	r.NotDecided = []string{"label-by-label equality for hostname parameters over all hosts (behaviour of the walk loop)", "which of several hostname routes wins"}
	r.Assumptions = []string{"hostname patterns are validated and always followed by a '/' child (C10, insert)"}
	checkC09PathPhase(w, r, "C09.1")
	checkC09Strip(w, r)
	checkC09Fallback(w, r)
	checkNoEmptyCapture(w, r, "C09.4")
	checkCursorReset(w, r, "C09.5")
	checkSkipStackReset(w, r, "C09.6")
	checkC09HostHasNoSlash(w, r)
	checkC09BracketsOnlyAroundIPv6(w, r)
}

// findCalls returns the call expressions to fn name inside the function body.
func findCalls(body ast.Node, name string) []*ast.CallExpr {
	var out []*ast.CallExpr
	ast.Inspect(body, func(n ast.Node) bool {
		if c, ok := n.(*ast.CallExpr); ok {
			switch f := c.Fun.(type) {
			case *ast.Ident:
				if f.Name == name {
					out = append(out, c)
				}
			case *ast.SelectorExpr:
				if f.Sel.Name == name {
					out = append(out, c)
				}
			}
		}
		return true
	})
	return out
}

func checkC09PathPhase(w *World, r *Report, id string) {
	ru := r.Rule(id, "the host is fully consumed before the path phase: in the host matcher the call that starts the path lookup under the host node is dominated by charsMatched == len(host) and charsMatchedInNodeFound == len(current.key), and descends into the child whose key byte is '/'", 1)
	ru.Idiom("a == b / b == a / !(a != b)")
	af := w.astFuncOf(modulePath, "lookupByDomain")
	calls := findCalls(af.decl.Body, "lookupByPath")
	if len(calls) != 1 {
		ru.Fail("path phase of lookupByDomain", w.Pos(af.decl.Pos()), "one call of the path matcher under the host node", fmt.Sprintf("%d calls", len(calls)))
		return
	}
	c := calls[0]
	b, _ := af.blockOf(c)
	if b == nil {
		ru.Fail("path phase of lookupByDomain", w.Pos(c.Pos()), "reachable", "not in the CFG")
		return
	}
	facts := af.factsAt(b)
	host := holdsEq(facts, "charsMatched", "len(host)")
	key := holdsEq(facts, "charsMatchedInNodeFound", "len(current.key)")
	slash := false
	for _, f := range facts {
		if x, y, ok := isCmp(f.e, token.LSS); ok && !f.val && x == "idx" && y == "0" {
			slash = true
		}
	}
	// idx must have been found by comparing childKeys with the slash delimiter
	idxFromSlash := false
	ast.Inspect(af.decl.Body, func(n ast.Node) bool {
		be, ok := n.(*ast.BinaryExpr)
		if ok && be.Op == token.EQL && strings.HasSuffix(exprStr(be.X), ".childKeys[i]") && (exprStr(be.Y) == "slashDelim" || exprStr(be.Y) == "'/'") {
			idxFromSlash = true
		}
		// or through a search helper: idx = linearSearch(current.childKeys, slashDelim) / bytes.IndexByte(...)
		if as, isAs := n.(*ast.AssignStmt); isAs && len(as.Lhs) == 1 && len(as.Rhs) == 1 && exprStr(as.Lhs[0]) == "idx" {
			if call, isCall := as.Rhs[0].(*ast.CallExpr); isCall && len(call.Args) == 2 && strings.HasSuffix(exprStr(call.Args[0]), ".childKeys") &&
				(exprStr(call.Args[1]) == "slashDelim" || exprStr(call.Args[1]) == "'/'") {
				idxFromSlash = true
			}
		}
		return true
	})
	child := exprStr(c.Args[1])
	ru.Check("path phase of lookupByDomain", w.Pos(c.Pos()), "entered only after the whole host and node key were consumed, through the '/' child",
		host && key && slash && idxFromSlash && strings.HasSuffix(child, ".children[idx]"),
		fmt.Sprintf("hostConsumed=%v keyConsumed=%v slashChildFound=%v child=%s", host, key, slash && idxFromSlash, child))
}

func checkC09Strip(w *World, r *Report) { checkC09StripAs(w, r, "C09.2") }

func checkC09StripAs(w *World, r *Report, id string) {
	ru := r.Rule(id, "port and trailing dot removed: the host given to the host matcher is StripHostPort(request host), tested non-empty first; StripHostPort returns its argument unchanged only when it is empty, net.SplitHostPort failed or the text after the last ':' is not a numeric port, and otherwise returns strings.TrimSuffix(host, \".\")", 2)
	af := w.astFuncOf(modulePath, "roots.lookup")
	calls := findCalls(af.decl.Body, "lookupByDomain")
	if len(calls) != 1 {
		ru.Fail("hostname attempt in roots.lookup", w.Pos(af.decl.Pos()), "one call of the host matcher", fmt.Sprintf("%d", len(calls)))
	} else {
		c := calls[0]
		hostArg := exprStr(c.Args[2])
		fromStrip := false
		ast.Inspect(af.decl.Body, func(n ast.Node) bool {
			as, ok := n.(*ast.AssignStmt)
			if ok && len(as.Lhs) == 1 && exprStr(as.Lhs[0]) == hostArg {
				if ce, ok := as.Rhs[0].(*ast.CallExpr); ok && strings.HasSuffix(exprStr(ce.Fun), "StripHostPort") {
					fromStrip = true
				}
			}
			return true
		})
		nonEmpty := false
		if b, _ := af.blockOf(c); b != nil {
			for _, f := range af.factsAt(b) {
				if x, y, ok := isCmp(f.e, token.NEQ); ok && f.val && x == hostArg && y == `""` {
					nonEmpty = true
				}
				if x, y, ok := isCmp(f.e, token.EQL); ok && !f.val && x == hostArg && y == `""` {
					nonEmpty = true
				}
			}
		}
		ru.Check("hostname attempt in roots.lookup", w.Pos(c.Pos()), "host = StripHostPort(hostPort), non-empty", fromStrip && nonEmpty, fmt.Sprintf("fromStripHostPort=%v nonEmpty=%v", fromStrip, nonEmpty))
	}
	strip := w.FuncIn(modulePath+"/internal/netutil", "StripHostPort")
	r.Analysed(FuncName(strip))
	param := ssa.Value(strip.Params[0])
	eachInstr(strip, func(in ssa.Instruction) {
		ret, ok := in.(*ssa.Return)
		if !ok {
			return
		}
		v := ret.Results[0]
		okk, why := false, valStr(v)
		if c, ok := v.(*ssa.Call); ok && isFuncNamed(calleeObj(c), "strings", "TrimSuffix") {
			if s, ok := constString(c.Call.Args[1]); ok && s == "." {
				okk, why = true, "TrimSuffix(…, \".\")"
			}
		}
		if v == param {
			reason := func(fs []Fact) string {
				for _, f := range fs {
					if bo, ok := f.Cond.(*ssa.BinOp); ok {
						if s, isS := constString(bo.Y); isS && s == "" && bo.X == param && ((bo.Op == token.EQL && f.Val) || (bo.Op == token.NEQ && !f.Val)) {
							return "empty host returned unchanged"
						}
						if isNilConst(bo.Y) && isErrorType(bo.X.Type()) && ((bo.Op == token.NEQ && f.Val) || (bo.Op == token.EQL && !f.Val)) {
							return "unparsable host:port returned unchanged"
						}
					}
					// the text after the last ':' is not a numeric port (validator of the package said no)
					if c, ok := f.Cond.(*ssa.Call); ok && !f.Val {
						if cal := c.Call.StaticCallee(); cal != nil && cal.Pkg == strip.Pkg {
							return "host with a non-numeric \":suffix\" returned unchanged"
						}
					}
					// a syntactic rejection of the host part (unbalanced or stray brackets, further colons): what
					// net.SplitHostPort reports as an error, tested with predicates of package strings
					if c, ok := f.Cond.(*ssa.Call); ok {
						if obj := calleeObj(c); obj != nil && obj.Pkg() != nil && obj.Pkg().Path() == "strings" {
							switch obj.Name() {
							case "HasPrefix", "HasSuffix", "Contains", "ContainsAny", "ContainsRune", "IndexByte", "Count":
								return "malformed host:port returned unchanged"
							}
						}
					}
				}
				return ""
			}
			if why2 := reason(factsAtBlock(ret.Block())); why2 != "" {
				okk, why = true, why2
			} else if len(ret.Block().Preds) > 0 {
				all := true
				for _, p := range ret.Block().Preds {
					if w2 := reason(factsOnEdge(p, ret.Block())); w2 == "" {
						all = false
					} else {
						why = w2
					}
				}
				okk = all
			}
		}
		ru.Check("return of StripHostPort", w.InstrPos(ret), "trimmed host, or the unchanged input for an empty/unparsable host or a non-numeric port", okk, why)
	})
}

func checkC09Fallback(w *World, r *Report) {
	ru := r.Rule("C09.3", "fallback starts clean and only after a miss: the hostname attempt's result is returned when it found a node; the path-only fallback call is preceded on every path by truncating the context's params to 0 and clearing its tsr flag; the early path-only shortcut is taken only when the method root has the single child '/'", 2)
	af := w.astFuncOf(modulePath, "roots.lookup")
	calls := findCalls(af.decl.Body, "lookupByPath")
	if len(calls) != 2 {
		ru.Fail("path lookups in roots.lookup", w.Pos(af.decl.Pos()), "a shortcut call and a fallback call", fmt.Sprintf("%d calls", len(calls)))
		return
	}
	shortcut, fallback := calls[0], calls[1]
	// shortcut gate
	if b, _ := af.blockOf(shortcut); b != nil {
		facts := af.factsAt(b)
		single, slash := false, false
		for _, f := range facts {
			if x, y, ok := isCmp(f.e, token.EQL); ok && f.val {
				if strings.HasSuffix(x, ".children)") && strings.HasPrefix(x, "len(") && y == "1" {
					single = true
				}
				if strings.HasSuffix(x, ".childKeys[0]") && (y == "'/'" || y == "slashDelim") {
					slash = true
				}
			}
		}
		ru.Check("path-only shortcut", w.Pos(shortcut.Pos()), "taken only when the method root has exactly one child and its key byte is '/'", single && slash && strings.HasSuffix(exprStr(shortcut.Args[1]), ".children[0]"), fmt.Sprintf("singleChild=%v slashKey=%v", single, slash))
	}
	// hostname result returned: evaluate the guard of `return n, tsr` for every combination of (found, tsr, ignore flag,
	// redirect flag) of the hostname attempt
	domain := findCalls(af.decl.Body, "lookupByDomain")
	var guard ast.Expr
	ast.Inspect(af.decl.Body, func(n ast.Node) bool {
		ifs, ok := n.(*ast.IfStmt)
		if !ok {
			return true
		}
		for _, st := range ifs.Body.List {
			ret, ok := st.(*ast.ReturnStmt)
			if ok && len(ret.Results) == 2 && exprStr(ret.Results[0]) == "n" && guard == nil {
				guard = ifs.Cond
			}
		}
		return true
	})
	type env struct{ found, tsr, ign, red bool }
	var evalG func(e ast.Expr, v env) (bool, bool)
	evalG = func(e ast.Expr, v env) (bool, bool) {
		switch x := e.(type) {
		case *ast.ParenExpr:
			return evalG(x.X, v)
		case *ast.UnaryExpr:
			if x.Op == token.NOT {
				r, k := evalG(x.X, v)
				return !r, k
			}
		case *ast.BinaryExpr:
			if x.Op == token.LAND || x.Op == token.LOR {
				l, lk := evalG(x.X, v)
				r, rk := evalG(x.Y, v)
				if x.Op == token.LAND {
					if (lk && !l) || (rk && !r) {
						return false, true
					}
					return l && r, lk && rk
				}
				if (lk && l) || (rk && r) {
					return true, true
				}
				return l || r, lk && rk
			}
		}
		switch s := exprStr(e); {
		case s == "n!=nil" || s == "nil!=n":
			return v.found, true
		case s == "n==nil" || s == "nil==n":
			return !v.found, true
		case s == "tsr":
			return v.tsr, true
		case strings.HasSuffix(s, ".ignoreTrailingSlash"):
			return v.ign, v.found // only meaningful when a node was found
		case strings.HasSuffix(s, ".redirectTrailingSlash"):
			return v.red, v.found
		}
		return false, false
	}
	if guard == nil || len(domain) != 1 {
		r.Unrecognised("C09.3: the return of the hostname attempt's result was not found in roots.lookup")
	} else {
		lost, spurious, shadows, unknown := "", "", "", false
		for m := 0; m < 16; m++ {
			v := env{m&1 != 0, m&2 != 0, m&4 != 0, m&8 != 0}
			if !v.found && (v.tsr || v.ign || v.red) {
				continue
			}
			ret, known := evalG(guard, v)
			if !known {
				unknown = true
				continue
			}
			switch {
			case !v.found && ret:
				spurious = "returned although the hostname attempt found nothing"
			case v.found && (!v.tsr || v.ign || v.red) && !ret:
				lost = fmt.Sprintf("a hostname result is dropped (tsr=%v ignore=%v redirect=%v)", v.tsr, v.ign, v.red)
			case v.found && v.tsr && !v.ign && !v.red && ret:
				shadows = "a trailing-slash recommendation whose route has neither trailing-slash mode enabled pre-empts the path-only fallback"
			}
		}
		if unknown {
			r.Unrecognised("C09.3: the guard %s of the hostname result mentions something other than n, tsr and the route's trailing-slash flags", exprStr(guard))
		} else {
			ru.Check("hostname hit", w.Pos(guard.Pos()), "a direct hostname match, and a trailing-slash recommendation its route acts on, are returned without trying path-only routes; nothing is returned when the attempt found nothing", lost == "" && spurious == "", orDefault(lost+spurious, "guard "+exprStr(guard)))
			// the other half of the sentence: path-only routes are used when the hostname attempt yields no match and no action.
			// It may also be honoured by the dispatcher retrying a path-only lookup (host argument "").
			retry := false
			if serve := w.Method("Router", "ServeHTTP"); serve != nil {
				eachInstr(serve, func(in ssa.Instruction) {
					if c, ok := in.(*ssa.Call); ok && c.Call.StaticCallee() != nil && c.Call.StaticCallee().Name() == "lookup" && len(c.Call.Args) >= 5 {
						if hs, ok := constString(c.Call.Args[2]); ok && hs == "" {
							retry = true
						}
					}
				})
			}
			ru.Check("recommendation without action", w.Pos(guard.Pos()), "a hostname trailing-slash recommendation that no trailing-slash mode acts on does not keep the path-only routes from being tried", shadows == "" || retry, orDefault(shadows, "falls back"))
		}
	}
	// fallback preceded by the two resets after the hostname attempt
	fb, fi := af.blockOf(fallback)
	if fb == nil {
		ru.Fail("path-only fallback", w.Pos(fallback.Pos()), "reachable", "not in the CFG")
		return
	}
	var ctxName string
	for _, f := range af.decl.Type.Params.List {
		if st, ok := f.Type.(*ast.StarExpr); ok {
			if id, ok := st.X.(*ast.Ident); ok && id.Name == "cTx" {
				ctxName = f.Names[0].Name
			}
		}
	}
	isParamsReset := func(n ast.Node) bool {
		as, ok := n.(*ast.AssignStmt)
		if !ok || len(as.Lhs) != 1 {
			return false
		}
		return exprStr(as.Lhs[0]) == "*"+ctxName+".params" && exprStr(as.Rhs[0]) == "(*"+ctxName+".params)[:0]"
	}
	isTsrReset := func(n ast.Node) bool {
		as, ok := n.(*ast.AssignStmt)
		return ok && len(as.Lhs) == 1 && exprStr(as.Lhs[0]) == ctxName+".tsr" && exprStr(as.Rhs[0]) == "false"
	}
	var domBlock *cfg.Block
	if len(domain) == 1 {
		domBlock, _ = af.blockOf(domain[0])
	}
	found := map[string]bool{}
	for _, b := range af.g.Blocks {
		if !b.Live || !af.dominates(b, fb) {
			continue
		}
		// the reset must come after the hostname attempt on the paths that made it
		after := domBlock == nil || b == fb || !af.reachableFrom(b)[domBlock]
		for i, n := range b.Nodes {
			if b == fb && i >= fi {
				break
			}
			if isParamsReset(n) && after {
				found["params"] = true
			}
			if isTsrReset(n) && after {
				found["tsr"] = true
			}
		}
	}
	ru.Check("path-only fallback", w.Pos(fallback.Pos()), "*c.params = (*c.params)[:0] and c.tsr = false dominate the fallback call, after the hostname attempt", found["params"] && found["tsr"], fmt.Sprintf("paramsTruncated=%v tsrCleared=%v", found["params"], found["tsr"]))
}

// checkC09HostHasNoSlash: the tree stores a hostname route as host nodes followed by a '/' child that starts the path.
// The hostname matcher picks children by the next host byte; a '/' inside the Host would walk through that child into
// the path nodes and "match" a Host that merely contains the pattern plus a piece of path (Host "a.b/x", path "/y"
// served by a.b/x/y; Host "/x" by the path-only route /x/y). No hostname contains '/', so such a Host must go
// straight to the path-only routes.
func checkC09HostHasNoSlash(w *World, r *Report) {
	ru := r.Rule("C09.7", "the Host never crosses the host/path boundary: the hostname matcher is entered only for a host known to contain no '/' (or its child searches refuse that byte)", 1)
	af := w.astFuncOf(modulePath, "roots.lookup")
	calls := findCalls(af.decl.Body, "lookupByDomain")
	if len(calls) != 1 {
		r.Unrecognised("C09.7: %d calls of lookupByDomain in roots.lookup", len(calls))
		return
	}
	c := calls[0]
	hostArg := exprStr(c.Args[2])
	slash := func(s string) bool { return s == "slashDelim" || s == "'/'" || s == "\"/\"" }
	ok := false
	if b, _ := af.blockOf(c); b != nil {
		for _, f := range af.factsAt(b) {
			e := f.e
			if p, isP := e.(*ast.ParenExpr); isP {
				e = p.X
			}
			// strings.IndexByte(host, '/') < 0   /  >= 0 false  /  == -1
			if be, isB := e.(*ast.BinaryExpr); isB {
				if call, isC := be.X.(*ast.CallExpr); isC && len(call.Args) == 2 && exprStr(call.Args[0]) == hostArg && slash(exprStr(call.Args[1])) && strings.HasPrefix(exprStr(call.Fun), "strings.Index") {
					y := exprStr(be.Y)
					if (be.Op == token.LSS && y == "0" && f.val) || (be.Op == token.GEQ && y == "0" && !f.val) || (be.Op == token.EQL && y == "-1" && f.val) || (be.Op == token.NEQ && y == "-1" && !f.val) {
						ok = true
					}
				}
			}
			// !strings.Contains(host, "/")
			neg := false
			if u, isU := e.(*ast.UnaryExpr); isU && u.Op == token.NOT {
				e, neg = u.X, true
			}
			if call, isC := e.(*ast.CallExpr); isC && len(call.Args) == 2 && exprStr(call.Args[0]) == hostArg && slash(exprStr(call.Args[1])) && strings.HasPrefix(exprStr(call.Fun), "strings.Contains") {
				if f.val == neg {
					ok = true
				}
			}
		}
	}
	why := "no test that " + hostArg + " contains no '/' before the hostname matcher is entered"
	if !ok {
		// alternative: both child searches of the hostname matcher refuse the byte
		ad := w.astFuncOf(modulePath, "lookupByDomain")
		n, guarded := 0, 0
		ast.Inspect(ad.decl.Body, func(nd ast.Node) bool {
			be, isB := nd.(*ast.BinaryExpr)
			if !isB || be.Op != token.EQL || !strings.Contains(exprStr(be.X), ".childKeys[") || !strings.HasPrefix(exprStr(be.Y), "host[") {
				return true
			}
			n++
			if b, _ := ad.blockOf(be); b != nil {
				for _, f := range ad.factsAt(b) {
					if x, y, isC := isCmp(f.e, token.NEQ); isC && f.val && x == exprStr(be.Y) && slash(y) {
						guarded++
					}
				}
			}
			return true
		})
		if n > 0 && n == guarded {
			ok, why = true, ""
		}
	}
	ru.Check("hostname attempt in roots.lookup", w.Pos(c.Pos()), "entered only for a host without '/'", ok, orDefault(map[bool]string{true: "tested"}[ok], why+": a Host such as \"a.b/x\" walks through the '/' child into the path nodes"))
}

// checkC09BracketsOnlyAroundIPv6: "the request Host, with any port and one trailing dot removed". Square brackets are
// part of the syntax of an IPv6 literal with a port ([::1]:80) and go with the port; around anything else they are
// bytes of the host. The normaliser may drop the first and last byte of the host part only where the text between the
// brackets is known to contain a ':'.
func checkC09BracketsOnlyAroundIPv6(w *World, r *Report) {
	ru := r.Rule("C09.8", "brackets are removed only around an IPv6 literal: in netutil.StripHostPort a value that drops the first and last byte of the host part (the surrounding \"[\" \"]\") reaches a return only where the text between them is known to contain ':'", 1)
	fn := w.FuncIn(modulePath+"/internal/netutil", "StripHostPort")
	r.Analysed(FuncName(fn))
	// the bracket-dropping reslices: x[1 : len(x)-1]
	var drops []*ssa.Slice
	eachInstr(fn, func(in ssa.Instruction) {
		sl, ok := in.(*ssa.Slice)
		if !ok || sl.Low == nil || sl.High == nil {
			return
		}
		if k, ok := constInt(sl.Low); !ok || k != 1 {
			return
		}
		if bo, ok := sl.High.(*ssa.BinOp); ok && bo.Op == token.SUB {
			if one, ok := constInt(bo.Y); ok && one == 1 {
				drops = append(drops, sl)
			}
		}
	})
	dependsOn := func(v ssa.Value, on ssa.Value) bool {
		seen := map[ssa.Value]bool{}
		var walk func(x ssa.Value, d int) bool
		walk = func(x ssa.Value, d int) bool {
			if x == nil || seen[x] || d > 8 {
				return false
			}
			seen[x] = true
			if x == on {
				return true
			}
			if _, isPhi := x.(*ssa.Phi); isPhi {
				return false // phis are handled edge by edge by the caller
			}
			if in, ok := x.(ssa.Instruction); ok {
				for _, op := range in.Operands(nil) {
					if op != nil && *op != nil && walk(*op, d+1) {
						return true
					}
				}
			}
			return false
		}
		return walk(v, 0)
	}
	hasColonFact := func(fs []Fact, sl *ssa.Slice) bool {
		for _, ft := range fs {
			c, ok := ft.Cond.(*ssa.Call)
			if !ok || !ft.Val {
				continue
			}
			obj := calleeObj(c)
			if obj == nil || obj.Pkg() == nil || obj.Pkg().Path() != "strings" || !strings.HasPrefix(obj.Name(), "Contains") || len(c.Call.Args) != 2 {
				continue
			}
			if s, ok := constString(c.Call.Args[1]); (ok && s == ":") || func() bool { k, ok := constInt(c.Call.Args[1]); return ok && k == ':' }() {
				if sameExpr(c.Call.Args[0], sl) {
					return true
				}
			}
		}
		return false
	}
	n := 0
	for _, sl := range drops {
		// every way the slice reaches a return
		eachInstr(fn, func(in ssa.Instruction) {
			ret, ok := in.(*ssa.Return)
			if !ok || len(ret.Results) == 0 {
				return
			}
			// find a phi feeding the return value, if any
			var visit func(v ssa.Value, facts []Fact, depth int)
			visit = func(v ssa.Value, facts []Fact, depth int) {
				if depth > 6 {
					return
				}
				if dependsOn(v, sl) {
					n++
					okk := hasColonFact(facts, sl)
					ru.Check("bracket removal in StripHostPort", w.Pos(sl.Pos()), "returned only where the bracketed text contains ':'", okk, orDefault(map[bool]string{true: "IPv6 literal"}[okk], "any bracketed host loses its brackets once a port follows: Host \"[a.com]:80\" becomes \"a.com\" and matches the route a.com/"))
					return
				}
				// look through calls (TrimSuffix) to phis
				switch x := v.(type) {
				case *ssa.Phi:
					for i, e := range x.Edges {
						visit(e, append(append([]Fact{}, facts...), factsOnEdge(x.Block().Preds[i], x.Block())...), depth+1)
					}
				case *ssa.Call:
					for _, a := range x.Call.Args {
						visit(a, facts, depth+1)
					}
				}
			}
			visit(ret.Results[0], factsAtBlock(ret.Block()), 0)
		})
	}
	if n == 0 {
		ru.Pass("bracket removal in StripHostPort", w.Pos(fn.Pos()), "no bracket removal reaches a return", "the normaliser does not drop brackets")
	}
}
