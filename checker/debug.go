package main

import (
	"fmt"

	"golang.org/x/tools/go/ssa"
)

// debugAppends lists every append call of the module with the shape of its first argument (development aid).
func debugAppends(w *World) {
	for _, fn := range w.ModuleFuncs() {
		eachInstr(fn, func(in ssa.Instruction) {
			c, ok := in.(*ssa.Call)
			if !ok {
				return
			}
			b, ok := c.Call.Value.(*ssa.Builtin)
			if !ok || b.Name() != "append" {
				return
			}
			fmt.Printf("%-28s %-40s base=%T %s\n", w.Pos(c.Pos()), FuncName(fn), c.Call.Args[0], valStr(c.Call.Args[0]))
		})
	}
}

func debugOwnSites(w *World) {
	o := newOwn(w)
	o.analyseAll()
	for _, s := range o.sites {
		fmt.Printf("%-14s %-34s ok=%-5v need=%d have=%-40s %s | %s\n", w.InstrPos(s.in), FuncName(s.fn), s.ok, s.need, s.have, s.what, s.via)
	}
}

func debugAstFacts(w *World, fname, callee string) {
	af := w.astFuncOf(modulePath, fname)
	for _, c := range findCalls(af.decl.Body, callee) {
		b, i := af.blockOf(c)
		fmt.Printf("call at %s in block %v idx %d\n", w.Pos(c.Pos()), b, i)
		for d := b; d != nil; d = af.idom[d] {
			fmt.Printf("  chain block %d (%s) preds=%d succs=%d\n", d.Index, d.Kind, len(af.pred[d]), len(d.Succs))
		}
		for _, f := range af.factsAt(b) {
			fmt.Println("   fact:", f)
		}
	}
}
