// foxcheck decides structural clauses of the fox properties (C01..C20) by static analysis of /repo's current
// source. See /verif/DESIGN.md.
package main

import (
	"encoding/json"
	"flag"
	"fmt"
	"os"
	"path/filepath"
	"runtime/debug"
	"sort"
	"strconv"
)

type propertyCheck struct {
	ID  string
	Run func(w *World, r *Report)
}

var registry = map[string]propertyCheck{}

func register(id string, run func(w *World, r *Report)) {
	registry[id] = propertyCheck{id, run}
}

func main() {
	var (
		prop   = flag.String("property", "", "property id (C01..C20)")
		tier   = flag.String("tier", "", "quick|thorough (default: $VERIF_TIER or quick)")
		repo   = flag.String("repo", "/repo", "repository to analyse")
		verif  = flag.String("verif", "/verif", "verification directory (evidence, known findings)")
		replay = flag.String("replay", "", "replay file: re-run the rule instance recorded in it")
		list   = flag.Bool("list", false, "list implemented properties")
		noEvid = flag.Bool("no-evidence", false, "write evidence to a scratch directory (used for seeded variants)")
		goos   = flag.String("goos", "", "GOOS for the load (default: host)")
		goarch = flag.String("goarch", "", "GOARCH for the load (default: host)")
		inner  = flag.Bool("inner", false, "internal: run as matrix/variant sub-process, print JSON summary")
		dbg    = flag.String("debug", "", "development aid: appends")
	)
	flag.Parse()
	if *dbg != "" {
		w, err := loadWorld(*repo, *goos, *goarch)
		if err != nil {
			fmt.Fprintln(os.Stderr, err)
			os.Exit(2)
		}
		switch *dbg {
		case "appends":
			debugAppends(w)
		case "own":
			debugOwnSites(w)
		case "astfacts":
			debugAstFacts(w, flag.Arg(0), flag.Arg(1))
		}
		return
	}
	if *list {
		ids := make([]string, 0, len(registry))
		for id := range registry {
			ids = append(ids, id)
		}
		sort.Strings(ids)
		for _, id := range ids {
			fmt.Println(id)
		}
		return
	}
	replayKey := ""
	if *replay != "" {
		b, err := os.ReadFile(*replay)
		if err != nil {
			fmt.Fprintln(os.Stderr, err)
			os.Exit(2)
		}
		var rp struct{ Property, Key string }
		if err := json.Unmarshal(b, &rp); err != nil {
			fmt.Fprintln(os.Stderr, err)
			os.Exit(2)
		}
		*prop, replayKey = rp.Property, rp.Key
	}
	if *tier == "" {
		*tier = os.Getenv("VERIF_TIER")
	}
	if *tier != "thorough" {
		*tier = "quick"
	}
	seed, _ := strconv.ParseInt(os.Getenv("VERIF_SEED"), 10, 64)
	pc, ok := registry[*prop]
	if !ok {
		fmt.Fprintf(os.Stderr, "unknown or unimplemented property %q\n", *prop)
		os.Exit(2)
	}
	os.Exit(runProperty(pc, *repo, *verif, *tier, seed, *goos, *goarch, *noEvid, *inner, replayKey))
}

func runProperty(pc propertyCheck, repo, verif, tier string, seed int64, goos, goarch string, noEvid, inner bool, replayKey string) (status int) {
	rep := newReport(pc.ID, tier, seed)
	defer func() {
		if p := recover(); p != nil {
			if ae, ok := p.(anchorError); ok {
				fmt.Fprintln(os.Stderr, ae.Error())
				fmt.Fprintln(os.Stderr, "the checker cannot locate a construct it is anchored on; no verdict")
			} else {
				fmt.Fprintf(os.Stderr, "CHECKER-PANIC %v\n%s\n", p, debug.Stack())
			}
			status = 2
		}
	}()
	w, err := loadWorld(repo, goos, goarch)
	if err != nil {
		fmt.Fprintln(os.Stderr, "LOAD-FAILED", err)
		return 2
	}
	rep.Extra["packages_loaded"] = len(w.Pkgs)
	rep.Extra["module_functions"] = len(w.ModuleFuncs())
	rep.Extra["load"] = map[string]string{"goos": orDefault(goos, "host"), "goarch": orDefault(goarch, "host"), "repo": repo}
	pc.Run(w, rep)

	if replayKey != "" {
		for _, ru := range rep.Rules {
			for _, ob := range ru.Obs {
				if ob.Key == replayKey {
					if ob.OK {
						fmt.Printf("replay %s: obligation holds on the current tree (%s)\n", replayKey, ob.Why)
						return 0
					}
					fmt.Printf("replay %s: still failing at %s: %s\n", replayKey, ob.Pos, ob.Why)
					fmt.Printf("VIOLATION property=%s replay=%s\n", pc.ID, flag.Lookup("replay").Value.String())
					return 1
				}
			}
		}
		fmt.Printf("replay %s: construct no longer present\n", replayKey)
		return 0
	}

	if tier == "thorough" && !inner {
		thoroughExtras(pc, w, rep, repo, verif)
	}
	known, err := loadKnown(filepath.Join(verif, "known-findings.txt"))
	if err != nil {
		fmt.Fprintln(os.Stderr, "known-findings:", err)
		return 2
	}
	out := verif
	if noEvid || inner {
		d, err := os.MkdirTemp("", "foxcheck-ev-")
		if err != nil {
			fmt.Fprintln(os.Stderr, err)
			return 2
		}
		defer os.RemoveAll(d)
		out = d
	}
	st := rep.Finish(out, known)
	if inner {
		// machine readable summary for the parent process
		type failed struct{ Key, Pos, Why string }
		var fl []failed
		n := 0
		for _, ru := range rep.Rules {
			for _, ob := range ru.Obs {
				n++
				if !ob.OK {
					fl = append(fl, failed{ob.Key, ob.Pos, ob.Why})
				}
			}
		}
		b, _ := json.Marshal(map[string]any{"obligations": n, "failed": fl, "status": st})
		fmt.Printf("INNER-SUMMARY %s\n", b)
	}
	return st
}

func orDefault(s, d string) string {
	if s == "" {
		return d
	}
	return s
}
