package main

import (
	"fmt"
	"go/token"
	"go/types"
	"sort"
	"strings"

	"golang.org/x/tools/go/ssa"
)

func init() { register("C04", checkC04) }

func checkC04(w *World, r *Report) {
	r.Explanation = "Typestate/dominance rules over the publication protocol (fox.go, txn.go, tree.go), on every path of the functions involved: " +
		"one publication point (atomic Store only in the constructor and in Txn.Commit, guarded), each write transaction settled exactly once, " +
		"every managed write transaction aborted on every exit including panic, Commit only on the success branch, every Txn method guarded against " +
		"settled/read-only use, and uncommitted state never touching the published pointer. Together with C03 (published trees are immutable) and " +
		"C05.3 (a reader loads once) these are the necessary structural conditions of atomic visibility."
	r.NotDecided = []string{"what concurrent readers actually observe (needs executions)", "that the writes of a transaction are correct (C02)"}
	r.Assumptions = []string{"Txn values are used by one goroutine (documented contract)", "go/ssa control-flow and dominator construction is correct"}
	p := newProto(w)
	commit := w.Method("Txn", "Commit")
	abort := w.Method("Txn", "Abort")
	r.Analysed(FuncName(commit), FuncName(abort))

	checkC04Publication(w, r, p, commit)
	checkC04Settle(w, r, p, commit, abort)
	checkC04Managed(w, r, p)
	checkC04CommitOnSuccess(w, r, p)
	checkC04Guards(w, r, p)
	checkC04Isolation(w, r, p)
	// isolation also needs that a transaction never writes storage reachable from the published tree (rule C03.1)
	o := newOwn(w)
	o.analyseAll()
	checkOwnWrites(w, r, o, "C04.7")
	// a transaction reads its own writes: every reader of a transaction looks in the transaction's root (rule C01.1 part)
	ru8 := r.Rule("C04.8", "read your own writes: lookups issued through a transaction (Has, Route, Reverse, Lookup, its iterators) read the transaction's own root, iterators their snapshot root, router methods the tree they loaded", 5)
	lookupRootObligations(w, ru8)
	checkC04TxnConstruction(w, r)
}

// ---- C04.1 ------------------------------------------------------------------------------------------------

func checkC04Publication(w *World, r *Report, p *Proto, commit *ssa.Function) {
	checkC04PublicationAs(w, r, p, commit, "C04.1")
}

// checkC04PublicationAs is rule C04.1 (repeated as C07.3: an aborted transaction publishes nothing).
func checkC04PublicationAs(w *World, r *Report, p *Proto, commit *ssa.Function, id string) {
	ru := r.Rule(id, "one publication point: the tree pointer is stored only by the constructor (on the Router it just allocated) and by Txn.Commit, there exactly once, dominated by txn.write and txn.rootTxn != nil; no Swap/CompareAndSwap, no plain access", 1)
	nCommit := 0
	for _, s := range p.sites(p.Tree) {
		pos := w.Pos(s.call.Pos())
		switch s.name {
		case "Load":
			continue
		case "Store":
			if s.fn == commit {
				nCommit++
				wr, live := p.txnGuardFacts(s.fn, s.call.Block())
				inLoop := blockReach(s.call.Block(), false)[s.call.Block()]
				ok := wr && live && !inLoop
				why := fmt.Sprintf("guards: write=%v rootTxn!=nil=%v inLoop=%v", wr, live, inLoop)
				// the stored value must be the result of tXn.commit() on this transaction's root
				if ok {
					args := callArgs(s.call)
					okv := false
					if c, isCall := args[1].(*ssa.Call); isCall {
						if obj := calleeObj(c); obj != nil && recvNamed(obj) == p.InnerTxn {
							okv = true
						}
					}
					if !okv {
						ok, why = false, "stored value is not the tree built by the transaction ("+valStr(args[1])+")"
					}
				}
				ru.Check("Store in (*Txn).Commit", pos, "publication guarded by write && rootTxn != nil, once, of the transaction's own tree", ok, why)
				continue
			}
			// constructor: receiver is a Router allocated in this function
			args := callArgs(s.call)
			base, _, _ := fieldOfAddr(args[0])
			if a, ok := base.(*ssa.Alloc); ok && a.Heap && a.Parent() == s.fn {
				ru.Pass("Store in constructor "+FuncName(s.fn), pos, "initial tree stored into a Router that is not yet shared", "receiver is a Router allocated in this function")
				continue
			}
			ru.Fail("Store in "+FuncName(s.fn), pos, "the tree pointer is stored only by the constructor and by Txn.Commit", "extra publication point")
		default:
			ru.Fail(s.name+" in "+FuncName(s.fn), pos, "only Load and Store are used on the tree pointer", "unexpected atomic operation "+s.name)
		}
	}
	if nCommit != 1 {
		ru.Fail("Store in (*Txn).Commit", w.Pos(commit.Pos()), "Commit publishes exactly once", fmt.Sprintf("%d Store sites in Commit", nCommit))
	}
	for _, in := range p.plainAccesses(p.Tree) {
		ru.Fail("plain access in "+FuncName(in.Parent()), w.Pos(in.Pos()), "the published pointer is accessed only through atomic operations", "non-atomic load/store of Router."+p.Tree.Name())
	}
	ru.Check("type of Router."+p.Tree.Name(), w.Pos(p.Tree.Pos()), "the published pointer is a sync/atomic.Pointer", isNamed(p.Tree.Type(), "sync/atomic", "Pointer"), p.Tree.Type().String())
}

// ---- C04.2 ------------------------------------------------------------------------------------------------

// settleState is the abstract state of the settle analysis on a path: number of Unlock calls (capped at 2) and whether
// rootTxn was set to nil.
type settleState struct {
	unlocks int
	cleared bool
	past    bool // the path entered a block in which both guards are known to have passed (write && rootTxn != nil)
}

// settleExits runs the settle analysis on fn (whose parameter recvIdx is the transaction) and returns, per exit
// instruction, the set of abstract states reaching it. Calls of module functions that receive the same transaction are
// folded in through their own exit states (a refactoring may move "rootTxn = nil; mu.Unlock()" into a helper).
func (p *Proto) settleExits(fn *ssa.Function, recv ssa.Value, depth int) map[ssa.Instruction]map[settleState]bool {
	states := map[*ssa.BasicBlock]map[settleState]bool{fn.Blocks[0]: {settleState{}: true}}
	work := []*ssa.BasicBlock{fn.Blocks[0]}
	exits := map[ssa.Instruction]map[settleState]bool{}
	step := func(in ssa.Instruction, sts map[settleState]bool) map[settleState]bool {
		out := map[settleState]bool{}
		for st := range sts {
			switch x := in.(type) {
			case ssa.CallInstruction:
				args := callArgs(x)
				if len(args) > 0 {
					if _, f, ok := fieldOfAddr(args[0]); ok && f == p.Mu {
						if obj := calleeObj(x); obj != nil && obj.Name() == "Unlock" && st.unlocks < 2 {
							st.unlocks++
						}
						out[st] = true
						continue
					}
				}
				if callee := x.Common().StaticCallee(); callee != nil && p.w.InModule(callee) && callee.Blocks != nil && depth < 3 {
					idx := -1
					for i, a := range args {
						if a == recv {
							idx = i
						}
					}
					if idx >= 0 && idx < len(callee.Params) {
						sub := p.settleExits(callee, callee.Params[idx], depth+1)
						merged := false
						for _, ss := range sub {
							for e := range ss {
								n := st
								n.unlocks = min(2, st.unlocks+e.unlocks)
								if e.cleared {
									n.cleared = true
								}
								out[n] = true
								merged = true
							}
						}
						if merged {
							continue
						}
					}
				}
			case *ssa.Store:
				if base, f, ok := fieldOfAddr(x.Addr); ok && f == p.RootTxn && base == recv {
					st.cleared = isNilConst(x.Val)
				}
			}
			out[st] = true
		}
		return out
	}
	for len(work) > 0 {
		b := work[0]
		work = work[1:]
		cur := states[b]
		for _, in := range b.Instrs {
			switch in.(type) {
			case *ssa.Return, *ssa.Panic:
				if exits[in] == nil {
					exits[in] = map[settleState]bool{}
				}
				for st := range cur {
					exits[in][st] = true
				}
			}
			cur = step(in, cur)
		}
		for _, s := range b.Succs {
			if states[s] == nil {
				states[s] = map[settleState]bool{}
			}
			grew := false
			pastS := false
			if depth == 0 {
				wr, live := p.txnGuardFacts(fn, s)
				pastS = wr && live
			}
			for st := range cur {
				if pastS {
					st.past = true
				}
				if !states[s][st] {
					states[s][st] = true
					grew = true
				}
			}
			if grew {
				work = append(work, s)
			}
		}
	}
	return exits
}

func checkC04Settle(w *World, r *Report, p *Proto, commit, abort *ssa.Function) {
	ru := r.Rule("C04.2", "settle exactly once: in Commit and Abort every path past the two guards clears rootTxn and unlocks exactly once; every path stopped by a guard does neither; no other function unlocks (a helper called only from them counts as part of them)", 3)
	onlyFromSettlers := func(caller *ssa.Function, _ ssa.CallInstruction) bool { return caller == commit || caller == abort }
	for _, s := range p.sites(p.Mu) {
		if s.name == "Unlock" && s.fn != commit && s.fn != abort && !holdsAtEveryCall(w, s.fn, onlyFromSettlers, 0) {
			ru.Fail("Unlock in "+FuncName(s.fn), w.Pos(s.call.Pos()), "only Txn.Commit and Txn.Abort (or helpers private to them) release the writer lock", "extra release site")
		}
	}
	for _, fn := range []*ssa.Function{commit, abort} {
		exits := p.settleExits(fn, fn.Params[0], 0)
		var ins []ssa.Instruction
		for in := range exits {
			ins = append(ins, in)
		}
		sort.Slice(ins, func(i, j int) bool { return instrLess(ins[i], ins[j]) })
		nSettle, nGuard := 0, 0
		for _, last := range ins {
			var got []string
			ok := true
			for st := range exits[last] {
				got = append(got, fmt.Sprintf("{pastGuards:%v unlocks:%d cleared:%v}", st.past, st.unlocks, st.cleared))
				if !st.past {
					nGuard++
					if st.unlocks != 0 {
						ok = false
					}
				} else {
					nSettle++
					if st.unlocks != 1 || !st.cleared {
						ok = false
					}
				}
			}
			sort.Strings(got)
			ru.Check("exit of "+FuncName(fn), w.InstrPos(last), "a path past both guards: exactly one Unlock and rootTxn = nil; a path stopped by a guard (read-only or already settled): no Unlock", ok, strings.Join(got, " "))
		}
		// at least one settling path and one guarded path must exist
		if nSettle < 1 || nGuard < 1 {
			ru.Fail("exits of "+FuncName(fn), w.Pos(fn.Pos()), "a guarded early exit and a settling exit", fmt.Sprintf("%d guard exit(s), %d settling exit(s)", nGuard, nSettle))
		}
	}
}

// ---- C04.3 ------------------------------------------------------------------------------------------------

// txnOpeners: calls that open a transaction; returns the write argument.
func (p *Proto) txnOpenCall(site ssa.CallInstruction) (write ssa.Value, ok bool) {
	c := staticCallee(site)
	if c == nil {
		return nil, false
	}
	obj := calleeObjOf(c)
	if isMethodNamed(obj, modulePath, "Router", "txnWith") || isMethodNamed(obj, modulePath, "Router", "Txn") {
		return site.Common().Args[1], true
	}
	return nil, false
}

// abortsOnAllPaths: fn (a deferred function literal) calls (*Txn).Abort on txnVal on every path to every exit
// (returns and panics).
func (p *Proto) abortsOnAllPaths(fn *ssa.Function, isTxn func(ssa.Value) bool) (bool, string) {
	abortObj := func(site ssa.CallInstruction) bool {
		obj := calleeObj(site)
		return isMethodNamed(obj, modulePath, "Txn", "Abort") && isTxn(callArgs(site)[0])
	}
	// must-dataflow: called[b] = Abort called on every path reaching the end of b
	in := map[*ssa.BasicBlock]bool{}
	outm := map[*ssa.BasicBlock]bool{}
	for _, b := range fn.Blocks {
		outm[b] = true
	}
	changed := true
	for changed {
		changed = false
		for _, b := range fn.Blocks {
			v := b != fn.Blocks[0]
			if v {
				for _, pr := range b.Preds {
					v = v && outm[pr]
				}
				if len(b.Preds) == 0 {
					v = true // unreachable
				}
			}
			in[b] = v
			for _, ins := range b.Instrs {
				if site, ok := ins.(ssa.CallInstruction); ok && abortObj(site) {
					if _, isDefer := ins.(*ssa.Defer); !isDefer {
						v = true
					}
				}
			}
			if v != outm[b] {
				outm[b] = v
				changed = true
			}
		}
	}
	for _, b := range fn.Blocks {
		if len(b.Instrs) == 0 || (len(b.Preds) == 0 && b != fn.Blocks[0]) {
			continue
		}
		last := b.Instrs[len(b.Instrs)-1]
		switch last.(type) {
		case *ssa.Return:
			if !outm[b] {
				return false, "a return at " + p.w.Pos(last.Pos()) + " is reachable without calling Abort"
			}
		case *ssa.Panic:
			// Abort must have been called before re-raising
			v := in[b]
			for _, ins := range b.Instrs {
				if site, ok := ins.(ssa.CallInstruction); ok && abortObj(site) {
					v = true
				}
			}
			if !v {
				return false, "a re-panic at " + p.w.Pos(last.Pos()) + " is reachable without calling Abort"
			}
		}
	}
	return true, "Abort is called on every path to every exit of the deferred function"
}

func checkC04Managed(w *World, r *Report, p *Proto) { checkC04ManagedAs(w, r, p, "C04.3") }

// checkC04ManagedAs is rule C04.3; C15 repeats it as C15.3 ("the writer lock is released after a panic").
func checkC04ManagedAs(w *World, r *Report, p *Proto, id string) {
	ru := r.Rule(id, "every transaction opened for writing (or with a non-constant mode) by a function that does not hand it to its caller is aborted on every exit, panics included: a defer whose body calls Abort on all its paths is registered immediately after opening, with nothing in between that can panic", 3)
	ru.Idiom("defer txn.Abort()", "defer func(){ if p := recover(); p != nil { txn.Abort(); panic(p) }; txn.Abort() }()", "defer helper(txn) with a module function that aborts on all its paths")
	for _, fn := range w.FoxFuncs() {
		if isTestHelper(w, fn) {
			continue
		}
		for _, b := range fn.Blocks {
			for i, in := range b.Instrs {
				site, ok := in.(*ssa.Call)
				if !ok {
					continue
				}
				wv, ok := p.txnOpenCall(site)
				if !ok {
					continue
				}
				if v, isConst := constBool(wv); isConst && !v && fn.Name() != "View" {
					continue // read-only transaction: nothing to release
				}
				// does the function return the transaction?
				returned := false
				if refs := site.Referrers(); refs != nil {
					for _, ref := range *refs {
						if _, isRet := ref.(*ssa.Return); isRet {
							returned = true
						}
					}
				}
				if returned {
					ru.Pass("open in "+FuncName(fn), w.Pos(site.Pos()), "transaction handed to the caller (unmanaged): caller's obligation", "returned")
					continue
				}
				isTxn := func(v ssa.Value) bool { return v == ssa.Value(site) }
				// scan forward in the same block for the defer, allowing only non-call instructions in between
				found, why := false, "no defer of Abort follows the opening call"
				for _, nx := range b.Instrs[i+1:] {
					if d, isDefer := nx.(*ssa.Defer); isDefer {
						if obj := calleeObj(d); isMethodNamed(obj, modulePath, "Txn", "Abort") && isTxn(callArgs(d)[0]) {
							found, why = true, "defer txn.Abort() registered right after opening"
							break
						}
						if callee := d.Call.StaticCallee(); callee != nil && w.InModule(callee) && callee.Blocks != nil && len(d.Call.Args) == len(callee.Params) {
							// defer helper(txn): a named function deferred directly (recover() is effective there)
							params := map[ssa.Value]bool{}
							for k, a := range d.Call.Args {
								if a == ssa.Value(site) {
									params[callee.Params[k]] = true
								}
							}
							if len(params) > 0 {
								okk, how := p.abortsOnAllPaths(callee, func(v ssa.Value) bool { return params[v] })
								found, why = okk, how
								break
							}
						}
						if mc, isClosure := d.Call.Value.(*ssa.MakeClosure); isClosure {
							cf := mc.Fn.(*ssa.Function)
							// the closure's free variable bound to the txn
							bound := map[ssa.Value]bool{}
							for k, bv := range mc.Bindings {
								if bv == ssa.Value(site) {
									bound[cf.FreeVars[k]] = true
								}
								// txn spilled to a cell: binding is the Alloc holding it
								if a, isAlloc := bv.(*ssa.Alloc); isAlloc && allocHolds(a, site) {
									bound[cf.FreeVars[k]] = true
								}
							}
							isTxnIn := func(v ssa.Value) bool {
								if bound[v] {
									return true
								}
								if u, isLoad := v.(*ssa.UnOp); isLoad && u.Op == token.MUL && bound[u.X] {
									return true
								}
								return false
							}
							okk, how := p.abortsOnAllPaths(cf, isTxnIn)
							found, why = okk, how
							break
						}
						continue
					}
					if _, isCall := nx.(ssa.CallInstruction); isCall {
						why = "a call at " + w.Pos(nx.Pos()) + " precedes the registration of the deferred Abort (a panic there would leak the writer lock)"
						break
					}
					if _, isRet := nx.(*ssa.Return); isRet {
						break
					}
				}
				ru.Check("open in "+FuncName(fn), w.Pos(site.Pos()), "deferred Abort on every exit, registered immediately", found, why)
			}
		}
	}
}

// allocHolds: the local cell a is assigned exactly the value v (the spilled form of a captured variable).
func allocHolds(a *ssa.Alloc, v ssa.Value) bool {
	refs := a.Referrers()
	if refs == nil {
		return false
	}
	n := 0
	for _, ref := range *refs {
		if st, ok := ref.(*ssa.Store); ok && st.Addr == ssa.Value(a) {
			n++
			if st.Val != v {
				return false
			}
		}
	}
	return n == 1
}

// ---- C04.4 ------------------------------------------------------------------------------------------------

func checkC04CommitOnSuccess(w *World, r *Report, p *Proto) {
	checkC04CommitOnSuccessAs(w, r, p, "C04.4")
}

// checkC04CommitOnSuccessAs is rule C04.4 (repeated as C02.5).
func checkC04CommitOnSuccessAs(w *World, r *Report, p *Proto, id string) {
	ru := r.Rule(id, "commit only on success: in every Router function that opens a transaction and calls Commit, the Commit call is control-dependent on the nil-error outcome of the operation performed on that transaction", 3)
	for _, fn := range w.FoxFuncs() {
		opens := false
		eachInstr(fn, func(in ssa.Instruction) {
			if site, ok := in.(ssa.CallInstruction); ok {
				if _, ok := p.txnOpenCall(site); ok {
					opens = true
				}
			}
		})
		if !opens {
			continue
		}
		eachInstr(fn, func(in ssa.Instruction) {
			site, ok := in.(*ssa.Call)
			if !ok || !isMethodNamed(calleeObj(site), modulePath, "Txn", "Commit") {
				return
			}
			ok2, why := false, "no dominating test of the operation's error"
			for _, f := range factsAtBlock(site.Block()) {
				bo, isBin := f.Cond.(*ssa.BinOp)
				if !isBin {
					continue
				}
				x, y := bo.X, bo.Y
				if isNilConst(x) {
					x, y = y, x
				}
				if !isNilConst(y) || !isErrorType(x.Type()) {
					continue
				}
				errIsNil := (bo.Op == token.EQL && f.Val) || (bo.Op == token.NEQ && !f.Val)
				if !errIsNil {
					continue
				}
				// x must come from a call made before the Commit (the operation on the transaction)
				src := x
				if ex, isEx := src.(*ssa.Extract); isEx {
					src = ex.Tuple
				}
				if c, isCall := src.(*ssa.Call); isCall && instrDominates(c, site) {
					ok2, why = true, "dominated by "+f.String()+" where the error is the result of "+valStr(c)
				}
			}
			ru.Check("Commit in "+FuncName(fn), w.Pos(site.Pos()), "Commit reached only when the operation returned a nil error", ok2, why)
		})
	}
}

func isErrorType(t types.Type) bool {
	n := namedOf(t)
	return n != nil && n.Obj().Pkg() == nil && n.Obj().Name() == "error"
}

// ---- C04.5 ------------------------------------------------------------------------------------------------

func checkC04Guards(w *World, r *Report, p *Proto) {
	ru := r.Rule("C04.5", "guards: every method of Txn except Commit, Abort and Snapshot tests rootTxn == nil and panics with ErrSettledTxn before any use of rootTxn; every method that calls a mutator of the inner transaction returns ErrReadOnlyTxn unless txn.write, before the call", 6)
	mutators := map[string]bool{"insert": true, "update": true, "remove": true, "truncate": true}
	for _, fn := range w.MethodsOf("Txn") {
		name := fn.Name()
		r.Analysed(FuncName(fn))
		if name == "Commit" || name == "Abort" {
			continue
		}
		// locate the settled guard: If(load(txn.rootTxn) == nil) whose true branch panics with ErrSettledTxn
		var guard *ssa.If
		var liveBlock *ssa.BasicBlock
		for _, b := range fn.Blocks {
			if len(b.Instrs) == 0 {
				continue
			}
			iff, ok := b.Instrs[len(b.Instrs)-1].(*ssa.If)
			if !ok {
				continue
			}
			f := normFact(Fact{iff.Cond, true})
			bo, ok := f.Cond.(*ssa.BinOp)
			if !ok {
				continue
			}
			x, y := bo.X, bo.Y
			if isNilConst(x) {
				x, y = y, x
			}
			if !isNilConst(y) || !isLoadOfRecvField(fn, x, p.RootTxn) {
				continue
			}
			nilSucc, liveSucc := b.Succs[0], b.Succs[1]
			if (bo.Op == token.NEQ) == f.Val {
				nilSucc, liveSucc = liveSucc, nilSucc
			}
			if name == "Snapshot" {
				// Snapshot returns nil instead of panicking
				guard, liveBlock = iff, liveSucc
				break
			}
			if len(nilSucc.Instrs) > 0 {
				if pn, ok := nilSucc.Instrs[len(nilSucc.Instrs)-1].(*ssa.Panic); ok && isLoadOfGlobal(pn.X, "ErrSettledTxn") {
					guard, liveBlock = iff, liveSucc
					break
				}
			}
		}
		viaHelper := false
		if guard == nil {
			// a guard helper called first thing (if err := txn.check(true); err != nil { return }): every return of the helper
			// implies rootTxn != nil, so every use of rootTxn after the call is guarded
			var gc *ssa.Call
			eachInstr(fn, func(in ssa.Instruction) {
				c, ok := in.(*ssa.Call)
				if !ok || gc != nil || len(c.Call.Args) == 0 || c.Call.Args[0] != ssa.Value(fn.Params[0]) {
					return
				}
				if g := c.Call.StaticCallee(); g != nil && w.InModule(g) && len(g.Blocks) > 0 && g != fn {
					if lv, _ := p.guardSummary(g); lv {
						gc = c
					}
				}
			})
			if gc != nil {
				bad := ""
				eachInstr(fn, func(in ssa.Instruction) {
					if bad != "" || in == ssa.Instruction(gc) {
						return
					}
					for _, op := range in.Operands(nil) {
						if *op == nil || !isLoadOfRecvField(fn, *op, p.RootTxn) {
							continue
						}
						if _, isCmp := in.(*ssa.BinOp); isCmp {
							continue
						}
						if !instrDominates(gc, in) {
							bad = "rootTxn used at " + w.Pos(in.Pos()) + " before the guard helper ran"
						}
					}
				})
				ru.Check("settled guard of Txn."+name, w.Pos(gc.Pos()), "every use of rootTxn comes after the guard helper (which panics with ErrSettledTxn on a settled transaction)", bad == "", orDefault(bad, "guard helper "+gc.Call.StaticCallee().Name()+" dominates every use"))
				viaHelper = true
			}
		}
		if guard == nil && !viaHelper {
			// an unexported helper is covered when every call of it comes after its caller established rootTxn != nil
			callerGuarded := func(caller *ssa.Function, site ssa.CallInstruction) bool {
				_, live := p.txnGuardFacts(caller, site.Block())
				return live && len(callArgs(site)) > 0 && callArgs(site)[0] == ssa.Value(caller.Params[0])
			}
			if holdsAtEveryCall(w, fn, callerGuarded, 0) {
				ru.Pass("settled guard of Txn."+name, w.Pos(fn.Pos()), "unexported helper: every call site is dominated by its caller's rootTxn != nil test", "guarded by its callers")
				continue
			}
			ru.Fail("settled guard of Txn."+name, w.Pos(fn.Pos()), "rootTxn == nil is tested (panic ErrSettledTxn) before rootTxn is used", "no such guard found")
			continue
		}
		// every dereference of rootTxn must be dominated by the live branch
		if !viaHelper {
			bad := ""
			eachInstr(fn, func(in ssa.Instruction) {
				if bad != "" {
					return
				}
				for _, op := range in.Operands(nil) {
					if *op == nil || !isLoadOfRecvField(fn, *op, p.RootTxn) {
						continue
					}
					if _, isCmp := in.(*ssa.BinOp); isCmp {
						continue // comparing with nil is not a use
					}
					if !(liveBlock.Dominates(in.Block()) && len(liveBlock.Preds) == 1) {
						bad = "rootTxn used at " + w.Pos(in.Pos()) + " outside the guarded region"
					}
				}
			})
			ru.Check("settled guard of Txn."+name, w.Pos(guard.Pos()), "every use of rootTxn is dominated by the rootTxn != nil branch", bad == "", orDefault(bad, "guard dominates every use"))
		}

		// write guard
		eachInstr(fn, func(in ssa.Instruction) {
			site, ok := in.(ssa.CallInstruction)
			if !ok {
				return
			}
			obj := calleeObj(site)
			if obj == nil || recvNamed(obj) != p.InnerTxn || !mutators[obj.Name()] {
				return
			}
			wr, _ := p.txnGuardFacts(fn, in.Block())
			why := "call of " + obj.Name() + " dominated by txn.write == true"
			okk := wr
			if !wr {
				why = "mutator " + obj.Name() + " reachable on a read-only transaction"
			} else {
				// the other branch of that test must return ErrReadOnlyTxn
				okk, why = p.readOnlyBranchReturnsErr(fn)
			}
			ru.Check("write guard of Txn."+name+" before "+obj.Name(), w.Pos(in.Pos()), "mutators run only on write transactions; read-only use returns ErrReadOnlyTxn", okk, why)
		})
	}
}

func (p *Proto) readOnlyBranchReturnsErr(fn *ssa.Function) (bool, string) {
	for _, b := range fn.Blocks {
		if len(b.Instrs) == 0 {
			continue
		}
		iff, ok := b.Instrs[len(b.Instrs)-1].(*ssa.If)
		if !ok {
			continue
		}
		f := normFact(Fact{iff.Cond, true})
		if !isLoadOfRecvField(fn, f.Cond, p.Write) {
			continue
		}
		ro := b.Succs[1]
		if !f.Val {
			ro = b.Succs[0]
		}
		if len(ro.Instrs) == 0 {
			continue
		}
		ret, ok := ro.Instrs[len(ro.Instrs)-1].(*ssa.Return)
		if !ok {
			return false, "the read-only branch does not return"
		}
		for _, res := range ret.Results {
			if isLoadOfGlobal(res, "ErrReadOnlyTxn") {
				return true, "read-only branch returns ErrReadOnlyTxn"
			}
		}
		return false, "the read-only branch at " + p.w.Pos(ret.Pos()) + " does not return ErrReadOnlyTxn"
	}
	// the test may sit in a guard helper (if err := txn.check(true); err != nil { return ..., err }): the helper's read-only
	// branch returns ErrReadOnlyTxn and the caller hands the helper's error back
	var out *bool
	why := "no test of txn.write"
	eachInstr(fn, func(in ssa.Instruction) {
		c, ok := in.(*ssa.Call)
		if !ok || out != nil || len(c.Call.Args) == 0 || len(fn.Params) == 0 || c.Call.Args[0] != ssa.Value(fn.Params[0]) {
			return
		}
		g := c.Call.StaticCallee()
		if g == nil || g == fn || !p.w.InModule(g) || len(g.Blocks) == 0 {
			return
		}
		if _, wk := p.guardSummary(g); wk == -1 {
			return
		}
		okg, whyg := p.readOnlyBranchReturnsErr(g)
		if !okg {
			return
		}
		// the caller returns the helper's result on the err != nil branch
		handed := false
		eachInstr(fn, func(in2 ssa.Instruction) {
			if rt, ok := in2.(*ssa.Return); ok {
				for _, res := range rt.Results {
					if res == ssa.Value(c) {
						for _, f := range factsAtBlock(rt.Block()) {
							if bo, ok := f.Cond.(*ssa.BinOp); ok && (bo.X == ssa.Value(c) || bo.Y == ssa.Value(c)) && ((bo.Op == token.NEQ && f.Val) || (bo.Op == token.EQL && !f.Val)) {
								handed = true
							}
						}
					}
				}
			}
		})
		v := handed
		out = &v
		if handed {
			why = "guard helper " + g.Name() + ": " + whyg + "; its error is returned to the caller"
		} else {
			why = "the error of guard helper " + g.Name() + " is not returned"
		}
	})
	if out != nil {
		return *out, why
	}
	return false, why
}

// ---- C04.6 ------------------------------------------------------------------------------------------------

func checkC04Isolation(w *World, r *Report, p *Proto) {
	ru := r.Rule("C04.6", "isolation of uncommitted state: no function reachable from the inner transaction's methods loads or stores the published pointer, and tXn fields are stored only by tXn's own methods and constructors", 4)
	cg := w.CHA()
	var entries []*ssa.Function
	for _, fn := range w.MethodsOf(p.InnerTxn.Obj().Name()) {
		entries = append(entries, fn)
	}
	rc := newReach(w, cg)
	touch := map[*reachState][]ssa.Instruction{}
	roots := rc.Run(entries, nil, func(st *reachState, in ssa.Instruction) {
		if site, ok := in.(ssa.CallInstruction); ok {
			args := callArgs(site)
			if len(args) > 0 {
				if _, f, ok := fieldOfAddr(args[0]); ok && f == p.Tree {
					touch[st] = append(touch[st], in)
				}
			}
		}
	}, nil)
	for i, e := range entries {
		order, chain := rc.From(roots[i])
		bad := false
		for _, s := range order {
			for _, in := range touch[s] {
				bad = true
				ru.Fail("tXn."+e.Name(), w.Pos(in.Pos()), "uncommitted state never reads or writes the published pointer", "access to Router."+p.Tree.Name()+" in "+FuncName(s.fn), chain(s)...)
			}
		}
		if !bad {
			ru.Pass("tXn."+e.Name(), w.Pos(e.Pos()), "uncommitted state never reads or writes the published pointer", "no access reachable")
		}
	}
	// who may write tXn fields
	st := p.InnerTxn.Underlying().(*types.Struct)
	fields := map[*types.Var]bool{}
	for i := 0; i < st.NumFields(); i++ {
		fields[st.Field(i)] = true
	}
	for _, fn := range w.FoxFuncs() {
		eachInstr(fn, func(in ssa.Instruction) {
			s, ok := in.(*ssa.Store)
			if !ok {
				return
			}
			base, f, ok := fieldOfAddr(s.Addr)
			if !ok || !fields[f] {
				return
			}
			own := false
			if rv := fn.Signature.Recv(); rv != nil && namedOf(rv.Type()) == p.InnerTxn {
				own = true
			}
			if a, isAlloc := base.(*ssa.Alloc); isAlloc && a.Parent() == fn {
				own = true // construction of a new inner transaction
			}
			ru.Check("store tXn."+f.Name()+" in "+FuncName(fn), w.Pos(in.Pos()), "transaction-private fields are written only by the inner transaction itself or while it is constructed", own, map[bool]string{true: "own method or constructor", false: "foreign writer"}[own])
		})
	}
}

// checkC04TxnConstruction: a Txn value carries the right to write (write) and, through its settle methods, the right to
// publish and to release the writer lock. Only Router.txnWith hands that out. Everything else that builds a Txn (Snapshot)
// must build it field by field without the flag: copying an existing transaction value (`*txn`) clones those rights.
func checkC04TxnConstruction(w *World, r *Report) {
	ru := r.Rule("C04.9", "transactions are only constructed read-only outside txnWith: Txn.write is assigned a non-constant-false value only in Router.txnWith, and no function copies a whole Txn value (which would copy the write flag and with it the right to commit and to release the writer lock)", 1)
	txnT := w.FoxType("Txn")
	writeF := w.Field(txnT, "write")
	if writeF == nil {
		r.Unrecognised("C04.9: field Txn.write not found")
		return
	}
	n := 0
	for _, fn := range w.FoxFuncs() {
		if isTestHelper(w, fn) {
			continue
		}
		eachInstr(fn, func(in ssa.Instruction) {
			switch x := in.(type) {
			case *ssa.Store:
				if _, f, ok := fieldOfAddr(x.Addr); ok && f == writeF {
					n++
					isFalse := false
					if b, ok := constBool(x.Val); ok && !b {
						isFalse = true
					}
					inFactory := fn.Name() == "txnWith"
					ru.Check("store to Txn.write in "+FuncName(fn), w.InstrPos(x), "only the transaction factory sets the write flag", isFalse || inFactory, orDefault(map[bool]string{true: "factory or constant false"}[isFalse || inFactory], "write flag set from "+valStr(x.Val)))
				}
				// whole-struct copy: *dst = *src of type Txn
				if namedOf(x.Val.Type()) == txnT && !isPointer(x.Val.Type()) {
					if _, isConst := x.Val.(*ssa.Const); !isConst {
						n++
						ru.Fail("copy of a Txn value in "+FuncName(fn), w.InstrPos(x), "a transaction is never copied as a whole", "the copy inherits the write flag of "+valStr(x.Val)+": a snapshot made this way can write, commit and release the writer lock its parent still holds")
					}
				}
			}
		})
	}
	if n == 0 {
		r.Unrecognised("C04.9: no store to Txn.write found")
	}
}
