package main

import (
	"fmt"
	"go/ast"
	"go/token"
	"go/types"
	"sort"

	"golang.org/x/tools/go/ssa"
)

func init() { register("C13", checkC13) }

func checkC13(w *World, r *Report) {
	r.Explanation = "Structural conditions of 'middleware applied exactly per scope and in registration order', decided from the code that builds and invokes the chains: " +
		"no append extends a middleware slice shared with another object (the NewRoute/Router.mws race); each special handler is wrapped in New with the scope under which ServeHTTP later " +
		"runs it; ServeHTTP invokes routes through the all-middleware chain, Route.Handle the bare handler and Route.HandleMiddleware the route-only chain; NewRoute composes the chains from " +
		"the route's own list after all options were applied; both composition loops walk the list from last to first (so the first registered is outermost) and filter by scope, the " +
		"route-only chain additionally by the global flag; every entry appended to the router list is flagged global, every entry appended to a route list is route-scoped and not global; " +
		"DefaultOptions prepends Recovery (route scope) then Logger (all scopes)."
	r.NotDecided = []string{"the order and once-ness of execution for arbitrary configurations as observed", "behaviour of user middleware"}
	r.Assumptions = []string{"middleware functions return a handler that calls next exactly once (user code)"}
	checkAppendAliasing(w, r, "C13.1")
	d := analyseDispatch(w)
	checkScopePairing(w, r, d, "C13.2")
	checkC13Wiring(w, r, d)
	checkC13Loops(w, r)
	checkC13Entries(w, r)
	// an updated route must be the one whose chain runs: a node's route and the sub-node derived from it are only set
	// together, by the constructor (rule C07.1, repeated here)
	checkNodeConstruction(w, r, "C13.6")
}

func checkC13Wiring(w *World, r *Report, d *dispatchInfo) {
	ru := r.Rule("C13.3", "chain wiring: ServeHTTP runs routes through Route.hall, Route.Handle through hbase, Route.HandleMiddleware through hself; NewRoute stores (hself, hall) = applyRouteMiddleware(route's own list, handler) after the option loop and hbase = handler", 3)
	route := w.FoxType("Route")
	hall, hself, hbase, mws := w.Field(route, "hall"), w.Field(route, "hself"), w.Field(route, "hbase"), w.Field(route, "mws")
	ru.Check("route calls in ServeHTTP", w.Pos(d.fn.Pos()), "both route dispatch sites (direct match, ignored trailing slash) go through Route.hall", len(d.routeCalls) >= 2, fmt.Sprintf("%d call(s) through hall", len(d.routeCalls)))
	for name, fld := range map[string]*types.Var{"Handle": hbase, "HandleMiddleware": hself} {
		fn := w.Method("Route", name)
		ok, why := false, "no handler call found"
		eachInstr(fn, func(in ssa.Instruction) {
			c, isCall := in.(*ssa.Call)
			if !isCall || c.Call.StaticCallee() != nil || c.Call.IsInvoke() {
				return
			}
			if b, f, isLoad := loadedField(c.Call.Value); isLoad && b == ssa.Value(fn.Params[0]) {
				ok, why = f == fld, "calls r."+f.Name()
			}
		})
		ru.Check("Route."+name, w.Pos(fn.Pos()), "invokes r."+fld.Name(), ok, why)
	}
	newRoute := w.Method("Router", "NewRoute")
	apply := w.Func("applyRouteMiddleware")
	var call *ssa.Call
	eachInstr(newRoute, func(in ssa.Instruction) {
		if c, ok := in.(*ssa.Call); ok && c.Call.StaticCallee() == apply {
			call = c
		}
	})
	if call == nil {
		ru.Fail("NewRoute", w.Pos(newRoute.Pos()), "NewRoute composes the chains with applyRouteMiddleware", "no such call")
		return
	}
	// the route under construction
	var rte ssa.Value
	eachInstr(newRoute, func(in ssa.Instruction) {
		if a, ok := in.(*ssa.Alloc); ok && a.Heap && namedOf(a.Type()) == route {
			rte = a
		}
		// or built by a constructor helper of the module (rte := fox.routeDefaults())
		if c, ok := in.(*ssa.Call); ok && rte == nil && c.Call.StaticCallee() != nil && w.InModule(c.Call.StaticCallee()) {
			if pt, ok := c.Type().(*types.Pointer); ok && namedOf(pt.Elem()) == route {
				rte = c
			}
		}
	})
	if rte == nil {
		anchorFail("NewRoute allocates the route")
	}
	b0, f0, ok0 := loadedField(call.Call.Args[0])
	okList := ok0 && f0 == mws && seeThrough(b0) == rte
	ru.Check("NewRoute chain source", w.Pos(call.Pos()), "chains are built from the new route's own middleware list", okList, valStr(call.Call.Args[0]))
	handler := call.Call.Args[1]
	_, isParam := handler.(*ssa.Parameter)
	ru.Check("NewRoute chain base", w.Pos(call.Pos()), "chains wrap the handler passed to NewRoute", isParam, valStr(handler))
	// after the option loop: no applyRoute invoke reachable from the call, and the call is not in a loop
	afterLoop := !blockReach(call.Block(), false)[call.Block()]
	eachInstr(newRoute, func(in ssa.Instruction) {
		if site, ok := in.(ssa.CallInstruction); ok && site.Common().IsInvoke() && site.Common().Method.Name() == "applyRoute" {
			if instrReachableFrom(call, in) {
				afterLoop = false
			}
		}
	})
	ru.Check("NewRoute chain order", w.Pos(call.Pos()), "chains are computed once, after every route option has been applied", afterLoop, fmt.Sprint(afterLoop))
	// stores
	want := map[*types.Var]int{hself: 0, hall: 1}
	seen := map[*types.Var]bool{}
	eachInstr(newRoute, func(in ssa.Instruction) {
		st, ok := in.(*ssa.Store)
		if !ok {
			return
		}
		base, f, ok := fieldOfAddr(st.Addr)
		if !ok || seeThrough(base) != rte {
			return
		}
		if idx, isChain := want[f]; isChain {
			seen[f] = true
			ex, isEx := st.Val.(*ssa.Extract)
			ru.Check("NewRoute stores "+f.Name(), w.Pos(st.Pos()), fmt.Sprintf("%s = result #%d of applyRouteMiddleware", f.Name(), idx), isEx && ex.Tuple == ssa.Value(call) && ex.Index == idx, valStr(st.Val))
		}
		if f == hbase {
			seen[f] = true
			ru.Check("NewRoute stores hbase", w.Pos(st.Pos()), "hbase = the handler passed in", st.Val == handler, valStr(st.Val))
		}
	})
	for _, f := range []*types.Var{hself, hall, hbase} {
		if !seen[f] {
			ru.Fail("NewRoute stores "+f.Name(), w.Pos(newRoute.Pos()), "field initialised by NewRoute", "no store found")
		}
	}
}

// checkC13Loops works on the syntax (go/cfg facts), so that the loop may be written with an index running down or as a
// range over slices.Backward, and the entry may be mws[i] or the range variable.
func checkC13Loops(w *World, r *Report) {
	ru := r.Rule("C13.4", "composition loops: applyMiddleware and applyRouteMiddleware walk the list from the last entry to the first, wrap the accumulator only when the entry's scope includes the wanted scope, and the route-only accumulator only for non-global entries; applyRouteMiddleware returns (route-only, all)", 3)
	for _, name := range []string{"applyMiddleware", "applyRouteMiddleware"} {
		af := w.astFuncOf(modulePath, name)
		r.Analysed(name)
		// the list parameter: the []middleware one; the wanted scope: the scope parameter or the constant RouteHandler
		list, wanted := "", "RouteHandler"
		for _, f := range af.decl.Type.Params.List {
			t := exprStr(f.Type)
			for _, nm := range f.Names {
				if t == "[]middleware" {
					list = nm.Name
				}
				if t == "HandlerScope" {
					wanted = nm.Name
				}
			}
		}
		// the loop and the expression that denotes the current entry
		entry, dirWhy := "", "no loop over the middleware list found"
		okDir := false
		ast.Inspect(af.decl.Body, func(n ast.Node) bool {
			switch x := n.(type) {
			case *ast.ForStmt:
				init, ok1 := x.Init.(*ast.AssignStmt)
				post, ok2 := x.Post.(*ast.IncDecStmt)
				if !ok1 || !ok2 || len(init.Lhs) != 1 {
					return true
				}
				iv := exprStr(init.Lhs[0])
				entry = list + "[" + iv + "]"
				startsLast := exprStr(init.Rhs[0]) == "len("+list+")-1"
				down := post.Tok == token.DEC && exprStr(post.X) == iv
				c := exprStr(x.Cond)
				toZero := c == iv+">=0" || c == iv+">-1" || c == "0<="+iv
				okDir = startsLast && down && toZero
				dirWhy = fmt.Sprintf("init=len-1:%v step=-1:%v cond=i>=0:%v", startsLast, down, toZero)
			case *ast.RangeStmt:
				if call, ok := x.X.(*ast.CallExpr); ok && len(call.Args) == 1 && exprStr(call.Args[0]) == list {
					if exprStr(call.Fun) == "slices.Backward" && x.Value != nil {
						entry, okDir, dirWhy = exprStr(x.Value), true, "range slices.Backward("+list+")"
					} else {
						entry, okDir, dirWhy = exprStr(x.Value), false, "range over "+exprStr(call.Fun)+"("+list+")"
					}
				} else if exprStr(x.X) == list {
					okDir, dirWhy = false, "forward range over "+list
					if x.Value != nil {
						entry = exprStr(x.Value)
					} else if x.Key != nil {
						entry = list + "[" + exprStr(x.Key) + "]"
					}
				}
			}
			return true
		})
		ru.Check(name+" direction", w.Pos(af.decl.Pos()), "the list is walked from the last entry to the first (first registered ends up outermost)", okDir, dirWhy)
		if entry == "" {
			ru.Fail(name+" wraps", w.Pos(af.decl.Pos()), "the loop wraps the accumulator with the entry's middleware function", "no loop found")
			continue
		}
		// wraps: A = entry.m(A)
		routeOnly := map[string]bool{}
		nwrap := 0
		for _, b := range af.g.Blocks {
			if !b.Live {
				continue
			}
			for _, nd := range b.Nodes {
				as, ok := nd.(*ast.AssignStmt)
				if !ok || len(as.Lhs) != 1 || len(as.Rhs) != 1 {
					continue
				}
				call, ok := as.Rhs[0].(*ast.CallExpr)
				if !ok || exprStr(call.Fun) != entry+".m" || len(call.Args) != 1 || exprStr(call.Args[0]) != exprStr(as.Lhs[0]) {
					continue
				}
				nwrap++
				acc := exprStr(as.Lhs[0])
				scopeOK, gSeen, gFalse := false, false, false
				for _, f := range af.factsAt(b) {
					e := exprStr(f.e)
					for _, form := range []string{entry + ".scope&" + wanted, wanted + "&" + entry + ".scope"} {
						if (e == form+"!=0" && f.val) || (e == form+"==0" && !f.val) {
							scopeOK = true
						}
					}
					if e == entry+".g" {
						gSeen, gFalse = true, !f.val
					}
					if e == "!"+entry+".g" {
						gSeen, gFalse = true, f.val
					}
				}
				if gSeen && gFalse {
					routeOnly[acc] = true
					ru.Check(name+" wraps "+acc, w.Pos(as.Pos()), "route-only chain wraps entries in route scope that are not global", scopeOK, fmt.Sprintf("scopeFilter=%v nonGlobalOnly=true", scopeOK))
				} else {
					ru.Check(name+" wraps "+acc, w.Pos(as.Pos()), "wraps every entry whose scope includes the wanted scope, global or not", scopeOK && !gSeen, fmt.Sprintf("scopeFilter=%v guardedByGlobalFlag=%v", scopeOK, gSeen))
				}
			}
		}
		if nwrap == 0 {
			ru.Fail(name+" wraps", w.Pos(af.decl.Pos()), "the loop wraps the accumulator with the entry's middleware function", "no wrap "+entry+".m(acc) found")
		}
		if name == "applyRouteMiddleware" {
			ast.Inspect(af.decl.Body, func(n ast.Node) bool {
				ret, ok := n.(*ast.ReturnStmt)
				if !ok || len(ret.Results) != 2 {
					return true
				}
				n0, n1 := exprStr(ret.Results[0]), exprStr(ret.Results[1])
				ru.Check(name+" result order", w.Pos(ret.Pos()), "returns (route-only chain, all chain)", routeOnly[n0] && !routeOnly[n1] && len(routeOnly) == 1, n0+", "+n1+fmt.Sprintf(" (route-only accumulators: %v)", routeOnly))
				return true
			})
		}
	}
}

// mwEntry is one middleware{...} literal and where it ends up.
type mwEntry struct {
	fn     *ssa.Function
	pos    token.Pos
	m      ssa.Value
	scope  ssa.Value
	g      ssa.Value
	index  int64      // position inside the slice literal / varargs array
	dest   *types.Var // field the containing slice is finally stored into (Router.mws / Route.mws)
	first  bool       // the containing slice is the first argument of append (prepended) rather than the appended tail
	gKnown bool
	destParam *ssa.Parameter // the list is extended through a pointer parameter (a helper); resolved at the helper's calls
}

func collectMwEntries(w *World) []mwEntry {
	mwT := w.FoxType("middleware")
	var out []mwEntry
	for _, fn := range w.FoxFuncs() {
		if isTestHelper(w, fn) {
			continue
		}
		eachInstr(fn, func(in ssa.Instruction) {
			a, ok := in.(*ssa.Alloc)
			if !ok || namedOf(a.Type()) != mwT || isPointer(derefType(a.Type())) {
				return
			}
			e := mwEntry{fn: fn, pos: a.Pos(), index: -1}
			refs := a.Referrers()
			if refs == nil {
				return
			}
			// a cell that receives a whole middleware value (a spilled parameter or range variable) is a copy, not a literal
			for _, ref := range *refs {
				if st, ok := ref.(*ssa.Store); ok && st.Addr == ssa.Value(a) {
					return
				}
			}
			for _, ref := range *refs {
				switch x := ref.(type) {
				case *ssa.FieldAddr:
					_, f, _ := fieldOfAddr(x)
					if fr := x.Referrers(); fr != nil {
						for _, y := range *fr {
							if st, ok := y.(*ssa.Store); ok && st.Addr == ssa.Value(x) {
								switch f.Name() {
								case "m":
									e.m = st.Val
								case "scope":
									e.scope = st.Val
								case "g":
									e.g = st.Val
								}
							}
						}
					}
				case *ssa.UnOp:
					// *lit stored into an array element
					if ur := x.Referrers(); ur != nil {
						for _, y := range *ur {
							st, ok := y.(*ssa.Store)
							if !ok {
								continue
							}
							ia, ok := st.Addr.(*ssa.IndexAddr)
							if !ok {
								continue
							}
							if k, ok := constInt(ia.Index); ok {
								e.index = k
							}
							e.dest, e.first, e.destParam = traceSliceDest(ia.X)
						}
					}
				}
			}
			if e.destParam != nil {
				// one entry per call of the helper, with the call's arguments substituted for the helper's parameters
				helper := e.destParam.Parent()
				subst := func(v ssa.Value, c *ssa.Call) ssa.Value {
					if p, ok := v.(*ssa.Parameter); ok && p.Parent() == helper {
						if i := paramIndex(helper, p); i >= 0 && i < len(c.Call.Args) {
							return c.Call.Args[i]
						}
					}
					return v
				}
				ncalls := 0
				for _, caller := range w.FoxFuncs() {
					eachInstr(caller, func(in2 ssa.Instruction) {
						c, ok := in2.(*ssa.Call)
						if !ok || c.Call.StaticCallee() != helper {
							return
						}
						ncalls++
						e2 := e
						e2.fn, e2.pos = caller, c.Pos()
						if _, f, ok := fieldOfAddr(subst(e.destParam, c)); ok {
							e2.dest = f
						}
						if e.m != nil {
							e2.m = subst(e.m, c)
						}
						if e.scope != nil {
							e2.scope = subst(e.scope, c)
						}
						if e.g != nil {
							e2.g = subst(e.g, c)
						}
						out = append(out, e2)
					})
				}
				if ncalls > 0 {
					return
				}
			}
			out = append(out, e)
		})
	}
	sort.Slice(out, func(i, j int) bool { return out[i].pos < out[j].pos })
	return out
}

// traceSliceDest follows an array (slice literal / varargs) to the append that consumes it and the field that receives
// the result.
func traceSliceDest(arr ssa.Value) (*types.Var, bool, *ssa.Parameter) {
	refs := arr.Referrers()
	if refs == nil {
		return nil, false, nil
	}
	for _, ref := range *refs {
		sl, ok := ref.(*ssa.Slice)
		if !ok {
			continue
		}
		if sr := sl.Referrers(); sr != nil {
			for _, y := range *sr {
				c, ok := y.(*ssa.Call)
				if !ok {
					continue
				}
				if b, ok := c.Call.Value.(*ssa.Builtin); !ok || b.Name() != "append" {
					continue
				}
				first := c.Call.Args[0] == ssa.Value(sl)
				if cr := c.Referrers(); cr != nil {
					for _, z := range *cr {
						if st, ok := z.(*ssa.Store); ok && st.Val == ssa.Value(c) {
							if _, f, ok := fieldOfAddr(st.Addr); ok {
								return f, first, nil
							}
							if p, ok := seeThrough(st.Addr).(*ssa.Parameter); ok {
								return nil, first, p
							}
						}
					}
				}
			}
		}
	}
	return nil, false, nil
}

func checkC13Entries(w *World, r *Report) {
	ru := r.Rule("C13.5", "list entries: every entry appended to Router.mws is flagged global; every entry appended to Route.mws is route-scoped and not global; WithMiddleware registers global entries for all scopes; DefaultOptions prepends {Recovery, RouteHandler} then {Logger, AllHandlers}", 3)
	router, route := w.FoxType("Router"), w.FoxType("Route")
	rmws, tmws := w.Field(router, "mws"), w.Field(route, "mws")
	constOf := func(name string) int64 {
		c, ok := w.Fox.Types.Scope().Lookup(name).(*types.Const)
		if !ok {
			anchorFail("constant %s", name)
		}
		v, _ := constantInt64(c)
		return v
	}
	rhv, allv := constOf("RouteHandler"), constOf("AllHandlers")
	entries := collectMwEntries(w)
	def := w.Func("DefaultOptions")
	calleeName := func(v ssa.Value) string {
		if c, ok := v.(*ssa.Call); ok {
			if f := c.Call.StaticCallee(); f != nil {
				return f.Name()
			}
		}
		return valStr(v)
	}
	nDefault := 0
	// a field left out of a keyed literal holds its zero value
	gOf := func(e mwEntry) (bool, bool) {
		if e.g == nil {
			return false, true
		}
		return constBool(e.g)
	}
	for _, e := range entries {
		where := FuncName(e.fn)
		switch e.dest {
		case rmws:
			g, ok := gOf(e)
			ru.Check("entry for Router.mws in "+where, w.Pos(e.pos), "entries of the router list are flagged global (g = true)", ok && g, "g = "+valStr(e.g))
			if e.fn.Parent() == def {
				nDefault++
				wantM, wantScope := "Recovery", rhv
				if e.index == 1 {
					wantM, wantScope = "Logger", allv
				}
				sc, okS := constInt(e.scope)
				ru.Check(fmt.Sprintf("DefaultOptions entry %d", e.index), w.Pos(e.pos), fmt.Sprintf("position %d is %s with scope %s, prepended to the existing list", e.index, wantM, scopeName(w, wantScope)),
					calleeName(e.m) == wantM && okS && sc == wantScope && e.first, fmt.Sprintf("m=%s scope=%s prepended=%v", calleeName(e.m), valStr(e.scope), e.first))
			} else if e.fn.Parent() != nil && e.fn.Parent().Name() == "WithMiddleware" {
				sc, okS := constInt(e.scope)
				ru.Check("WithMiddleware global entry scope", w.Pos(e.pos), "global middleware applies to all handler kinds", okS && sc == allv, valStr(e.scope))
			}
		case tmws:
			g, ok := gOf(e)
			sc, okS := constInt(e.scope)
			ru.Check("entry for Route.mws in "+where, w.Pos(e.pos), "route entries are route-scoped and not global (scope = RouteHandler, g = false)", ok && !g && e.scope != nil && okS && sc == rhv, fmt.Sprintf("scope=%s g=%s", valStr(e.scope), valStr(e.g)))
		default:
			ru.Fail("middleware entry in "+where, w.Pos(e.pos), "every middleware literal ends up in Router.mws or Route.mws through an append", "destination not recognised")
		}
	}
	if nDefault != 2 {
		ru.Fail("DefaultOptions entries", w.Pos(def.Pos()), "DefaultOptions registers exactly Recovery and Logger", fmt.Sprintf("%d entries found", nDefault))
	}
}
