package main

import (
	"fmt"
	"go/token"
	"go/types"
	"sort"

	"golang.org/x/tools/go/ssa"
)

func init() { register("C13", checkC13) }

func checkC13(w *World, r *Report) {
	r.Explanation = "Structural conditions of 'middleware applied exactly per scope and in registration order', decided from the code that builds and invokes the chains: " +
		"no append extends a middleware slice shared with another object (the NewRoute/Router.mws race); each special handler is wrapped in New with the scope under which ServeHTTP later " +
		"runs it; ServeHTTP invokes routes through the all-middleware chain, Route.Handle the bare handler and Route.HandleMiddleware the route-only chain; NewRoute composes the chains from " +
		"the route's own list after all options were applied; both composition loops walk the list from last to first (so the first registered is outermost) and filter by scope, the " +
		"route-only chain additionally by the global flag; every entry appended to the router list is flagged global, every entry appended to a route list is route-scoped and not global; " +
		"DefaultOptions prepends Recovery (route scope) then Logger (all scopes)."
	r.NotDecided = []string{"the order and once-ness of execution for arbitrary configurations as observed", "behaviour of user middleware"}
	r.Assumptions = []string{"middleware functions return a handler that calls next exactly once (user code)"}
	checkAppendAliasing(w, r, "C13.1")
	d := analyseDispatch(w)
	checkScopePairing(w, r, d, "C13.2")
	checkC13Wiring(w, r, d)
	checkC13Loops(w, r)
	checkC13Entries(w, r)
}

func checkC13Wiring(w *World, r *Report, d *dispatchInfo) {
	ru := r.Rule("C13.3", "chain wiring: ServeHTTP runs routes through Route.hall, Route.Handle through hbase, Route.HandleMiddleware through hself; NewRoute stores (hself, hall) = applyRouteMiddleware(route's own list, handler) after the option loop and hbase = handler", 3)
	route := w.FoxType("Route")
	hall, hself, hbase, mws := w.Field(route, "hall"), w.Field(route, "hself"), w.Field(route, "hbase"), w.Field(route, "mws")
	ru.Check("route calls in ServeHTTP", w.Pos(d.fn.Pos()), "both route dispatch sites (direct match, ignored trailing slash) go through Route.hall", len(d.routeCalls) >= 2, fmt.Sprintf("%d call(s) through hall", len(d.routeCalls)))
	for name, fld := range map[string]*types.Var{"Handle": hbase, "HandleMiddleware": hself} {
		fn := w.Method("Route", name)
		ok, why := false, "no handler call found"
		eachInstr(fn, func(in ssa.Instruction) {
			c, isCall := in.(*ssa.Call)
			if !isCall || c.Call.StaticCallee() != nil || c.Call.IsInvoke() {
				return
			}
			if b, f, isLoad := loadedField(c.Call.Value); isLoad && b == ssa.Value(fn.Params[0]) {
				ok, why = f == fld, "calls r."+f.Name()
			}
		})
		ru.Check("Route."+name, w.Pos(fn.Pos()), "invokes r."+fld.Name(), ok, why)
	}
	newRoute := w.Method("Router", "NewRoute")
	apply := w.Func("applyRouteMiddleware")
	var call *ssa.Call
	eachInstr(newRoute, func(in ssa.Instruction) {
		if c, ok := in.(*ssa.Call); ok && c.Call.StaticCallee() == apply {
			call = c
		}
	})
	if call == nil {
		ru.Fail("NewRoute", w.Pos(newRoute.Pos()), "NewRoute composes the chains with applyRouteMiddleware", "no such call")
		return
	}
	// the route under construction
	var rte *ssa.Alloc
	eachInstr(newRoute, func(in ssa.Instruction) {
		if a, ok := in.(*ssa.Alloc); ok && a.Heap && namedOf(a.Type()) == route {
			rte = a
		}
	})
	if rte == nil {
		anchorFail("NewRoute allocates the route")
	}
	b0, f0, ok0 := loadedField(call.Call.Args[0])
	okList := ok0 && f0 == mws && seeThrough(b0) == ssa.Value(rte)
	ru.Check("NewRoute chain source", w.Pos(call.Pos()), "chains are built from the new route's own middleware list", okList, valStr(call.Call.Args[0]))
	handler := call.Call.Args[1]
	_, isParam := handler.(*ssa.Parameter)
	ru.Check("NewRoute chain base", w.Pos(call.Pos()), "chains wrap the handler passed to NewRoute", isParam, valStr(handler))
	// after the option loop: no applyRoute invoke reachable from the call, and the call is not in a loop
	afterLoop := !blockReach(call.Block(), false)[call.Block()]
	eachInstr(newRoute, func(in ssa.Instruction) {
		if site, ok := in.(ssa.CallInstruction); ok && site.Common().IsInvoke() && site.Common().Method.Name() == "applyRoute" {
			if instrReachableFrom(call, in) {
				afterLoop = false
			}
		}
	})
	ru.Check("NewRoute chain order", w.Pos(call.Pos()), "chains are computed once, after every route option has been applied", afterLoop, fmt.Sprint(afterLoop))
	// stores
	want := map[*types.Var]int{hself: 0, hall: 1}
	seen := map[*types.Var]bool{}
	eachInstr(newRoute, func(in ssa.Instruction) {
		st, ok := in.(*ssa.Store)
		if !ok {
			return
		}
		base, f, ok := fieldOfAddr(st.Addr)
		if !ok || seeThrough(base) != ssa.Value(rte) {
			return
		}
		if idx, isChain := want[f]; isChain {
			seen[f] = true
			ex, isEx := st.Val.(*ssa.Extract)
			ru.Check("NewRoute stores "+f.Name(), w.Pos(st.Pos()), fmt.Sprintf("%s = result #%d of applyRouteMiddleware", f.Name(), idx), isEx && ex.Tuple == ssa.Value(call) && ex.Index == idx, valStr(st.Val))
		}
		if f == hbase {
			seen[f] = true
			ru.Check("NewRoute stores hbase", w.Pos(st.Pos()), "hbase = the handler passed in", st.Val == handler, valStr(st.Val))
		}
	})
	for _, f := range []*types.Var{hself, hall, hbase} {
		if !seen[f] {
			ru.Fail("NewRoute stores "+f.Name(), w.Pos(newRoute.Pos()), "field initialised by NewRoute", "no store found")
		}
	}
}

// loopShape describes a composition loop `for i := len(mws)-1; i >= 0; i-- { if cond { acc = mws[i].m(acc) } }`.
func checkC13Loops(w *World, r *Report) {
	ru := r.Rule("C13.4", "composition loops: applyMiddleware and applyRouteMiddleware walk the list from the last entry to the first, wrap the accumulator only when the entry's scope includes the wanted scope, and the route-only accumulator only for non-global entries; applyRouteMiddleware returns (route-only, all)", 3)
	mwT := w.FoxType("middleware")
	scopeF, gF, mF := w.Field(mwT, "scope"), w.Field(mwT, "g"), w.Field(mwT, "m")
	rh, _ := w.Fox.Types.Scope().Lookup("RouteHandler").(*types.Const)
	rhv, _ := constantInt64(rh)
	for _, name := range []string{"applyMiddleware", "applyRouteMiddleware"} {
		fn := w.Func(name)
		r.Analysed(FuncName(fn))
		// index phi
		var idx *ssa.Phi
		eachInstr(fn, func(in ssa.Instruction) {
			if p, ok := in.(*ssa.Phi); ok && p.Comment == "i" {
				idx = p
			}
		})
		okDir, why := false, "no index variable found"
		if idx != nil {
			initOK, stepOK := false, false
			for _, e := range idx.Edges {
				if bo, ok := e.(*ssa.BinOp); ok && bo.Op == token.SUB {
					if one, ok := constInt(bo.Y); ok && one == 1 {
						if bo.X == ssa.Value(idx) {
							stepOK = true
						} else if c, ok := bo.X.(*ssa.Call); ok {
							if b, ok := c.Call.Value.(*ssa.Builtin); ok && b.Name() == "len" {
								initOK = true
							}
						}
					}
				}
			}
			condOK := false
			if refs := idx.Referrers(); refs != nil {
				for _, ref := range *refs {
					if bo, ok := ref.(*ssa.BinOp); ok && bo.X == ssa.Value(idx) {
						if z, ok := constInt(bo.Y); ok && ((bo.Op == token.GEQ && z == 0) || (bo.Op == token.GTR && z == -1)) {
							condOK = true
						}
					}
				}
			}
			okDir = initOK && stepOK && condOK
			why = fmt.Sprintf("init=len-1:%v step=-1:%v cond=i>=0:%v", initOK, stepOK, condOK)
		}
		ru.Check(name+" direction", w.Pos(fn.Pos()), "index runs from len(mws)-1 down to 0 (first registered ends up outermost)", okDir, why)
		// wrap calls
		nwrap := 0
		eachInstr(fn, func(in ssa.Instruction) {
			c, ok := in.(*ssa.Call)
			if !ok || c.Call.StaticCallee() != nil || c.Call.IsInvoke() {
				return
			}
			if _, f, ok := loadedField(c.Call.Value); !ok || f != mF {
				return
			}
			nwrap++
			acc, isPhi := c.Call.Args[0].(*ssa.Phi)
			accName := "?"
			if isPhi {
				accName = acc.Comment
			}
			scopeOK, gFalse, gSeen := false, false, false
			for _, ft := range factsAtBlock(c.Block()) {
				if bo, ok := ft.Cond.(*ssa.BinOp); ok && ((bo.Op == token.NEQ && ft.Val) || (bo.Op == token.EQL && !ft.Val)) {
					if and, ok := bo.X.(*ssa.BinOp); ok && and.Op == token.AND {
						if z, ok := constInt(bo.Y); ok && z == 0 {
							_, lf, isLoad := loadedField(and.X)
							other := and.Y
							if !isLoad {
								_, lf, isLoad = loadedField(and.Y)
								other = and.X
							}
							if isLoad && lf == scopeF {
								if name == "applyMiddleware" {
									_, isP := other.(*ssa.Parameter)
									scopeOK = isP
								} else if k, ok := constInt(other); ok && k == rhv {
									scopeOK = true
								}
							}
						}
					}
				}
				if _, lf, ok := loadedField(ft.Cond); ok && lf == gF {
					gSeen = true
					gFalse = !ft.Val
				}
			}
			switch {
			case name == "applyRouteMiddleware" && accName == "rte":
				ru.Check(name+" wraps "+accName, w.Pos(c.Pos()), "route-only chain wraps entries in route scope that are not global", scopeOK && gSeen && gFalse, fmt.Sprintf("scopeFilter=%v nonGlobalOnly=%v", scopeOK, gSeen && gFalse))
			default:
				ru.Check(name+" wraps "+accName, w.Pos(c.Pos()), "wraps every entry whose scope includes the wanted scope, global or not", scopeOK && !gSeen, fmt.Sprintf("scopeFilter=%v guardedByGlobalFlag=%v", scopeOK, gSeen))
			}
		})
		if nwrap == 0 {
			ru.Fail(name+" wraps", w.Pos(fn.Pos()), "the loop wraps the accumulator with mws[i].m", "no wrap call found")
		}
		if name == "applyRouteMiddleware" {
			eachInstr(fn, func(in ssa.Instruction) {
				ret, ok := in.(*ssa.Return)
				if !ok {
					return
				}
				n0, n1 := "?", "?"
				if p, ok := ret.Results[0].(*ssa.Phi); ok {
					n0 = p.Comment
				}
				if p, ok := ret.Results[1].(*ssa.Phi); ok {
					n1 = p.Comment
				}
				ru.Check(name+" result order", w.InstrPos(ret), "returns (route-only chain, all chain)", n0 == "rte" && n1 == "all", n0+", "+n1)
			})
		}
	}
}

// mwEntry is one middleware{...} literal and where it ends up.
type mwEntry struct {
	fn     *ssa.Function
	pos    token.Pos
	m      ssa.Value
	scope  ssa.Value
	g      ssa.Value
	index  int64      // position inside the slice literal / varargs array
	dest   *types.Var // field the containing slice is finally stored into (Router.mws / Route.mws)
	first  bool       // the containing slice is the first argument of append (prepended) rather than the appended tail
	gKnown bool
	destParam *ssa.Parameter // the list is extended through a pointer parameter (a helper); resolved at the helper's calls
}

func collectMwEntries(w *World) []mwEntry {
	mwT := w.FoxType("middleware")
	var out []mwEntry
	for _, fn := range w.FoxFuncs() {
		if isTestHelper(w, fn) {
			continue
		}
		eachInstr(fn, func(in ssa.Instruction) {
			a, ok := in.(*ssa.Alloc)
			if !ok || namedOf(a.Type()) != mwT || isPointer(derefType(a.Type())) {
				return
			}
			e := mwEntry{fn: fn, pos: a.Pos(), index: -1}
			refs := a.Referrers()
			if refs == nil {
				return
			}
			for _, ref := range *refs {
				switch x := ref.(type) {
				case *ssa.FieldAddr:
					_, f, _ := fieldOfAddr(x)
					if fr := x.Referrers(); fr != nil {
						for _, y := range *fr {
							if st, ok := y.(*ssa.Store); ok && st.Addr == ssa.Value(x) {
								switch f.Name() {
								case "m":
									e.m = st.Val
								case "scope":
									e.scope = st.Val
								case "g":
									e.g = st.Val
								}
							}
						}
					}
				case *ssa.UnOp:
					// *lit stored into an array element
					if ur := x.Referrers(); ur != nil {
						for _, y := range *ur {
							st, ok := y.(*ssa.Store)
							if !ok {
								continue
							}
							ia, ok := st.Addr.(*ssa.IndexAddr)
							if !ok {
								continue
							}
							if k, ok := constInt(ia.Index); ok {
								e.index = k
							}
							e.dest, e.first, e.destParam = traceSliceDest(ia.X)
						}
					}
				}
			}
			if e.destParam != nil {
				// one entry per call of the helper, with the call's arguments substituted for the helper's parameters
				helper := e.destParam.Parent()
				subst := func(v ssa.Value, c *ssa.Call) ssa.Value {
					if p, ok := v.(*ssa.Parameter); ok && p.Parent() == helper {
						if i := paramIndex(helper, p); i >= 0 && i < len(c.Call.Args) {
							return c.Call.Args[i]
						}
					}
					return v
				}
				ncalls := 0
				for _, caller := range w.FoxFuncs() {
					eachInstr(caller, func(in2 ssa.Instruction) {
						c, ok := in2.(*ssa.Call)
						if !ok || c.Call.StaticCallee() != helper {
							return
						}
						ncalls++
						e2 := e
						e2.fn, e2.pos = caller, c.Pos()
						if _, f, ok := fieldOfAddr(subst(e.destParam, c)); ok {
							e2.dest = f
						}
						if e.m != nil {
							e2.m = subst(e.m, c)
						}
						if e.scope != nil {
							e2.scope = subst(e.scope, c)
						}
						if e.g != nil {
							e2.g = subst(e.g, c)
						}
						out = append(out, e2)
					})
				}
				if ncalls > 0 {
					return
				}
			}
			out = append(out, e)
		})
	}
	sort.Slice(out, func(i, j int) bool { return out[i].pos < out[j].pos })
	return out
}

// traceSliceDest follows an array (slice literal / varargs) to the append that consumes it and the field that receives
// the result.
func traceSliceDest(arr ssa.Value) (*types.Var, bool, *ssa.Parameter) {
	refs := arr.Referrers()
	if refs == nil {
		return nil, false, nil
	}
	for _, ref := range *refs {
		sl, ok := ref.(*ssa.Slice)
		if !ok {
			continue
		}
		if sr := sl.Referrers(); sr != nil {
			for _, y := range *sr {
				c, ok := y.(*ssa.Call)
				if !ok {
					continue
				}
				if b, ok := c.Call.Value.(*ssa.Builtin); !ok || b.Name() != "append" {
					continue
				}
				first := c.Call.Args[0] == ssa.Value(sl)
				if cr := c.Referrers(); cr != nil {
					for _, z := range *cr {
						if st, ok := z.(*ssa.Store); ok && st.Val == ssa.Value(c) {
							if _, f, ok := fieldOfAddr(st.Addr); ok {
								return f, first, nil
							}
							if p, ok := seeThrough(st.Addr).(*ssa.Parameter); ok {
								return nil, first, p
							}
						}
					}
				}
			}
		}
	}
	return nil, false, nil
}

func checkC13Entries(w *World, r *Report) {
	ru := r.Rule("C13.5", "list entries: every entry appended to Router.mws is flagged global; every entry appended to Route.mws is route-scoped and not global; WithMiddleware registers global entries for all scopes; DefaultOptions prepends {Recovery, RouteHandler} then {Logger, AllHandlers}", 3)
	router, route := w.FoxType("Router"), w.FoxType("Route")
	rmws, tmws := w.Field(router, "mws"), w.Field(route, "mws")
	constOf := func(name string) int64 {
		c, ok := w.Fox.Types.Scope().Lookup(name).(*types.Const)
		if !ok {
			anchorFail("constant %s", name)
		}
		v, _ := constantInt64(c)
		return v
	}
	rhv, allv := constOf("RouteHandler"), constOf("AllHandlers")
	entries := collectMwEntries(w)
	def := w.Func("DefaultOptions")
	calleeName := func(v ssa.Value) string {
		if c, ok := v.(*ssa.Call); ok {
			if f := c.Call.StaticCallee(); f != nil {
				return f.Name()
			}
		}
		return valStr(v)
	}
	nDefault := 0
	// a field left out of a keyed literal holds its zero value
	gOf := func(e mwEntry) (bool, bool) {
		if e.g == nil {
			return false, true
		}
		return constBool(e.g)
	}
	for _, e := range entries {
		where := FuncName(e.fn)
		switch e.dest {
		case rmws:
			g, ok := gOf(e)
			ru.Check("entry for Router.mws in "+where, w.Pos(e.pos), "entries of the router list are flagged global (g = true)", ok && g, "g = "+valStr(e.g))
			if e.fn.Parent() == def {
				nDefault++
				wantM, wantScope := "Recovery", rhv
				if e.index == 1 {
					wantM, wantScope = "Logger", allv
				}
				sc, okS := constInt(e.scope)
				ru.Check(fmt.Sprintf("DefaultOptions entry %d", e.index), w.Pos(e.pos), fmt.Sprintf("position %d is %s with scope %s, prepended to the existing list", e.index, wantM, scopeName(w, wantScope)),
					calleeName(e.m) == wantM && okS && sc == wantScope && e.first, fmt.Sprintf("m=%s scope=%s prepended=%v", calleeName(e.m), valStr(e.scope), e.first))
			} else if e.fn.Parent() != nil && e.fn.Parent().Name() == "WithMiddleware" {
				sc, okS := constInt(e.scope)
				ru.Check("WithMiddleware global entry scope", w.Pos(e.pos), "global middleware applies to all handler kinds", okS && sc == allv, valStr(e.scope))
			}
		case tmws:
			g, ok := gOf(e)
			sc, okS := constInt(e.scope)
			ru.Check("entry for Route.mws in "+where, w.Pos(e.pos), "route entries are route-scoped and not global (scope = RouteHandler, g = false)", ok && !g && e.scope != nil && okS && sc == rhv, fmt.Sprintf("scope=%s g=%s", valStr(e.scope), valStr(e.g)))
		default:
			ru.Fail("middleware entry in "+where, w.Pos(e.pos), "every middleware literal ends up in Router.mws or Route.mws through an append", "destination not recognised")
		}
	}
	if nDefault != 2 {
		ru.Fail("DefaultOptions entries", w.Pos(def.Pos()), "DefaultOptions registers exactly Recovery and Logger", fmt.Sprintf("%d entries found", nDefault))
	}
}
