package main

import (
	"fmt"
	"go/token"
	"go/types"

	"golang.org/x/tools/go/ssa"
)

func init() { register("C07", checkC07) }

func checkC07(w *World, r *Report) {
	r.Explanation = "This property is about histories and the static reach is thin; what is decided are the construction invariants every tree shape relies on, plus 'aborted transactions leave no trace': " +
		"nodes are allocated only by the constructor that derives the lookup tables (params, infix sub-node) or as empty roots with both child indexes set to -1; the only function composing a child list sorts " +
		"it before deriving the first-byte keys and the param/catch-all indexes from the sorted list; every other construction passes a complete (children, childKeys, paramChildIndex, wildcardChildIndex) tuple " +
		"taken from one and the same node, or the empty tuple, so a node's tables never depend on the order of insertions; no write of an uncommitted transaction reaches published storage and Abort " +
		"publishes nothing. That deletions merge nodes back so that every history ending in the same set gives a behaviourally equal tree is NOT decided."
	r.NotDecided = []string{"that delete merges nodes back so that all histories ending in the same route set yield behaviourally equal trees (the heart of the property; a statement about tree shapes over histories)", "insertion-order independence of splits"}
	r.Assumptions = []string{"the matcher trusts childKeys order (binary search above 50 children) and the two index fields"}
	checkNodeConstruction(w, r, "C07.1")
	p := newProto(w)
	checkC04PublicationAs(w, r, p, w.Method("Txn", "Commit"), "C07.3")
	o := newOwn(w)
	o.analyseAll()
	checkOwnWrites(w, r, o, "C07.4")
}

// checkNodeConstruction is the rule shared by C07 (C07.1/C07.2) and C02 (C02.6).
func checkNodeConstruction(w *World, r *Report, id string) {
	ru := r.Rule(id, "node construction discipline: node structs are allocated only inside newNodeFromRef (which derives params and the infix sub-node from the key) or as empty roots whose two child indexes are set to -1; newNode sorts the child list before deriving childKeys and the param/catch-all indexes; every other call of newNodeFromRef passes the four child-table values of one and the same node, or (nil, nil, -1, -1)", 10)
	o := newOwn(w)
	nodeT := o.nodeT
	fromRef := w.Func("newNodeFromRef")
	newNode := w.Func("newNode")
	r.Analysed(FuncName(fromRef), FuncName(newNode))
	// (a) allocations
	for _, fn := range w.FoxFuncs() {
		if isTestHelper(w, fn) {
			continue
		}
		eachInstr(fn, func(in ssa.Instruction) {
			a, ok := in.(*ssa.Alloc)
			if !ok || namedOf(a.Type()) != nodeT || !o.isNodePtr(a.Type()) {
				return
			}
			stores := map[string]ssa.Value{}
			whole := false
			if refs := a.Referrers(); refs != nil {
				for _, ref := range *refs {
					switch x := ref.(type) {
					case *ssa.Store:
						if x.Addr == ssa.Value(a) {
							whole = true
						}
					case *ssa.FieldAddr:
						_, f, _ := fieldOfAddr(x)
						if fr := x.Referrers(); fr != nil {
							for _, y := range *fr {
								if st, ok := y.(*ssa.Store); ok && st.Addr == ssa.Value(x) {
									stores[f.Name()] = st.Val
								}
							}
						}
					}
				}
			}
			// fields initialised through the slot the node was just stored into: s[i] = new(node); s[i].f = v
			for _, y := range a.Block().Instrs {
				st, ok := y.(*ssa.Store)
				if !ok {
					continue
				}
				base, f, ok := fieldOfAddr(st.Addr)
				if !ok {
					continue
				}
				if u, ok := base.(*ssa.UnOp); ok && u.Op == token.MUL {
					if ia, ok := u.X.(*ssa.IndexAddr); ok && forwardedSlot(u, ia) == ssa.Value(a) {
						stores[f.Name()] = st.Val
					}
				}
			}
			construct := "node allocated in " + FuncName(fn)
			switch {
			case whole:
				ru.Fail(construct, w.Pos(a.Pos()), "built by the constructor (tables derived from the key)", "a whole node value is copied: params and the infix sub-node of the copy are stale")
			case fn == fromRef:
				all := true
				for _, f := range []string{"key", "childKeys", "children", "route", "inode", "paramChildIndex", "wildcardChildIndex", "params"} {
					if _, ok := stores[f]; !ok {
						all = false
					}
				}
				ru.Check(construct, w.Pos(a.Pos()), "the constructor sets every field", all, fmt.Sprintf("%d fields set", len(stores)))
			default:
				p1, ok1 := constInt(stores["paramChildIndex"])
				p2, ok2 := constInt(stores["wildcardChildIndex"])
				extra := ""
				for f := range stores {
					if f != "key" && f != "paramChildIndex" && f != "wildcardChildIndex" {
						extra += " " + f
					}
				}
				ru.Check(construct, w.Pos(a.Pos()), "an empty root: only the key is set and both child indexes are -1 (0 would designate child 0)", ok1 && ok2 && p1 == -1 && p2 == -1 && extra == "",
					fmt.Sprintf("paramChildIndex=%s wildcardChildIndex=%s otherFields=[%s ]", valStr(stores["paramChildIndex"]), valStr(stores["wildcardChildIndex"]), extra))
			}
		})
	}
	// (b) newNode: sort dominates derivation and the constructor call
	var sortCall, ctor *ssa.Call
	hasBrace, hasStar, keyByte := false, false, false
	eachInstr(newNode, func(in ssa.Instruction) {
		switch x := in.(type) {
		case *ssa.Call:
			obj := calleeObj(x)
			if obj != nil && obj.Pkg() != nil && obj.Pkg().Path() == "slices" && (obj.Name() == "SortFunc" || obj.Name() == "SortStableFunc") && x.Call.Args[0] == ssa.Value(newNode.Params[2]) {
				sortCall = x
			}
			if x.Call.StaticCallee() == fromRef {
				ctor = x
			}
			if isFuncNamed(obj, "strings", "HasPrefix") {
				if s, ok := constString(x.Call.Args[1]); ok {
					if s == "{" {
						hasBrace = true
					}
					if s == "*" {
						hasStar = true
					}
				}
			}
		case *ssa.Store:
			if ia, ok := x.Addr.(*ssa.IndexAddr); ok {
				if _, isMake := ia.X.(*ssa.MakeSlice); isMake {
					keyByte = true
				}
			}
		}
	})
	okSort := sortCall != nil && ctor != nil && instrDominates(sortCall, ctor)
	if okSort {
		eachInstr(newNode, func(in ssa.Instruction) {
			if st, ok := in.(*ssa.Store); ok {
				if _, isIdx := st.Addr.(*ssa.IndexAddr); isIdx && !instrDominates(sortCall, st) {
					okSort = false
				}
			}
		})
	}
	ru.Check("newNode sorts first", w.Pos(newNode.Pos()), "the child list is sorted by key before childKeys and the indexes are derived and before the node is built", okSort, fmt.Sprintf("sort=%v ctor=%v", sortCall != nil, ctor != nil))
	// comparator: cmp.Compare(a.key, b.key)
	okCmp := false
	for _, an := range newNode.AnonFuncs {
		eachInstr(an, func(in ssa.Instruction) {
			if c, ok := in.(*ssa.Call); ok && calleeObj(c) != nil && calleeObj(c).Name() == "Compare" {
				_, f1, ok1 := loadedField(c.Call.Args[0])
				_, f2, ok2 := loadedField(c.Call.Args[1])
				b1, _, _ := loadedField(c.Call.Args[0])
				okCmp = ok1 && ok2 && f1.Name() == "key" && f2.Name() == "key" && b1 == ssa.Value(an.Params[0])
			}
		})
	}
	ru.Check("newNode sort order", w.Pos(newNode.Pos()), "ascending by key (cmp.Compare(a.key, b.key))", okCmp, fmt.Sprint(okCmp))
	ru.Check("newNode derivation", w.Pos(newNode.Pos()), "childKeys[i] = first key byte; param index from prefix \"{\", catch-all index from prefix \"*\"", hasBrace && hasStar && keyByte, fmt.Sprintf("brace=%v star=%v keyByte=%v", hasBrace, hasStar, keyByte))
	if ctor != nil {
		okArgs := ctor.Call.Args[2] == ssa.Value(newNode.Params[2])
		if _, isMake := ctor.Call.Args[3].(*ssa.MakeSlice); !isMake {
			okArgs = false
		}
		ru.Check("newNode passes the derived tables", w.Pos(ctor.Pos()), "newNodeFromRef(key, route, sorted children, derived childKeys, derived indexes)", okArgs, valStr(ctor))
	}
	// (c) other call sites of newNodeFromRef
	fieldsWanted := []string{"children", "childKeys", "paramChildIndex", "wildcardChildIndex"}
	for _, fn := range w.FoxFuncs() {
		if isTestHelper(w, fn) || fn == newNode {
			continue
		}
		eachInstr(fn, func(in ssa.Instruction) {
			c, ok := in.(*ssa.Call)
			if !ok || c.Call.StaticCallee() != fromRef {
				return
			}
			args := c.Call.Args[2:6]
			construct := "newNodeFromRef call in " + FuncName(fn)
			// empty tuple
			k1, okk1 := constInt(args[2])
			k2, okk2 := constInt(args[3])
			if isNilConst(args[0]) && isNilConst(args[1]) && okk1 && okk2 && k1 == -1 && k2 == -1 {
				ru.Pass(construct, w.Pos(c.Pos()), "complete tuple of one node, or the empty tuple", "empty tuple (nil, nil, -1, -1)")
				return
			}
			// the function's own parameters handed on (the recursive infix sub-node)
			if fn == fromRef {
				own := true
				for i, a := range args {
					if a != ssa.Value(fn.Params[2+i]) {
						own = false
					}
				}
				ru.Check(construct, w.Pos(c.Pos()), "the infix sub-node shares the node's own child tables", own, "parameters handed on unchanged")
				return
			}
			var base ssa.Value
			okk, why := true, ""
			for i, a := range args {
				want := fieldsWanted[i]
				b, f, isLoad := loadedField(a)
				if i == 0 && !isLoad {
					// clone(): a private copy of the same node's children, made here or by a helper method of that node
					if ms, isMake := a.(*ssa.MakeSlice); isMake {
						if src := copySourceOf(ms); src != nil {
							b, f, isLoad = loadedField(src)
						}
					}
					if cc, isCall := a.(*ssa.Call); isCall {
						if callee := cc.Call.StaticCallee(); callee != nil && len(cc.Call.Args) == 1 && callee.Blocks != nil {
							eachInstr(callee, func(x ssa.Instruction) {
								ret, ok := x.(*ssa.Return)
								if !ok || len(ret.Results) != 1 {
									return
								}
								if ms, ok := ret.Results[0].(*ssa.MakeSlice); ok {
									if src := copySourceOf(ms); src != nil {
										if cb, cf, ok := loadedField(src); ok && cb == ssa.Value(callee.Params[0]) {
											b, f, isLoad = cc.Call.Args[0], cf, true
										}
									}
								}
							})
						}
					}
				}
				if !isLoad || f.Name() != want || namedOf(b.Type()) != nodeT {
					okk, why = false, fmt.Sprintf("argument %d (%s) is not the %s of a node: %s", 2+i, want, want, valStr(a))
					break
				}
				if base == nil {
					base = b
				} else if !sameExpr(base, b) {
					okk, why = false, fmt.Sprintf("%s is taken from %s but children from %s", want, valStr(b), valStr(base))
					break
				}
			}
			if okk {
				why = "all four tables read from " + valStr(base)
			}
			ru.Check(construct, w.Pos(c.Pos()), "complete tuple of one node, or the empty tuple", okk, why)
		})
	}
	_ = types.Typ
	_ = token.NoPos
}

// copySourceOf: for dst := make(...); copy(dst, src) returns src.
func copySourceOf(ms *ssa.MakeSlice) ssa.Value {
	if refs := ms.Referrers(); refs != nil {
		for _, ref := range *refs {
			if c, ok := ref.(*ssa.Call); ok {
				if bi, ok := c.Call.Value.(*ssa.Builtin); ok && bi.Name() == "copy" && c.Call.Args[0] == ssa.Value(ms) {
					return c.Call.Args[1]
				}
			}
		}
	}
	return nil
}
