package main

import (
	"fmt"
	"go/token"
	"go/types"
	"sort"
	"strconv"
	"strings"

	"golang.org/x/tools/go/ssa"
)

func init() { register("C07", checkC07) }

func checkC07(w *World, r *Report) {
	r.Explanation = "This property is about histories and the static reach is thin; what is decided are the construction invariants every tree shape relies on, plus 'aborted transactions leave no trace': " +
		"nodes are allocated only by the constructor that derives the lookup tables (params, infix sub-node) or as empty roots with both child indexes set to -1; the only function composing a child list sorts " +
		"it before deriving the first-byte keys and the param/catch-all indexes from the sorted list; every other construction passes a complete (children, childKeys, paramChildIndex, wildcardChildIndex) tuple " +
		"taken from one and the same node, or the empty tuple, so a node's tables never depend on the order of insertions; no write of an uncommitted transaction reaches published storage and Abort " +
		"publishes nothing. That deletions merge nodes back so that every history ending in the same set gives a behaviourally equal tree is NOT decided."
	r.NotDecided = []string{"that delete merges nodes back so that all histories ending in the same route set yield behaviourally equal trees (the heart of the property; a statement about tree shapes over histories)", "insertion-order independence of splits"}
	r.Assumptions = []string{"the matcher trusts childKeys order (binary search above 50 children) and the two index fields"}
	checkNodeConstruction(w, r, "C07.1")
	checkC07MergeGuards(w, r)
	checkC07MergeShape(w, r)
	p := newProto(w)
	checkC04PublicationAs(w, r, p, w.Method("Txn", "Commit"), "C07.3")
	o := newOwn(w)
	o.analyseAll()
	checkOwnWrites(w, r, o, "C07.4")
}

// checkNodeConstruction is the rule shared by C07 (C07.1/C07.2) and C02 (C02.6).
func checkNodeConstruction(w *World, r *Report, id string) {
	ru := r.Rule(id, "node construction discipline: node structs are allocated only inside newNodeFromRef (which derives params and the infix sub-node from the key) or as empty roots whose two child indexes are set to -1; newNode sorts the child list before deriving childKeys and the param/catch-all indexes; every other call of newNodeFromRef passes the four child-table values of one and the same node, or (nil, nil, -1, -1)", 10)
	o := newOwn(w)
	nodeT := o.nodeT
	fromRef := w.Func("newNodeFromRef")
	newNode := w.Func("newNode")
	r.Analysed(FuncName(fromRef), FuncName(newNode))
	// (a0) the derived fields of a node (route, the infix sub-node built from it, params) are written only by the
	// constructor: assigning node.route afterwards leaves the precomputed sub-node with the previous route
	for _, fn := range w.FoxFuncs() {
		if isTestHelper(w, fn) || fn == fromRef {
			continue
		}
		eachInstr(fn, func(in ssa.Instruction) {
			st, ok := in.(*ssa.Store)
			if !ok {
				return
			}
			base, f, ok := fieldOfAddr(st.Addr)
			if !ok || namedOf(derefType(base.Type())) != nodeT {
				return
			}
			switch f.Name() {
			case "route", "inode", "params":
				ru.Fail("store to node."+f.Name()+" in "+FuncName(fn), w.InstrPos(st), "derived fields of a node are set only by the constructor newNodeFromRef", "assigned outside the constructor: the other fields derived from it (the precomputed infix sub-node carries its own copy of the route) keep their old value")
			}
		})
	}
	// (a) allocations
	for _, fn := range w.FoxFuncs() {
		if isTestHelper(w, fn) {
			continue
		}
		eachInstr(fn, func(in ssa.Instruction) {
			a, ok := in.(*ssa.Alloc)
			if !ok || namedOf(a.Type()) != nodeT || !o.isNodePtr(a.Type()) {
				return
			}
			stores := map[string]ssa.Value{}
			whole := false
			if refs := a.Referrers(); refs != nil {
				for _, ref := range *refs {
					switch x := ref.(type) {
					case *ssa.Store:
						if x.Addr == ssa.Value(a) {
							whole = true
						}
					case *ssa.FieldAddr:
						_, f, _ := fieldOfAddr(x)
						if fr := x.Referrers(); fr != nil {
							for _, y := range *fr {
								if st, ok := y.(*ssa.Store); ok && st.Addr == ssa.Value(x) {
									stores[f.Name()] = st.Val
								}
							}
						}
					}
				}
			}
			// fields initialised through the slot the node was just stored into: s[i] = new(node); s[i].f = v
			for _, y := range a.Block().Instrs {
				st, ok := y.(*ssa.Store)
				if !ok {
					continue
				}
				base, f, ok := fieldOfAddr(st.Addr)
				if !ok {
					continue
				}
				if u, ok := base.(*ssa.UnOp); ok && u.Op == token.MUL {
					if ia, ok := u.X.(*ssa.IndexAddr); ok && forwardedSlot(u, ia) == ssa.Value(a) {
						stores[f.Name()] = st.Val
					}
				}
			}
			construct := "node allocated in " + FuncName(fn)
			switch {
			case whole:
				ru.Fail(construct, w.Pos(a.Pos()), "built by the constructor (tables derived from the key)", "a whole node value is copied: params and the infix sub-node of the copy are stale")
			case fn == fromRef:
				all := true
				for _, f := range []string{"key", "childKeys", "children", "route", "inode", "paramChildIndex", "wildcardChildIndex", "params"} {
					if _, ok := stores[f]; !ok {
						all = false
					}
				}
				ru.Check(construct, w.Pos(a.Pos()), "the constructor sets every field", all, fmt.Sprintf("%d fields set", len(stores)))
			default:
				p1, ok1 := constInt(stores["paramChildIndex"])
				p2, ok2 := constInt(stores["wildcardChildIndex"])
				extra := ""
				for f := range stores {
					if f != "key" && f != "paramChildIndex" && f != "wildcardChildIndex" {
						extra += " " + f
					}
				}
				ru.Check(construct, w.Pos(a.Pos()), "an empty root: only the key is set and both child indexes are -1 (0 would designate child 0)", ok1 && ok2 && p1 == -1 && p2 == -1 && extra == "",
					fmt.Sprintf("paramChildIndex=%s wildcardChildIndex=%s otherFields=[%s ]", valStr(stores["paramChildIndex"]), valStr(stores["wildcardChildIndex"]), extra))
			}
		})
	}
	// (b) newNode: sort dominates derivation and the constructor call
	var sortCall, ctor *ssa.Call
	hasBrace, hasStar, keyByte := false, false, false
	eachInstr(newNode, func(in ssa.Instruction) {
		switch x := in.(type) {
		case *ssa.Call:
			obj := calleeObj(x)
			if obj != nil && obj.Pkg() != nil && obj.Pkg().Path() == "slices" && (obj.Name() == "SortFunc" || obj.Name() == "SortStableFunc") && x.Call.Args[0] == ssa.Value(newNode.Params[2]) {
				sortCall = x
			}
			if x.Call.StaticCallee() == fromRef {
				ctor = x
			}
			if isFuncNamed(obj, "strings", "HasPrefix") {
				if s, ok := constString(x.Call.Args[1]); ok {
					if s == "{" {
						hasBrace = true
					}
					if s == "*" {
						hasStar = true
					}
				}
			}
		case *ssa.Store:
			if ia, ok := x.Addr.(*ssa.IndexAddr); ok {
				if _, isMake := ia.X.(*ssa.MakeSlice); isMake {
					keyByte = true
				}
			}
		case *ssa.BinOp:
			// or: the first key byte compared with '{' / '*' (if or switch form)
			if x.Op == token.EQL || x.Op == token.NEQ {
				for _, side := range []ssa.Value{x.X, x.Y} {
					if k, ok := constInt(side); ok {
						if k == '{' {
							hasBrace = true
						}
						if k == '*' {
							hasStar = true
						}
					}
				}
			}
		}
	})
	okSort := sortCall != nil && ctor != nil && instrDominates(sortCall, ctor)
	if okSort {
		eachInstr(newNode, func(in ssa.Instruction) {
			if st, ok := in.(*ssa.Store); ok {
				if _, isIdx := st.Addr.(*ssa.IndexAddr); isIdx && !instrDominates(sortCall, st) {
					okSort = false
				}
			}
		})
	}
	ru.Check("newNode sorts first", w.Pos(newNode.Pos()), "the child list is sorted by key before childKeys and the indexes are derived and before the node is built", okSort, fmt.Sprintf("sort=%v ctor=%v", sortCall != nil, ctor != nil))
	// comparator: cmp.Compare(a.key, b.key)
	okCmp := false
	var cmpFns []*ssa.Function
	if sortCall != nil && len(sortCall.Common().Args) == 2 {
		// the comparator handed to the sort: a closure or a named function
		switch x := sortCall.Common().Args[1].(type) {
		case *ssa.MakeClosure:
			cmpFns = append(cmpFns, x.Fn.(*ssa.Function))
		case *ssa.Function:
			cmpFns = append(cmpFns, x)
		}
	}
	if len(cmpFns) == 0 {
		cmpFns = newNode.AnonFuncs
	}
	for _, an := range cmpFns {
		if len(an.Params) < 2 {
			continue
		}
		eachInstr(an, func(in ssa.Instruction) {
			if c, ok := in.(*ssa.Call); ok && calleeObj(c) != nil && calleeObj(c).Name() == "Compare" {
				_, f1, ok1 := loadedField(c.Call.Args[0])
				_, f2, ok2 := loadedField(c.Call.Args[1])
				b1, _, _ := loadedField(c.Call.Args[0])
				okCmp = ok1 && ok2 && f1.Name() == "key" && f2.Name() == "key" && b1 == ssa.Value(an.Params[0])
			}
		})
	}
	ru.Check("newNode sort order", w.Pos(newNode.Pos()), "ascending by key (cmp.Compare(a.key, b.key))", okCmp, fmt.Sprint(okCmp))
	ru.Check("newNode derivation", w.Pos(newNode.Pos()), "childKeys[i] = first key byte; param index from prefix \"{\", catch-all index from prefix \"*\"", hasBrace && hasStar && keyByte, fmt.Sprintf("brace=%v star=%v keyByte=%v", hasBrace, hasStar, keyByte))
	if ctor != nil {
		okArgs := ctor.Call.Args[2] == ssa.Value(newNode.Params[2])
		if _, isMake := ctor.Call.Args[3].(*ssa.MakeSlice); !isMake {
			okArgs = false
		}
		ru.Check("newNode passes the derived tables", w.Pos(ctor.Pos()), "newNodeFromRef(key, route, sorted children, derived childKeys, derived indexes)", okArgs, valStr(ctor))
	}
	// (c) other call sites of newNodeFromRef
	fieldsWanted := []string{"children", "childKeys", "paramChildIndex", "wildcardChildIndex"}
	for _, fn := range w.FoxFuncs() {
		if isTestHelper(w, fn) || fn == newNode {
			continue
		}
		eachInstr(fn, func(in ssa.Instruction) {
			c, ok := in.(*ssa.Call)
			if !ok || c.Call.StaticCallee() != fromRef {
				return
			}
			args := c.Call.Args[2:6]
			construct := "newNodeFromRef call in " + FuncName(fn)
			// empty tuple
			k1, okk1 := constInt(args[2])
			k2, okk2 := constInt(args[3])
			if isNilConst(args[0]) && isNilConst(args[1]) && okk1 && okk2 && k1 == -1 && k2 == -1 {
				ru.Pass(construct, w.Pos(c.Pos()), "complete tuple of one node, or the empty tuple", "empty tuple (nil, nil, -1, -1)")
				return
			}
			// the function's own parameters handed on (the recursive infix sub-node)
			if fn == fromRef {
				own := true
				for i, a := range args {
					if a != ssa.Value(fn.Params[2+i]) {
						own = false
					}
				}
				ru.Check(construct, w.Pos(c.Pos()), "the infix sub-node shares the node's own child tables", own, "parameters handed on unchanged")
				return
			}
			var base ssa.Value
			okk, why := true, ""
			for i, a := range args {
				want := fieldsWanted[i]
				b, f, isLoad := loadedField(a)
				if i == 0 && !isLoad {
					// clone(): a private copy of the same node's children, made here or by a helper method of that node
					if ms, isMake := a.(*ssa.MakeSlice); isMake {
						if src := copySourceOf(ms); src != nil {
							b, f, isLoad = loadedField(src)
						}
					}
					if cc, isCall := a.(*ssa.Call); isCall {
						if callee := cc.Call.StaticCallee(); callee != nil && len(cc.Call.Args) == 1 && callee.Blocks != nil {
							eachInstr(callee, func(x ssa.Instruction) {
								ret, ok := x.(*ssa.Return)
								if !ok || len(ret.Results) != 1 {
									return
								}
								if ms, ok := ret.Results[0].(*ssa.MakeSlice); ok {
									if src := copySourceOf(ms); src != nil {
										if cb, cf, ok := loadedField(src); ok && cb == ssa.Value(callee.Params[0]) {
											b, f, isLoad = cc.Call.Args[0], cf, true
										}
									}
								}
							})
						}
					}
				}
				if !isLoad || f.Name() != want || namedOf(b.Type()) != nodeT {
					okk, why = false, fmt.Sprintf("argument %d (%s) is not the %s of a node: %s", 2+i, want, want, valStr(a))
					break
				}
				if base == nil {
					base = b
				} else if !sameExpr(base, b) {
					okk, why = false, fmt.Sprintf("%s is taken from %s but children from %s", want, valStr(b), valStr(base))
					break
				}
			}
			if okk {
				why = "all four tables read from " + valStr(base)
			}
			ru.Check(construct, w.Pos(c.Pos()), "complete tuple of one node, or the empty tuple", okk, why)
		})
	}
	_ = types.Typ
	_ = token.NoPos
}

// copySourceOf: for dst := make(...); copy(dst, src) returns src.
func copySourceOf(ms *ssa.MakeSlice) ssa.Value {
	if refs := ms.Referrers(); refs != nil {
		for _, ref := range *refs {
			if c, ok := ref.(*ssa.Call); ok {
				if bi, ok := c.Call.Value.(*ssa.Builtin); ok && bi.Name() == "copy" && c.Call.Args[0] == ssa.Value(ms) {
					return c.Call.Args[1]
				}
			}
		}
	}
	return nil
}

// checkC07MergeGuards: delete must merge a single remaining child back into its parent under exactly the documented
// conditions; an extra condition leaves un-merged shapes behind (routing then depends on the history), a missing one
// merges across a leaf, a root or the host/path boundary.
func checkC07MergeGuards(w *World, r *Report) {
	ru := r.Rule("C07.2", "merge-back guards of tXn.remove: the three places that fold a node into its single remaining child do so under exactly these conditions — (a) the removed node has exactly one child; (b) the parent is left with exactly one edge, is not a leaf and is not the method root; (c) the parent is left with no edge, is not a leaf nor the root, and the grand-parent is then left with exactly one edge, is not a leaf, is not the root, and that edge does not start the path part ('/') of a hostname route", 3)
	remove := w.Method("tXn", "remove")
	fromRef := w.Func("newNodeFromRef")
	recreate := w.Func("recreateParentEdge")
	o := newOwn(w)
	isMergeCtor := func(c *ssa.Call) bool {
		if c.Call.StaticCallee() != fromRef {
			return false
		}
		k, ok := c.Call.Args[0].(*ssa.Call)
		return ok && isFuncNamed(calleeObj(k), "fmt", "Sprintf")
	}
	// merge sites inside remove: direct constructor calls, or calls of a helper that contains one
	helpers := map[*ssa.Function]bool{}
	for _, fn := range w.FoxFuncs() {
		if fn == remove {
			continue
		}
		eachInstr(fn, func(in ssa.Instruction) {
			if c, ok := in.(*ssa.Call); ok && isMergeCtor(c) {
				helpers[fn] = true
			}
		})
	}
	var sites []*ssa.Call
	eachInstr(remove, func(in ssa.Instruction) {
		if c, ok := in.(*ssa.Call); ok && (isMergeCtor(c) || helpers[c.Call.StaticCallee()]) {
			sites = append(sites, c)
		}
	})
	resField := func(v ssa.Value) string {
		// result.p / result.pp / result.matched (loads of fields of the search result)
		if _, f, ok := loadedField(v); ok {
			return f.Name()
		}
		return ""
	}
	var describeEdges func(v ssa.Value, depth int) string
	describeEdges = func(v ssa.Value, depth int) string {
		if depth > 4 {
			return "?"
		}
		switch x := v.(type) {
		case *ssa.Call:
			if x.Call.StaticCallee() == recreate {
				return "edges(" + resField(x.Call.Args[0]) + ")"
			}
		case *ssa.Phi:
			// the use decides which definition is meant: take the one defined in a block dominating... keep all
			parts := map[string]bool{}
			for _, e := range x.Edges {
				parts[describeEdges(e, depth+1)] = true
			}
			if len(parts) == 1 {
				for k := range parts {
					return k
				}
			}
			return "edges(?)"
		case *ssa.UnOp:
			if b, f, ok := loadedField(x); ok && f.Name() == "children" {
				return resField(b) + ".children"
			}
		}
		return "?"
	}
	classify := func(f Fact) string {
		neg := map[bool]string{true: "", false: "!"}[f.Val]
		switch x := f.Cond.(type) {
		case *ssa.BinOp:
			if c, ok := x.X.(*ssa.Call); ok {
				if b, ok := c.Call.Value.(*ssa.Builtin); ok && b.Name() == "len" {
					if k, ok := constInt(x.Y); ok {
						return fmt.Sprintf("%slen(%s)%s%d", neg, describeEdges(c.Call.Args[0], 0), x.Op, k)
					}
				}
			}
			if o.isNodePtr(x.X.Type()) && o.isNodePtr(x.Y.Type()) && x.Op == token.EQL {
				a, b := resField(x.X), resField(x.Y)
				if a == "" {
					a, b = b, a
				}
				if a != "" {
					return neg + a + "==root"
				}
			}
			if k, ok := constInt(x.Y); ok && x.Op == token.LSS && k == 0 {
				return neg + "index<0"
			}
		case *ssa.Call:
			if callee := x.Call.StaticCallee(); callee != nil {
				switch callee.Name() {
				case "isLeaf":
					return neg + resField(x.Call.Args[0]) + ".isLeaf"
				case "isExactMatch":
					return neg + "isExactMatch"
				case "HasPrefix":
					if s, ok := constString(x.Call.Args[1]); ok && s == "/" {
						return neg + "edge0.hasSlashPrefix"
					}
				}
			}
		}
		return "other:" + f.String()
	}
	preMerge := map[string]bool{"!index<0": true, "isExactMatch": true, "matched.isLeaf": true, "!len(matched.children)>1": true, "!len(matched.children)==1": true}
	want := map[string][]string{
		"(a) removed node has one child": {"len(matched.children)==1"},
		"(b) parent keeps one edge":      {"len(edges(p))==1", "!p.isLeaf", "!p==root"},
		"(c) grand-parent keeps one edge": {"len(edges(p))==0", "!p.isLeaf", "!p==root", "len(edges(pp))==1", "!pp.isLeaf", "!edge0.hasSlashPrefix", "!pp==root"},
	}
	seen := map[string]bool{}
	for _, c := range sites {
		var got []string
		for _, f := range factsAtBlock(c.Block()) {
			k := classify(f)
			if preMerge[k] {
				continue
			}
			got = append(got, k)
		}
		sort.Strings(got)
		unknownGuard := false
		for _, g := range got {
			if strings.HasPrefix(g, "other:") {
				unknownGuard = true
			}
		}
		if unknownGuard {
			r.Unrecognised("C07.2: merge at %s is guarded by a condition the rule does not know (%s)", w.Pos(c.Pos()), strings.Join(got, " && "))
			continue
		}
		matched := ""
		for name, ws := range want {
			w2 := append([]string(nil), ws...)
			sort.Strings(w2)
			if strings.Join(w2, " ") == strings.Join(got, " ") {
				matched = name
			}
		}
		seen[matched] = true
		ru.Check("merge in tXn.remove", w.Pos(c.Pos()), "performed under exactly one of the documented guard sets", matched != "", orDefault(matched, "guards: "+strings.Join(got, " && ")))
	}
	for name := range want {
		if !seen[name] {
			ru.Fail("merge case "+name, w.Pos(remove.Pos()), "the merge case exists", "no merge site is guarded by this set")
		}
	}
}

// sliceElems returns the values stored into the backing array of a variadic argument slice (nil when v is not of
// that form).
func sliceElems(v ssa.Value) []ssa.Value {
	sl, ok := v.(*ssa.Slice)
	if !ok {
		return nil
	}
	arr, ok := sl.X.(*ssa.Alloc)
	if !ok || arr.Referrers() == nil {
		return nil
	}
	out := map[int64]ssa.Value{}
	for _, ref := range *arr.Referrers() {
		ia, ok := ref.(*ssa.IndexAddr)
		if !ok || ia.Referrers() == nil {
			continue
		}
		k, ok := constInt(ia.Index)
		if !ok {
			return nil
		}
		for _, r2 := range *ia.Referrers() {
			if st, ok := r2.(*ssa.Store); ok && st.Addr == ssa.Value(ia) {
				out[k] = st.Val
			}
		}
	}
	res := make([]ssa.Value, len(out))
	for k, v := range out {
		if int(k) >= len(res) {
			return nil
		}
		res[k] = v
	}
	return res
}

// checkC07MergeShape: what a merge builds. Folding node U into its single remaining edge L must give the node a
// fresh insertion of L's route would have produced: key U.key+L.key (in that order), route and child tables of L, and
// L must be the first edge of U's own edge list (its children, or the edges recreated for U).
func checkC07MergeShape(w *World, r *Report) {
	ru := r.Rule("C07.5", "merge shape: every node built by a merge in tXn.remove has the key upper.key + lower.key in that order, carries the route and the child tables of the lower node, and the lower node is edge 0 of the upper node's own (remaining) edge list", 3)
	remove := w.Method("tXn", "remove")
	fromRef := w.Func("newNodeFromRef")
	recreate := w.Func("recreateParentEdge")
	keyOwner := func(v ssa.Value) (ssa.Value, bool) {
		b, f, ok := loadedField(stripIface(v))
		if ok && f.Name() == "key" {
			return b, true
		}
		return nil, false
	}
	var fns []*ssa.Function
	for _, fn := range w.FoxFuncs() {
		fns = append(fns, fn)
	}
	n := 0
	for _, fn := range fns {
		if fn != remove {
			// merge helpers extracted from remove are analysed where the constructor call is
			calledFromRemove := false
			eachInstr(remove, func(in ssa.Instruction) {
				if c, ok := in.(*ssa.Call); ok && c.Call.StaticCallee() == fn {
					calledFromRemove = true
				}
			})
			if !calledFromRemove {
				continue
			}
		}
		eachInstr(fn, func(in ssa.Instruction) {
			c, ok := in.(*ssa.Call)
			if !ok || c.Call.StaticCallee() != fromRef || len(c.Call.Args) < 6 {
				return
			}
			// the key: fmt.Sprintf("%s%s", a, b) or a + b
			var a, b ssa.Value
			switch k := c.Call.Args[0].(type) {
			case *ssa.Call:
				if !isFuncNamed(calleeObj(k), "fmt", "Sprintf") {
					return
				}
				format, _ := constString(k.Call.Args[0])
				el := sliceElems(k.Call.Args[1])
				if format != "%s%s" || len(el) != 2 {
					ru.Fail("merge in "+FuncName(fn), w.Pos(c.Pos()), "key is the concatenation of two node keys", "format "+strconv.Quote(format)+" with "+strconv.Itoa(len(el))+" operands")
					n++
					return
				}
				a, b = el[0], el[1]
			case *ssa.BinOp:
				if k.Op != token.ADD {
					return
				}
				a, b = k.X, k.Y
			default:
				return
			}
			// lower = upper.children[0] or edges(upper)[0]
			edgeZero := func(upper, lower ssa.Value) bool {
				u, ok := lower.(*ssa.UnOp)
				if !ok {
					return false
				}
				ia, ok := u.X.(*ssa.IndexAddr)
				if !ok {
					return false
				}
				if z, ok := constInt(ia.Index); !ok || z != 0 {
					return false
				}
				var srcs []ssa.Value
				var expand func(v ssa.Value, d int)
				expand = func(v ssa.Value, d int) {
					if ph, ok := v.(*ssa.Phi); ok && d < 4 {
						for _, e := range ph.Edges {
							expand(e, d+1)
						}
						return
					}
					srcs = append(srcs, v)
				}
				expand(ia.X, 0)
				for _, src := range srcs {
					if bb, f, ok := loadedField(src); ok && f.Name() == "children" && sameExpr(seeThrough(bb), seeThrough(upper)) {
						return true
					}
					if rc, ok := src.(*ssa.Call); ok && rc.Call.StaticCallee() == recreate && sameExpr(seeThrough(rc.Call.Args[0]), seeThrough(upper)) {
						return true
					}
				}
				return false
			}
			// a merge helper is judged with the arguments of each of its calls in remove substituted for its parameters
			type useSite struct {
				call *ssa.Call
				name string
				pos  string
			}
			var uses []useSite
			if fn == remove {
				uses = []useSite{{nil, "merge in " + FuncName(fn), w.Pos(c.Pos())}}
			} else {
				eachInstr(remove, func(in2 ssa.Instruction) {
					if c2, ok := in2.(*ssa.Call); ok && c2.Call.StaticCallee() == fn {
						uses = append(uses, useSite{c2, "merge through " + FuncName(fn) + " in (*tXn).remove", w.Pos(c2.Pos())})
					}
				})
			}
			for _, u := range uses {
				subst := func(v ssa.Value) ssa.Value {
					if u.call == nil {
						return v
					}
					if p, ok := seeThrough(stripIface(v)).(*ssa.Parameter); ok && p.Parent() == fn {
						if i := paramIndex(fn, p); i >= 0 && i < len(u.call.Call.Args) {
							return u.call.Call.Args[i]
						}
					}
					return v
				}
				upper, ok1 := keyOwner(subst(a))
				lower, ok2 := keyOwner(subst(b))
				if !ok1 || !ok2 {
					continue // not a merge (a split or a plain copy builds its key differently)
				}
				upper, lower = subst(upper), subst(lower)
				n++
				why := ""
				for i, want := range []string{"route", "children"} {
					bb, f, ok := loadedField(c.Call.Args[1+i])
					if !ok || f.Name() != want || !sameExpr(seeThrough(subst(bb)), seeThrough(lower)) {
						why = want + " is not taken from the lower node " + valStr(lower)
					}
				}
				if why == "" && !edgeZero(upper, lower) {
					why = "the lower node " + valStr(lower) + " is not edge 0 of the upper node " + valStr(upper)
				}
				ru.Check(u.name, u.pos, "key = upper.key + lower.key; route and tables of lower; lower = edge 0 of upper", why == "", orDefault(why, "upper "+valStr(upper)+", lower "+valStr(lower)))
			}
		})
	}
	if n < 3 {
		r.Unrecognised("C07.5: only %d merge constructions found in tXn.remove", n)
	}
}

func paramIndex(fn *ssa.Function, p *ssa.Parameter) int {
	for i, q := range fn.Params {
		if q == p {
			return i
		}
	}
	return -1
}
