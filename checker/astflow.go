package main

import (
	"go/ast"
	"go/token"
	"go/types"
	"strings"

	"golang.org/x/tools/go/cfg"
	"golang.org/x/tools/go/packages"
)

// AST-level control flow (go/cfg) for rules phrased on source variables: branch facts, dominators and a forward
// dataflow skeleton. Conditions are lowered by go/cfg the same way go/ssa does (&&, || and ! become edges).

type astFunc struct {
	w    *World
	pkg  *packages.Package
	decl *ast.FuncDecl
	g    *cfg.CFG
	idom map[*cfg.Block]*cfg.Block
	pred map[*cfg.Block][]*cfg.Block
}

func (w *World) astFuncOf(pkgPath, name string) *astFunc {
	p := w.ByPath[pkgPath]
	if p == nil {
		anchorFail("package %s", pkgPath)
	}
	for _, f := range p.Syntax {
		for _, d := range f.Decls {
			fd, ok := d.(*ast.FuncDecl)
			if !ok || fd.Body == nil {
				continue
			}
			full := fd.Name.Name
			if fd.Recv != nil && len(fd.Recv.List) == 1 {
				t := fd.Recv.List[0].Type
				if st, ok := t.(*ast.StarExpr); ok {
					t = st.X
				}
				if id, ok := t.(*ast.Ident); ok {
					full = id.Name + "." + fd.Name.Name
				}
			}
			if full == name {
				return newAstFunc(w, p, fd)
			}
		}
	}
	anchorFail("function %s.%s (syntax)", pkgPath, name)
	return nil
}

func newAstFunc(w *World, p *packages.Package, fd *ast.FuncDecl) *astFunc {
	af := &astFunc{w: w, pkg: p, decl: fd}
	af.g = cfg.New(fd.Body, func(call *ast.CallExpr) bool {
		// calls to panic never return
		if id, ok := call.Fun.(*ast.Ident); ok && id.Name == "panic" {
			if _, isBuiltin := p.TypesInfo.Uses[id].(*types.Builtin); isBuiltin {
				return false
			}
		}
		return true
	})
	af.pred = map[*cfg.Block][]*cfg.Block{}
	for _, b := range af.g.Blocks {
		for _, s := range b.Succs {
			af.pred[s] = append(af.pred[s], b)
		}
	}
	af.computeDominators()
	return af
}

func (af *astFunc) live(b *cfg.Block) bool { return b.Live }

func (af *astFunc) computeDominators() {
	blocks := af.g.Blocks
	if len(blocks) == 0 {
		return
	}
	entry := blocks[0]
	// iterative set-based dominators (functions are small)
	dom := map[*cfg.Block]map[*cfg.Block]bool{}
	all := map[*cfg.Block]bool{}
	for _, b := range blocks {
		if b.Live {
			all[b] = true
		}
	}
	for b := range all {
		if b == entry {
			dom[b] = map[*cfg.Block]bool{b: true}
		} else {
			m := map[*cfg.Block]bool{}
			for x := range all {
				m[x] = true
			}
			dom[b] = m
		}
	}
	changed := true
	for changed {
		changed = false
		for _, b := range blocks {
			if !b.Live || b == entry {
				continue
			}
			var nw map[*cfg.Block]bool
			for _, p := range af.pred[b] {
				if !p.Live {
					continue
				}
				if nw == nil {
					nw = map[*cfg.Block]bool{}
					for x := range dom[p] {
						nw[x] = true
					}
				} else {
					for x := range nw {
						if !dom[p][x] {
							delete(nw, x)
						}
					}
				}
			}
			if nw == nil {
				nw = map[*cfg.Block]bool{}
			}
			nw[b] = true
			if len(nw) != len(dom[b]) {
				dom[b] = nw
				changed = true
			}
		}
	}
	af.idom = map[*cfg.Block]*cfg.Block{}
	for b, ds := range dom {
		// immediate dominator: the strict dominator dominated by all other strict dominators
		for d := range ds {
			if d == b {
				continue
			}
			ok := true
			for e := range ds {
				if e != b && e != d && !dom[d][e] {
					ok = false
				}
			}
			if ok {
				af.idom[b] = d
			}
		}
	}
}

func (af *astFunc) dominates(a, b *cfg.Block) bool {
	for x := b; x != nil; x = af.idom[x] {
		if x == a {
			return true
		}
	}
	return false
}

// astFact: expression e evaluated to val.
type astFact struct {
	e   ast.Expr
	val bool
}

func (f astFact) String() string {
	s := types.ExprString(f.e)
	if !f.val {
		return "!(" + s + ")"
	}
	return s
}

// condOf returns the branch condition a two-successor block ends with.
func (af *astFunc) condOf(b *cfg.Block) ast.Expr {
	if len(b.Succs) != 2 || len(b.Nodes) == 0 {
		return nil
	}
	e, ok := b.Nodes[len(b.Nodes)-1].(ast.Expr)
	if !ok {
		return nil
	}
	// a case expression of a tag switch: go/cfg emits the bare expression; the condition is `tag == expr`
	if cc, ok := b.Succs[0].Stmt.(*ast.CaseClause); ok && b.Succs[0].Kind == cfg.KindSwitchCaseBody {
		if sw := af.switchOf(cc); sw != nil && sw.Tag != nil {
			for _, ce := range cc.List {
				if ce == e {
					return &ast.BinaryExpr{X: sw.Tag, Op: token.EQL, Y: e, OpPos: e.Pos()}
				}
			}
		}
	}
	if tv, ok := af.pkg.TypesInfo.Types[e]; ok {
		if bt, ok := tv.Type.Underlying().(*types.Basic); ok && bt.Info()&types.IsBoolean != 0 {
			return e
		}
	}
	return nil
}

// switchOf finds the switch statement a case clause belongs to.
func (af *astFunc) switchOf(cc *ast.CaseClause) *ast.SwitchStmt {
	var out *ast.SwitchStmt
	ast.Inspect(af.decl.Body, func(n ast.Node) bool {
		if sw, ok := n.(*ast.SwitchStmt); ok {
			for _, st := range sw.Body.List {
				if st == ast.Stmt(cc) {
					out = sw
				}
			}
		}
		return out == nil
	})
	return out
}

func normAstFact(f astFact) astFact {
	for {
		switch x := f.e.(type) {
		case *ast.ParenExpr:
			f.e = x.X
			continue
		case *ast.UnaryExpr:
			if x.Op == token.NOT {
				f = astFact{x.X, !f.val}
				continue
			}
		}
		return f
	}
}

// edgeFactAst: fact established by taking edge p->s.
func (af *astFunc) edgeFact(p, s *cfg.Block) (astFact, bool) {
	c := af.condOf(p)
	if c == nil || p.Succs[0] == p.Succs[1] {
		return astFact{}, false
	}
	if s == p.Succs[0] {
		return normAstFact(astFact{c, true}), true
	}
	if s == p.Succs[1] {
		return normAstFact(astFact{c, false}), true
	}
	return astFact{}, false
}

// factsAt: facts holding on every path to block b.
func (af *astFunc) factsAt(b *cfg.Block) []astFact {
	var out []astFact
	for d := b; d != nil; d = af.idom[d] {
		p := af.idom[d]
		if p == nil {
			break
		}
		live := 0
		var only *cfg.Block
		for _, q := range af.pred[d] {
			if q.Live {
				live++
				only = q
			}
		}
		if live == 1 && only == p {
			if f, ok := af.edgeFact(p, d); ok {
				out = append(out, splitFact(f)...)
			}
		}
	}
	return out
}

// splitFact decomposes a fact over a short-circuit expression (go/cfg keeps `a && b` as one condition):
// (a && b) true gives a, b true; (a || b) false gives a, b false.
func splitFact(f astFact) []astFact {
	f = normAstFact(f)
	if be, ok := f.e.(*ast.BinaryExpr); ok {
		if (be.Op == token.LAND && f.val) || (be.Op == token.LOR && !f.val) {
			return append(splitFact(astFact{be.X, f.val}), splitFact(astFact{be.Y, f.val})...)
		}
	}
	return []astFact{f}
}

// blockOf finds the block containing node n (by position containment of a block node).
func (af *astFunc) blockOf(n ast.Node) (*cfg.Block, int) {
	for _, b := range af.g.Blocks {
		if !b.Live {
			continue
		}
		for i, x := range b.Nodes {
			if x.Pos() <= n.Pos() && n.End() <= x.End() {
				return b, i
			}
		}
	}
	return nil, -1
}

func exprStr(e ast.Expr) string {
	if e == nil {
		return ""
	}
	return strings.ReplaceAll(types.ExprString(e), " ", "")
}

// isCmp: e is `x op y`; returns strings of both sides.
func isCmp(e ast.Expr, op token.Token) (string, string, bool) {
	if p, ok := e.(*ast.ParenExpr); ok {
		e = p.X
	}
	be, ok := e.(*ast.BinaryExpr)
	if !ok || be.Op != op {
		return "", "", false
	}
	return exprStr(be.X), exprStr(be.Y), true
}

// holdsEq reports whether the facts establish a == b (accepting a==b, b==a, !(a!=b), and for lengths a>=b when a
// cannot exceed b is NOT assumed).
func holdsEq(facts []astFact, a, b string) bool {
	for _, f := range facts {
		if x, y, ok := isCmp(f.e, token.EQL); ok && f.val && ((x == a && y == b) || (x == b && y == a)) {
			return true
		}
		if x, y, ok := isCmp(f.e, token.NEQ); ok && !f.val && ((x == a && y == b) || (x == b && y == a)) {
			return true
		}
	}
	return false
}

// reachableFrom: blocks reachable from b (exclusive unless through a cycle).
func (af *astFunc) reachableFrom(b *cfg.Block) map[*cfg.Block]bool {
	seen := map[*cfg.Block]bool{}
	stack := append([]*cfg.Block(nil), b.Succs...)
	for len(stack) > 0 {
		x := stack[len(stack)-1]
		stack = stack[:len(stack)-1]
		if seen[x] || !x.Live {
			continue
		}
		seen[x] = true
		stack = append(stack, x.Succs...)
	}
	return seen
}
