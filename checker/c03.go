package main

import (
	"fmt"
	"go/token"
	"go/types"

	"golang.org/x/tools/go/ssa"
)

func init() { register("C03", checkC03) }

func checkC03(w *World, r *Report) {
	r.Explanation = "Ownership analysis of the copy-on-write tree (P-OWN, DESIGN.md 3.2) over every function of package fox: every construct that writes a node, " +
		"an element of a []*node (root sets included) or reorders/extends such a slice in place must target storage that is private to the running transaction " +
		"(allocated in this activation, cloned by the copy-on-write search, or proved member of the writable cache). The search is shown to hand out only private " +
		"parents, the cache to hold only deep-private nodes and to be dropped at every snapshot point, read-only transactions never to reach a mutator, and Route/" +
		"root storage to be written only during construction. This is the complete immutability discipline: a write reaching shared storage anywhere in the package " +
		"is reported with the value's provenance. It decides that published state is never written, not what a snapshot's lookups return (that is the matcher, C01)."
	r.NotDecided = []string{"that what is observed through a frozen tree is the documented routing result (C01)"}
	r.Assumptions = []string{
		"no unsafe, reflection or linkname writes to node storage (checked below: package fox does not import unsafe; reflect is used only by WithAnnotation)",
		"node-typed values never leave the package (all node types are unexported; checked: no exported API returns or accepts them)",
		"a Txn is used by a single goroutine (documented contract)",
	}
	o := newOwn(w)
	o.analyseAll()
	checkC03Writes(w, r, o)
	checkC03Search(w, r, o)
	checkC03CacheReset(w, r, o)
	checkC03RootEscape(w, r, o)
	checkC03RouteImmutable(w, r)
	checkC03NoBackdoor(w, r, o)
	// a published tree object itself is never written again (rule C05.4 repeated: commit must build a new iTree)
	checkSharedStateAs(w, r, newProto(w), "C03.6")
}

func checkC03Writes(w *World, r *Report, o *Own) { checkOwnWrites(w, r, o, "C03.1") }

// checkOwnWrites is the ownership rule; it is also run under C04 (uncommitted writes must not reach published storage:
// isolation) and C05 (published storage is never written: race-freedom of lock-free readers).
func checkOwnWrites(w *World, r *Report, o *Own, id string) {
	ru := r.Rule(id, "every write hits private storage: each store to a node field, to an element of a []*node, and each in-place slice operation (sort, copy, clear, append) on a []*node targets storage that is fresh or transaction-private; functions writing through a parameter pass the obligation to each of their call sites; the writable cache only receives deep-private nodes", 25)
	ru.Idiom("new(node) / &node{...} initialised in place", "clone(): make+copy of the children", "make + copy / make(0,n) + append for root sets",
		"s[i] = new(node); s[i].f = ... in one block (slot forwarding)", "_, ok := writable.Get(p) with ok (member of the cache)", "p == nil")
	seenFn := map[string]bool{}
	for _, s := range o.sites {
		if isTestHelper(w, s.fn) {
			continue
		}
		seenFn[FuncName(s.fn)] = true
		how := "value is " + s.have.String() + ": " + valStr(s.value)
		if s.via != "" {
			how = s.via
		}
		if !s.ok {
			how = fmt.Sprintf("target %s is %s but must be %s", valStr(s.value), s.have, level{s.need, -1})
		}
		ru.Check(s.what+" in "+FuncName(s.fn), w.InstrPos(s.in), "target storage is "+level{s.need, -1}.String(), s.ok, how)
	}
	r.Analysed(sortedKeys(seenFn)...)
	// requirements that no call site discharges (function called dynamically or not at all)
	for _, fn := range w.FoxFuncs() {
		sum := o.sums[fn]
		if sum == nil || len(sum.req) == 0 {
			continue
		}
		callers := 0
		for _, g := range w.FoxFuncs() {
			eachInstr(g, func(in ssa.Instruction) {
				if site, ok := in.(ssa.CallInstruction); ok && staticCallee(site) == fn && g != fn {
					callers++
				}
			})
		}
		// address taken?
		taken := false
		for _, g := range w.FoxFuncs() {
			eachInstr(g, func(in ssa.Instruction) {
				for _, op := range in.Operands(nil) {
					if *op == ssa.Value(fn) {
						if site, ok := in.(ssa.CallInstruction); ok && site.Common().Value == ssa.Value(fn) {
							continue
						}
						taken = true
					}
				}
			})
		}
		ru.Check("callers of "+FuncName(fn), w.Pos(fn.Pos()), "a function that writes through its parameter is only called statically, so every call site is checked", !taken, fmt.Sprintf("%d static call sites, function value taken: %v", callers, taken))
	}
}

func checkC03Search(w *World, r *Report, o *Own) {
	ru := r.Rule("C03.2", "the copy-on-write search clones the whole path: the parents it hands out (fields p, pp, ppp of its result) are, on every feasible path, nil, a fresh deep clone or a member of the writable cache; the matched node itself is shared and is never written", 2)
	search := w.Method("tXn", "copyOnWriteSearch")
	sum := o.summary(search)
	for _, f := range []string{"p", "pp", "ppp"} {
		l, ok := sum.fields[f]
		ru.Check("searchResult."+f, w.Pos(search.Pos()), "parent handed to the mutators is private (struct and children array)", ok && l.L == lvDeep && l.Dep < 0, map[bool]string{true: "level " + l.String(), false: "field not found in the result literal"}[ok])
	}
	if l, ok := sum.fields["matched"]; ok {
		ru.Check("searchResult.matched", w.Pos(search.Pos()), "the matched node is treated as shared (it is not cloned): no rule may rely on it being private", l.L == lvShared, "level "+l.String())
	} else {
		ru.Fail("searchResult.matched", w.Pos(search.Pos()), "field present", "not found")
	}
	clone := w.Method("node", "clone")
	cs := o.summary(clone)
	ru.Check("(*node).clone", w.Pos(clone.Pos()), "clone returns a node whose children array is a private copy", len(cs.ret) == 1 && cs.ret[0].L == lvDeep && cs.ret[0].Dep < 0, "level "+cs.ret[0].String())
}

// checkC03CacheReset: every tXn method through which the current root set escapes into a longer-lived value drops
// the writable cache on all paths.
func checkC03CacheReset(w *World, r *Report, o *Own) {
	ru := r.Rule("C03.3b", "the writable cache is dropped at every snapshot point: each method of the inner transaction that lets its root set escape (returns it, or stores it into another tree/transaction object) sets writable = nil on every path", 2)
	inner := w.FoxType("tXn")
	rootF := w.Field(inner, "root")
	wrF := w.Field(inner, "writable")
	for _, fn := range w.MethodsOf("tXn") {
		recv := ssa.Value(fn.Params[0])
		escapes := []ssa.Instruction{}
		eachInstr(fn, func(in ssa.Instruction) {
			u, ok := in.(*ssa.UnOp)
			if !ok {
				return
			}
			base, f, ok := loadedField(u)
			if !ok || f != rootF || base != recv {
				return
			}
			if refs := u.Referrers(); refs != nil {
				for _, ref := range *refs {
					switch x := ref.(type) {
					case *ssa.Return:
						escapes = append(escapes, x)
					case *ssa.Store:
						if x.Val == ssa.Value(u) {
							if sb, _, ok := fieldOfAddr(x.Addr); ok && sb != recv {
								escapes = append(escapes, x)
							}
						}
					}
				}
			}
		})
		if len(escapes) == 0 {
			continue
		}
		r.Analysed(FuncName(fn))
		// must-dataflow: writable=nil stored on every path to every return
		pd := mustStoreBeforeReturn(fn, func(st *ssa.Store) bool {
			b, f, ok := fieldOfAddr(st.Addr)
			return ok && f == wrF && b == recv && isNilConst(st.Val)
		})
		ru.Check("root escape in "+FuncName(fn), w.InstrPos(escapes[0]), "writable = nil on every path of a function that lets the root set escape", pd == "", orDefault(pd, "writable cleared on every path"))
	}
}

// mustStoreBeforeReturn returns "" when every path from entry to every Return executes a store satisfying pred.
func mustStoreBeforeReturn(fn *ssa.Function, pred func(*ssa.Store) bool) string {
	out := map[*ssa.BasicBlock]bool{}
	for _, b := range fn.Blocks {
		out[b] = true
	}
	changed := true
	for changed {
		changed = false
		for _, b := range fn.Blocks {
			v := b != fn.Blocks[0]
			if v {
				for _, p := range b.Preds {
					v = v && out[p]
				}
			}
			for _, in := range b.Instrs {
				if st, ok := in.(*ssa.Store); ok && pred(st) {
					v = true
				}
			}
			if v != out[b] {
				out[b] = v
				changed = true
			}
		}
	}
	for _, b := range fn.Blocks {
		if len(b.Instrs) == 0 || (len(b.Preds) == 0 && b != fn.Blocks[0]) {
			continue
		}
		if _, ok := b.Instrs[len(b.Instrs)-1].(*ssa.Return); ok && !out[b] {
			return "a return is reachable without the store"
		}
	}
	return ""
}

// checkC03RootEscape: outside the inner transaction's own methods its root set is used only for immediate lookups,
// on read-only transactions, or through snapshot()/clone().
func checkC03RootEscape(w *World, r *Report, o *Own) {
	ru := r.Rule("C03.3c", "outside the inner transaction's methods, its live root set is only passed to a lookup, or escapes on a path where the transaction is read-only; write transactions hand out snapshot()/clone() instead", 2)
	inner := w.FoxType("tXn")
	rootF := w.Field(inner, "root")
	p := newProto(w)
	for _, fn := range w.FoxFuncs() {
		if rv := fn.Signature.Recv(); rv != nil && namedOf(rv.Type()) == inner {
			continue
		}
		if isTestHelper(w, fn) {
			continue
		}
		eachInstr(fn, func(in ssa.Instruction) {
			u, ok := in.(*ssa.UnOp)
			if !ok {
				return
			}
			_, f, ok := loadedField(u)
			if !ok || f != rootF {
				return
			}
			refs := u.Referrers()
			if refs == nil {
				return
			}
			for _, ref := range *refs {
				okk, why := false, ""
				switch x := ref.(type) {
				case ssa.CallInstruction:
					if obj := calleeObj(x); obj != nil && obj.Name() == "lookup" && callArgs(x)[0] == ssa.Value(u) {
						okk, why = true, "immediate receiver of lookup"
					} else if cal := x.Common().StaticCallee(); cal != nil && callArgs(x)[0] == ssa.Value(u) && cal.Signature.Recv() != nil && !returnsNodeSlice(cal) && !storesParam(cal, 0) {
						okk, why = true, "immediate receiver of "+cal.Name()+", which neither returns nor stores the root set"
					} else {
						why = "passed to " + valStr(x.Common().Value)
					}
				case *ssa.Phi:
					for i, e := range x.Edges {
						if e != ssa.Value(u) {
							continue
						}
						ef := factsOnEdge(x.Block().Preds[i], x.Block())
						ro := false
						for _, ft := range ef {
							if _, fld, ok := loadedField(ft.Cond); ok && fld == p.Write && !ft.Val {
								ro = true
							}
						}
						okk, why = ro, map[bool]string{true: "flows on only when txn.write is false (read-only transaction: the root never changes)", false: "live root of a possibly writing transaction escapes"}[ro]
					}
				case *ssa.IndexAddr, *ssa.Index, *ssa.Slice, *ssa.Range, *ssa.BinOp:
					okk, why = true, "read access"
				default:
					ro := false
					for _, ft := range factsAtBlock(ref.Block()) {
						if _, fld, ok := loadedField(ft.Cond); ok && fld == p.Write && !ft.Val {
							ro = true
						}
					}
					okk, why = ro, fmt.Sprintf("used by %T", ref)
				}
				ru.Check("use of tXn.root in "+FuncName(fn), w.InstrPos(ref), "the live root set of a write transaction does not escape", okk, why)
			}
		})
	}
}

// checkC03RouteImmutable: Route fields are written only while the route is built.
func checkC03RouteImmutable(w *World, r *Report) {
	ru := r.Rule("C03.4", "routes are immutable after construction: Route fields are stored only by NewRoute (on the route it allocated) and by option closures receiving it through the sealed option; route options are applied only by NewRoute", 6)
	route := w.FoxType("Route")
	st := route.Underlying().(*types.Struct)
	fields := map[*types.Var]bool{}
	for i := 0; i < st.NumFields(); i++ {
		fields[st.Field(i)] = true
	}
	sealed := w.FoxType("sealedOption")
	newRoute := w.Method("Router", "NewRoute")
	for _, fn := range w.FoxFuncs() {
		if isTestHelper(w, fn) {
			continue
		}
		eachInstr(fn, func(in ssa.Instruction) {
			switch x := in.(type) {
			case *ssa.Store:
				base, f, ok := fieldOfAddr(x.Addr)
				if ok && fields[f] {
					okk, why := false, "store to a Route that may already be registered"
					if a, isAlloc := seeThrough(base).(*ssa.Alloc); isAlloc && a.Parent() == fn && fn == newRoute {
						okk, why = true, "NewRoute initialising the route it allocated"
					} else if isAlloc && a.Parent() == fn && a.Heap {
						okk, why = true, "initialising a route this function has just allocated (not yet registered)"
					} else if c, isCall := seeThrough(base).(*ssa.Call); isCall && fn == newRoute && returnsFreshAlloc(w, c, route) {
						okk, why = true, "NewRoute initialising the route a constructor helper has just allocated"
					} else if sb, sf, ok := logicalField(base); ok && namedOf(sb.Type()) == sealed && sf.Name() == "route" && fn.Parent() != nil {
						if _, isParam := sb.(*ssa.Parameter); isParam {
							okk, why = true, "option closure writing the route under construction"
						}
					}
					ru.Check("store Route."+f.Name()+" in "+FuncName(fn), w.Pos(in.Pos()), "Route fields are written only during NewRoute", okk, why)
				}
				if ok && namedOf(base.Type()) == sealed && f.Name() == "route" {
					okk := fn == newRoute || isNilConst(x.Val)
					ru.Check("sealedOption.route set in "+FuncName(fn), w.Pos(in.Pos()), "only NewRoute hands its (unregistered) route to options", okk, valStr(x.Val))
				}
			case ssa.CallInstruction:
				if x.Common().IsInvoke() && x.Common().Method.Name() == "applyRoute" {
					ru.Check("applyRoute call in "+FuncName(fn), w.Pos(in.Pos()), "route options are applied only by NewRoute", fn == newRoute, FuncName(fn))
				}
			case *ssa.MapUpdate:
				// annotations map of a route
				if _, f, ok := loadedField(x.Map); ok && fields[f] {
					okk := fn.Parent() != nil
					ru.Check("map update of Route."+f.Name()+" in "+FuncName(fn), w.Pos(in.Pos()), "route maps are filled only by option closures during NewRoute", okk, FuncName(fn))
				}
			}
		})
	}
}

// checkC03NoBackdoor: no unsafe / linkname, node types never cross the API.
func checkC03NoBackdoor(w *World, r *Report, o *Own) {
	ru := r.Rule("C03.5", "assumption checks: package fox does not import unsafe, and no exported function, method or type exposes node-typed values", 1)
	usesUnsafe := false
	for _, imp := range w.Fox.Types.Imports() {
		if imp.Path() == "unsafe" {
			usesUnsafe = true
		}
	}
	ru.Check("imports of package fox", "-", "no import of unsafe", !usesUnsafe, fmt.Sprintf("%d imports", len(w.Fox.Types.Imports())))
	leaks := ""
	mentions := func(t types.Type) bool {
		found := false
		var walk func(t types.Type, depth int)
		walk = func(t types.Type, depth int) {
			if depth > 6 || found {
				return
			}
			switch x := types.Unalias(t).(type) {
			case *types.Pointer:
				walk(x.Elem(), depth+1)
			case *types.Slice:
				walk(x.Elem(), depth+1)
			case *types.Named:
				if x == o.nodeT {
					found = true
				}
			case *types.Signature:
				for i := 0; i < x.Params().Len(); i++ {
					walk(x.Params().At(i).Type(), depth+1)
				}
				for i := 0; i < x.Results().Len(); i++ {
					walk(x.Results().At(i).Type(), depth+1)
				}
			}
		}
		walk(t, 0)
		return found
	}
	sc := w.Fox.Types.Scope()
	for _, name := range sc.Names() {
		obj := sc.Lookup(name)
		if !obj.Exported() {
			continue
		}
		if mentions(obj.Type()) {
			leaks += " " + name
		}
		if tn, ok := obj.(*types.TypeName); ok {
			if n, ok := tn.Type().(*types.Named); ok {
				for i := 0; i < n.NumMethods(); i++ {
					if n.Method(i).Exported() && mentions(n.Method(i).Type()) {
						leaks += " " + name + "." + n.Method(i).Name()
					}
				}
				if s, ok := n.Underlying().(*types.Struct); ok {
					for i := 0; i < s.NumFields(); i++ {
						if s.Field(i).Exported() && mentions(s.Field(i).Type()) {
							leaks += " " + name + "." + s.Field(i).Name()
						}
					}
				}
			}
		}
	}
	ru.Check("exported API of package fox", "-", "node-typed values never cross the API", leaks == "", orDefault(leaks, "no exported symbol mentions the node type"))
	_ = token.NoPos
}

// returnsNodeSlice: some result of fn is a slice of nodes (the root set could leave through it).
func returnsNodeSlice(fn *ssa.Function) bool {
	res := fn.Signature.Results()
	for i := 0; i < res.Len(); i++ {
		if sl, ok := res.At(i).Type().Underlying().(*types.Slice); ok {
			if isPointer(sl.Elem()) {
				return true
			}
		}
	}
	return false
}

// storesParam: fn stores its idx-th parameter (or a slice of it) somewhere or hands it to another call.
func storesParam(fn *ssa.Function, idx int) bool {
	if idx >= len(fn.Params) {
		return true
	}
	p := ssa.Value(fn.Params[idx])
	leak := false
	var walk func(v ssa.Value, depth int)
	walk = func(v ssa.Value, depth int) {
		refs := v.Referrers()
		if refs == nil || depth > 3 {
			return
		}
		for _, ref := range *refs {
			switch x := ref.(type) {
			case *ssa.Store:
				if x.Val == v {
					leak = true
				}
			case *ssa.Slice:
				walk(x, depth+1)
			case *ssa.MakeInterface, *ssa.MakeClosure, *ssa.Return:
				leak = true
			case ssa.CallInstruction:
				for i, a := range x.Common().Args {
					if a == v {
						cal := x.Common().StaticCallee()
						if b, isB := x.Common().Value.(*ssa.Builtin); isB && (b.Name() == "len" || b.Name() == "cap") {
							continue
						}
						if cal == nil || cal == fn || depth > 2 || returnsNodeSlice(cal) || storesParam(cal, i) {
							if cal != fn {
								leak = true
							}
						}
					}
				}
			}
		}
	}
	walk(p, 0)
	return leak
}

// returnsFreshAlloc: c calls a module function every return of which hands back a struct of type t it allocated itself.
func returnsFreshAlloc(w *World, c *ssa.Call, t *types.Named) bool {
	callee := c.Call.StaticCallee()
	if callee == nil || !w.InModule(callee) || len(callee.Blocks) == 0 {
		return false
	}
	n, ok := 0, true
	eachInstr(callee, func(in ssa.Instruction) {
		rt, isRet := in.(*ssa.Return)
		if !isRet || len(rt.Results) == 0 {
			return
		}
		n++
		a, isAlloc := seeThrough(rt.Results[0]).(*ssa.Alloc)
		if !isAlloc || a.Parent() != callee || namedOf(a.Type()) != t {
			ok = false
		}
	})
	return ok && n > 0
}
