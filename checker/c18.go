package main

import (
	"fmt"
	"go/ast"
	"go/token"
	"go/types"
	"net/netip"
	"strconv"
	"strings"

	"golang.org/x/tools/go/cfg"
	"golang.org/x/tools/go/ssa"
)

func init() { register("C18", checkC18) }

// ianaSpecial lists the blocks of the IANA IPv4 and IPv6 Special-Purpose Address Registries (plus the multicast and
// reserved class-E spaces, which have their own registries). A default "private/local" range must lie inside one of
// them: everything else is ordinary, globally routable unicast space.
var ianaSpecial = []struct{ cidr, ref string }{
	{"0.0.0.0/8", "RFC 791 'this network'"}, {"10.0.0.0/8", "RFC 1918"}, {"100.64.0.0/10", "RFC 6598 shared address space"},
	{"127.0.0.0/8", "RFC 1122 loopback"}, {"169.254.0.0/16", "RFC 3927 link local"}, {"172.16.0.0/12", "RFC 1918"},
	{"192.0.0.0/24", "RFC 6890 IETF protocol assignments"}, {"192.0.2.0/24", "RFC 5737 TEST-NET-1"}, {"192.31.196.0/24", "RFC 7535 AS112-v4"},
	{"192.52.193.0/24", "RFC 7450 AMT"}, {"192.88.99.0/24", "RFC 7526 deprecated 6to4 relay anycast"}, {"192.168.0.0/16", "RFC 1918"},
	{"192.175.48.0/24", "RFC 7534 AS112"}, {"198.18.0.0/15", "RFC 2544 benchmarking"}, {"198.51.100.0/24", "RFC 5737 TEST-NET-2"},
	{"203.0.113.0/24", "RFC 5737 TEST-NET-3"}, {"224.0.0.0/4", "RFC 5771 multicast"}, {"240.0.0.0/4", "RFC 1112 reserved"},
	{"255.255.255.255/32", "RFC 919 limited broadcast"},
	{"::1/128", "RFC 4291 loopback"}, {"::/128", "RFC 4291 unspecified"}, {"::ffff:0:0/96", "RFC 4291 IPv4-mapped"}, {"64:ff9b::/96", "RFC 6052"},
	{"64:ff9b:1::/48", "RFC 8215"}, {"100::/64", "RFC 6666 discard-only"}, {"2001::/23", "RFC 2928 IETF protocol assignments"},
	{"2001:db8::/32", "RFC 3849 documentation"}, {"2002::/16", "RFC 3056 6to4"}, {"2620:4f:8000::/48", "RFC 7534 AS112"},
	{"3fff::/20", "RFC 9637 documentation"}, {"5f00::/16", "RFC 9602 SRv6 SIDs"}, {"fc00::/7", "RFC 4193 unique local"},
	{"fe80::/10", "RFC 4291 link local"}, {"ff00::/8", "RFC 4291 multicast"},
}

// ianaGloballyReachable lists the entries of the two special-purpose registries that lie inside one of the blocks above
// but are marked "Globally Reachable: True": service anycast addresses and protocol blocks that are ordinary routable
// destinations/sources. A default "private/local" range must not contain any of them.
var ianaGloballyReachable = []struct{ cidr, ref string }{
	{"192.0.0.9/32", "RFC 7723 Port Control Protocol anycast"}, {"192.0.0.10/32", "RFC 8155 TURN anycast"},
	{"2001:1::1/128", "RFC 7723 Port Control Protocol anycast"}, {"2001:1::2/128", "RFC 8155 TURN anycast"},
	{"2001:3::/32", "RFC 7450 AMT"}, {"2001:4:112::/48", "RFC 7535 AS112-v6"}, {"2001:20::/28", "RFC 7343 ORCHIDv2"},
	{"2001:30::/28", "RFC 9374 DRIP entity tags"},
}

func checkC18(w *World, r *Report) {
	r.Explanation = "Constant audit and structure checks of the client-IP resolvers: every CIDR literal of the default trusted/blacklisted range tables is parsed and must lie inside a block of the " +
		"IANA special-purpose registries (or multicast / class E), so no globally routable unicast space is trusted by default (this is what caught 192.18.0.0/15); every return of every ClientIP method is " +
		"either (nil, error) or an address that comes from the designated header iterator, from ParseIPAddr of the designated header/remote address, or from a delegated resolver — never a fabricated " +
		"fallback; the three rightmost strategies consume only the backward iterator (last header line first, each split from the right), the forward iterator is used only by the leftmost strategy under " +
		"Take(limit); the trusted count selects entry n-1 from the right; the default tables are only a fallback for an empty option list."
	r.NotDecided = []string{"parsing of every possible header content", "spoof resistance as observed", "absence of panics for arbitrary input", "carve-outs inside special-purpose blocks (block-level membership only)"}
	r.Assumptions = []string{"the embedded copy of the IANA registries (checker source, with RFC numbers) is current"}
	pkg := w.ByPath[modulePath+"/clientip"]
	if pkg == nil {
		anchorFail("package clientip")
	}
	checkC18Ranges(w, r, pkg)
	checkC18Returns(w, r, pkg)
	checkC18Direction(w, r)
	checkC18Defaults(w, r)
	checkC18EveryItem(w, r)
}

func checkC18Ranges(w *World, r *Report, pkg interface{ String() string }) {
	ru := r.Rule("C18.1", "default ranges are registered special-purpose blocks: every CIDR literal in the package-level range tables of package clientip lies inside a block of the IANA IPv4/IPv6 special-purpose registries, multicast or class E space, and contains none of the registry entries marked globally reachable", 10)
	p := w.ByPath[modulePath+"/clientip"]
	var blocks []netip.Prefix
	for _, b := range ianaSpecial {
		blocks = append(blocks, netip.MustParsePrefix(b.cidr))
	}
	for _, f := range p.Syntax {
		for _, d := range f.Decls {
			gd, ok := d.(*ast.GenDecl)
			if !ok || gd.Tok != token.VAR {
				continue
			}
			for _, sp := range gd.Specs {
				vs := sp.(*ast.ValueSpec)
				for i, val := range vs.Values {
					cl, ok := val.(*ast.CompositeLit)
					if !ok {
						continue
					}
					name := vs.Names[i].Name
					for _, el := range cl.Elts {
						call, ok := el.(*ast.CallExpr)
						if !ok || len(call.Args) != 1 {
							continue
						}
						tv, ok := p.TypesInfo.Types[call.Args[0]]
						if !ok || tv.Value == nil {
							continue
						}
						lit, err := strconv.Unquote(tv.Value.ExactString())
						if err != nil {
							continue
						}
						if !strings.Contains(lit, "/") {
							continue
						}
						pfx, err := netip.ParsePrefix(lit)
						if err != nil {
							ru.Fail("range "+lit+" in "+name, w.Pos(call.Pos()), "a valid CIDR", err.Error())
							continue
						}
						inside := ""
						for k, b := range blocks {
							if b.Bits() <= pfx.Bits() && b.Contains(pfx.Masked().Addr()) && b.Addr().Is4() == pfx.Addr().Is4() {
								inside = ianaSpecial[k].cidr + " (" + ianaSpecial[k].ref + ")"
							}
						}
						ru.Check("range "+lit+" in "+name, w.Pos(call.Pos()), "lies inside a registered special-purpose block", inside != "", orDefault(inside, "not inside any special-purpose block: this is globally routable unicast space"))
						// and contains no registry entry that is globally reachable
						var global []string
						for _, g := range ianaGloballyReachable {
							gp := netip.MustParsePrefix(g.cidr)
							if gp.Addr().Is4() == pfx.Addr().Is4() && pfx.Bits() <= gp.Bits() && pfx.Contains(gp.Addr()) {
								global = append(global, g.cidr+" ("+g.ref+")")
							}
						}
						if inside != "" {
							ru.Check("globally reachable part of "+lit+" in "+name, w.Pos(call.Pos()), "contains no registry entry marked globally reachable", len(global) == 0,
								orDefault(strings.Join(global, ", "), "none"))
						}
					}
				}
			}
		}
	}
}

// checkC18Returns: AST rule over every ClientIP method of package clientip.
func checkC18Returns(w *World, r *Report, _ any) {
	ru := r.Rule("C18.2", "an address or an error, never a substitute: every return of a ClientIP method is (nil, non-nil error), or returns an address obtained from the header iterator of that strategy, from ParseIPAddr, from iterutil.At on that iterator, or from a delegated resolver", 5)
	p := w.ByPath[modulePath+"/clientip"]
	info := p.TypesInfo
	allowedCall := func(call *ast.CallExpr) bool {
		switch fn := call.Fun.(type) {
		case *ast.Ident:
			return fn.Name == "ParseIPAddr" || fn.Name == "ipAddrSeq" || fn.Name == "backwardIpAddrSeq"
		case *ast.SelectorExpr:
			return fn.Sel.Name == "ClientIP" || fn.Sel.Name == "At" || fn.Sel.Name == "Take"
		}
		return false
	}
	for _, f := range p.Syntax {
		for _, d := range f.Decls {
			fd, ok := d.(*ast.FuncDecl)
			if !ok || fd.Name.Name != "ClientIP" || fd.Recv == nil || fd.Body == nil {
				continue
			}
			recv := types.ExprString(fd.Recv.List[0].Type)
			// provenance of local variables: defined by range over an allowed iterator or by an allowed call
			good := map[types.Object]bool{}
			ast.Inspect(fd.Body, func(n ast.Node) bool {
				switch x := n.(type) {
				case *ast.RangeStmt:
					if call, ok := x.X.(*ast.CallExpr); ok && allowedCall(call) {
						for _, k := range []ast.Expr{x.Key, x.Value} {
							if id, ok := k.(*ast.Ident); ok && id.Name != "_" {
								if obj := info.ObjectOf(id); obj != nil {
									good[obj] = true
								}
							}
						}
					}
				case *ast.AssignStmt:
					if len(x.Rhs) == 1 {
						if call, ok := x.Rhs[0].(*ast.CallExpr); ok && allowedCall(call) {
							if id, ok := x.Lhs[0].(*ast.Ident); ok && id.Name != "_" {
								if obj := info.ObjectOf(id); obj != nil {
									good[obj] = true
								}
							}
						}
					}
				}
				return true
			})
			// reassignment of a good variable from something else taints it
			ast.Inspect(fd.Body, func(n ast.Node) bool {
				as, ok := n.(*ast.AssignStmt)
				if !ok {
					return true
				}
				for i, l := range as.Lhs {
					id, ok := l.(*ast.Ident)
					if !ok {
						continue
					}
					obj := info.ObjectOf(id)
					if obj == nil || !good[obj] {
						continue
					}
					var rhs ast.Expr
					if len(as.Rhs) == len(as.Lhs) {
						rhs = as.Rhs[i]
					} else if len(as.Rhs) == 1 {
						rhs = as.Rhs[0]
					}
					if call, ok := rhs.(*ast.CallExpr); !ok || !allowedCall(call) {
						good[obj] = false
					}
				}
				return true
			})
			ast.Inspect(fd.Body, func(n ast.Node) bool {
				if _, isLit := n.(*ast.FuncLit); isLit {
					return false
				}
				ret, ok := n.(*ast.ReturnStmt)
				if !ok {
					return true
				}
				construct := "return in (" + recv + ").ClientIP"
				pos := w.Pos(ret.Pos())
				switch len(ret.Results) {
				case 1:
					call, ok := ret.Results[0].(*ast.CallExpr)
					ru.Check(construct, pos, "delegation to ParseIPAddr or to a resolver", ok && allowedCall(call), types.ExprString(ret.Results[0]))
				case 2:
					a, e := ret.Results[0], ret.Results[1]
					aNil := isNilIdent(info, a)
					eNil := isNilIdent(info, e)
					switch {
					case aNil && !eNil:
						ru.Pass(construct, pos, "(nil, error)", "error: "+types.ExprString(e))
					case aNil && eNil:
						ru.Fail(construct, pos, "never (nil, nil)", "returns neither an address nor an error")
					default:
						id, isId := a.(*ast.Ident)
						okk := isId && good[info.ObjectOf(id)] && eNil
						ru.Check(construct, pos, "the returned address comes from the strategy's iterator / parser / delegate, with a nil error", okk, "returns "+types.ExprString(a)+", "+types.ExprString(e))
					}
				default:
					ru.Fail(construct, pos, "two results", fmt.Sprintf("%d results", len(ret.Results)))
				}
				return true
			})
		}
	}
	checkC18ErrorNonNil(w, r, ru)
}

func isNilIdent(info *types.Info, e ast.Expr) bool {
	id, ok := e.(*ast.Ident)
	if !ok {
		return false
	}
	_, isNil := info.ObjectOf(id).(*types.Nil)
	return isNil
}

func checkC18Direction(w *World, r *Report) {
	ru := r.Rule("C18.3", "direction: the rightmost strategies read only the backward iterator (which walks header lines last to first and splits each from the right); the forward iterator is used only by the leftmost strategy, under Take(limit); the trusted-count strategy takes entry count-1 from the right; the single-header strategy takes the last instance; the chain returns its first success", 4)
	cp := modulePath + "/clientip"
	calls := func(fn *ssa.Function) map[string][]*ssa.Call {
		out := map[string][]*ssa.Call{}
		for _, g := range withAnon(fn) {
			eachInstr(g, func(in ssa.Instruction) {
				if c, ok := in.(*ssa.Call); ok {
					if callee := c.Call.StaticCallee(); callee != nil {
						name := callee.Name()
						if o := callee.Origin(); o != nil {
							name = o.Name()
						}
						out[name] = append(out[name], c)
					}
				}
			})
		}
		return out
	}
	for _, recv := range []string{"RightmostNonPrivate", "RightmostTrustedCount", "RightmostTrustedRange"} {
		fn := w.TryMethodIn(cp, recv, "ClientIP")
		if fn == nil {
			anchorFail("method clientip.%s.ClientIP", recv)
		}
		r.Analysed(FuncName(fn))
		cs := calls(fn)
		ru.Check("iterator of "+recv, w.Pos(fn.Pos()), "uses backwardIpAddrSeq and never ipAddrSeq", len(cs["backwardIpAddrSeq"]) == 1 && len(cs["ipAddrSeq"]) == 0,
			fmt.Sprintf("backward=%d forward=%d", len(cs["backwardIpAddrSeq"]), len(cs["ipAddrSeq"])))
		if recv == "RightmostTrustedCount" {
			ok, why := false, "no call of iterutil.At"
			for _, c := range cs["At"] {
				if bo, isBin := c.Call.Args[1].(*ssa.BinOp); isBin && bo.Op == token.SUB {
					_, f, isLoad := logicalField(bo.X)
					one, isOne := constInt(bo.Y)
					ok = isLoad && f.Name() == "trustedCount" && isOne && one == 1
					why = "index " + valStr(c.Call.Args[1])
				}
			}
			ru.Check("index of "+recv, w.Pos(fn.Pos()), "selects entry trustedCount-1 of the backward sequence", ok, why)
		}
	}
	left := w.TryMethodIn(cp, "LeftmostNonPrivate", "ClientIP")
	if left == nil {
		anchorFail("method clientip.LeftmostNonPrivate.ClientIP")
	}
	cs := calls(left)
	okTake := false
	for _, c := range cs["Take"] {
		if inner, ok := c.Call.Args[0].(*ssa.Call); ok && inner.Call.StaticCallee() != nil && inner.Call.StaticCallee().Name() == "ipAddrSeq" {
			if _, f, ok := logicalField(c.Call.Args[1]); ok && f.Name() == "limit" {
				okTake = true
			}
		}
	}
	ru.Check("iterator of LeftmostNonPrivate", w.Pos(left.Pos()), "ranges over Take(ipAddrSeq(...), limit) and never the backward iterator", okTake && len(cs["backwardIpAddrSeq"]) == 0, fmt.Sprintf("take(ipAddrSeq,limit)=%v backward=%d", okTake, len(cs["backwardIpAddrSeq"])))
	// iterator bodies
	bw := w.FuncIn(cp, "backwardIpAddrSeq")
	fwS := w.FuncIn(cp, "ipAddrSeq")
	bcs, fcs := calls(bw), calls(fwS)
	// outer loop direction of the backward iterator: index phi initialised to len(values)-1 and decremented
	dirOK := false
	for _, g := range withAnon(bw) {
		eachInstr(g, func(in ssa.Instruction) {
			p, ok := in.(*ssa.Phi)
			if !ok || p.Comment != "i" {
				return
			}
			init, step := false, false
			for _, e := range p.Edges {
				if bo, ok := e.(*ssa.BinOp); ok && bo.Op == token.SUB {
					if one, ok := constInt(bo.Y); ok && one == 1 {
						if bo.X == ssa.Value(p) {
							step = true
						} else {
							init = true
						}
					}
				}
			}
			dirOK = init && step
		})
	}
	ru.Check("backwardIpAddrSeq", w.Pos(bw.Pos()), "walks the header lines from the last to the first and splits each with BackwardSplitStringSeq", dirOK && len(bcs["BackwardSplitStringSeq"]) == 1 && len(bcs["SplitStringSeq"]) == 0,
		fmt.Sprintf("reverseLineLoop=%v backwardSplit=%d forwardSplit=%d", dirOK, len(bcs["BackwardSplitStringSeq"]), len(bcs["SplitStringSeq"])))
	ru.Check("ipAddrSeq", w.Pos(fwS.Pos()), "splits each line with SplitStringSeq", len(fcs["SplitStringSeq"]) == 1 && len(fcs["BackwardSplitStringSeq"]) == 0, fmt.Sprintf("forwardSplit=%d backwardSplit=%d", len(fcs["SplitStringSeq"]), len(fcs["BackwardSplitStringSeq"])))
	ip := modulePath + "/internal/iterutil"
	for name, want := range map[string]string{"backwardSplitSeq": "LastIndex", "splitStringSeq": "Index"} {
		fn := w.FuncIn(ip, name)
		found := map[string]bool{}
		for _, g := range withAnon(fn) {
			eachInstr(g, func(in ssa.Instruction) {
				if c, ok := in.(*ssa.Call); ok {
					if obj := calleeObj(c); obj != nil && obj.Pkg() != nil && obj.Pkg().Path() == "strings" {
						found[obj.Name()] = true
					}
				}
			})
		}
		other := map[string]string{"LastIndex": "Index", "Index": "LastIndex"}[want]
		ru.Check("iterutil."+name, w.Pos(fn.Pos()), "searches the separator with strings."+want, found[want] && !found[other], fmt.Sprint(found))
	}
	// single header: last instance
	lh := w.TryFuncIn(cp, "lastHeader")
	if lh == nil {
		// the helper may have been inlined into its only caller
		lh = w.TryMethodIn(cp, "SingleIPHeader", "ClientIP")
	}
	if lh == nil {
		anchorFail("function clientip.lastHeader or method SingleIPHeader.ClientIP")
	}
	okLast := false
	eachInstr(lh, func(in ssa.Instruction) {
		if ia, ok := in.(*ssa.IndexAddr); ok {
			if bo, ok := ia.Index.(*ssa.BinOp); ok && bo.Op == token.SUB {
				if one, ok := constInt(bo.Y); ok && one == 1 {
					if c, ok := bo.X.(*ssa.Call); ok {
						if b, ok := c.Call.Value.(*ssa.Builtin); ok && b.Name() == "len" {
							okLast = true
						}
					}
				}
			}
		}
	})
	ru.Check("lastHeader", w.Pos(lh.Pos()), "returns the last header instance (index len-1)", okLast, fmt.Sprint(okLast))
}

func checkC18Defaults(w *World, r *Report) {
	ru := r.Rule("C18.4", "defaults are only a fallback: the default range tables are read only as the second argument of orSlice(configured, defaults), and orSlice returns its first non-empty argument", 1)
	cp := modulePath + "/clientip"
	sp := w.SSAPkgs[cp]
	n := 0
	for _, name := range []string{"privateAndLocalRanges"} {
		g, ok := sp.Members[name].(*ssa.Global)
		if !ok {
			anchorFail("global clientip.%s", name)
		}
		for _, fn := range w.ModuleFuncs() {
			if !w.InPkg(fn, cp) || fn.Name() == "init" {
				continue
			}
			eachInstr(fn, func(in ssa.Instruction) {
				u, ok := in.(*ssa.UnOp)
				if !ok || u.X != ssa.Value(g) {
					return
				}
				n++
				okk, why := false, "read outside orSlice"
				if refs := u.Referrers(); refs != nil {
					for _, ref := range *refs {
						// varargs array element 1
						if st, ok := ref.(*ssa.Store); ok {
							if ia, ok := st.Addr.(*ssa.IndexAddr); ok {
								if k, ok := constInt(ia.Index); ok {
									okk, why = k >= 1, fmt.Sprintf("argument %d of a variadic call", k)
								}
							}
						}
					}
				}
				ru.Check("use of "+name+" in "+FuncName(fn), w.Pos(u.Pos()), "passed after the configured ranges to orSlice", okk, why)
			})
		}
	}
	if n == 0 {
		ru.Fail("uses of the default tables", "-", "constructors fall back to the default tables", "no use found")
	}
	// orSlice: returns the first element with len > 0
	var or *ssa.Function
	for _, fn := range w.ModuleFuncs() {
		if w.InPkg(fn, cp) && fn.Name() == "orSlice" && fn.Blocks != nil && fn.TypeParams().Len() == 0 {
			or = fn
		}
		if o := fn.Origin(); o != nil && o.Name() == "orSlice" && fn.Blocks != nil {
			or = fn
		}
	}
	if or == nil {
		anchorFail("function clientip.orSlice")
	}
	okOr := false
	eachInstr(or, func(in ssa.Instruction) {
		ret, ok := in.(*ssa.Return)
		if !ok {
			return
		}
		for _, f := range factsAtBlock(ret.Block()) {
			if bo, ok := f.Cond.(*ssa.BinOp); ok {
				if z, ok := constInt(bo.Y); ok && z == 0 {
					if (bo.Op == token.GTR && f.Val) || (bo.Op == token.NEQ && f.Val) || (bo.Op == token.EQL && !f.Val) || (bo.Op == token.LEQ && !f.Val) {
						okOr = true
					}
				}
			}
		}
	})
	ru.Check("orSlice", w.Pos(or.Pos()), "returns the first argument whose length is > 0", okOr, fmt.Sprint(okOr))
}

// checkC18EveryItem: the header iterators hand every list item to the consumer, valid or not (an invalid or empty
// item is yielded as nil). The strategies count positions from the right (trusted count) and stop at the first
// non-address (trusted range); an iterator that silently skips an item shifts every position to its left.
func checkC18EveryItem(w *World, r *Report) {
	ru := r.Rule("C18.5", "every list item is yielded: in both header iterators, every path through the body of the loop over the split header line reaches the call of yield before the next iteration or a return (no item is filtered out)", 2)
	cp := modulePath + "/clientip"
	p := w.ByPath[cp]
	if p == nil {
		anchorFail("package %s", cp)
	}
	for _, name := range []string{"backwardIpAddrSeq", "ipAddrSeq"} {
		var fd *ast.FuncDecl
		for _, f := range p.Syntax {
			for _, d := range f.Decls {
				if x, ok := d.(*ast.FuncDecl); ok && x.Name.Name == name && x.Recv == nil {
					fd = x
				}
			}
		}
		if fd == nil {
			anchorFail("function clientip.%s (syntax)", name)
		}
		var lit *ast.FuncLit
		ast.Inspect(fd.Body, func(n ast.Node) bool {
			if l, ok := n.(*ast.FuncLit); ok && lit == nil && len(l.Type.Params.List) == 1 {
				lit = l
			}
			return lit == nil
		})
		if lit == nil {
			r.Unrecognised("C18.5: %s does not return a func(yield) literal", name)
			continue
		}
		yieldName := lit.Type.Params.List[0].Names[0].Name
		af := newAstFunc(w, p, &ast.FuncDecl{Name: fd.Name, Type: lit.Type, Body: lit.Body})
		// innermost range over a Split*StringSeq call
		var rng *ast.RangeStmt
		ast.Inspect(lit.Body, func(n ast.Node) bool {
			if rs, ok := n.(*ast.RangeStmt); ok {
				if call, ok := rs.X.(*ast.CallExpr); ok && strings.HasSuffix(exprStr(call.Fun), "SplitStringSeq") {
					rng = rs
				}
			}
			return true
		})
		if rng == nil {
			r.Unrecognised("C18.5: %s has no loop over a split header line", name)
			continue
		}
		var body *cfg.Block
		yieldBlocks := map[*cfg.Block]bool{}
		for _, b := range af.g.Blocks {
			if !b.Live {
				continue
			}
			if b.Kind == cfg.KindRangeBody && b.Stmt == ast.Stmt(rng) {
				body = b
			}
			for _, nd := range b.Nodes {
				ast.Inspect(nd, func(n ast.Node) bool {
					if call, ok := n.(*ast.CallExpr); ok {
						if id, ok := call.Fun.(*ast.Ident); ok && id.Name == yieldName && rng.Body.Pos() <= call.Pos() && call.Pos() < rng.Body.End() {
							yieldBlocks[b] = true
						}
					}
					return true
				})
			}
		}
		if body == nil || len(yieldBlocks) == 0 {
			r.Unrecognised("C18.5: %s: loop body or yield call not found in the control-flow graph", name)
			continue
		}
		bad := ""
		seen := map[*cfg.Block]bool{}
		var dfs func(b *cfg.Block)
		dfs = func(b *cfg.Block) {
			if seen[b] || bad != "" || yieldBlocks[b] {
				return
			}
			seen[b] = true
			if b != body && (b.Stmt == ast.Stmt(rng) && (b.Kind == cfg.KindRangeLoop || b.Kind == cfg.KindRangeDone)) {
				bad = "the next iteration is reached without yielding the item"
				if len(b.Nodes) > 0 {
					bad += " (via " + w.Pos(b.Nodes[0].Pos()) + ")"
				}
				return
			}
			if len(b.Succs) == 0 {
				bad = "the iterator returns without yielding the item"
				return
			}
			for _, s := range b.Succs {
				if s.Live {
					dfs(s)
				}
			}
		}
		dfs(body)
		// name the skipping statement if there is one
		if bad != "" {
			ast.Inspect(rng.Body, func(n ast.Node) bool {
				if br, ok := n.(*ast.BranchStmt); ok && br.Tok == token.CONTINUE {
					bad += "; continue at " + w.Pos(br.Pos())
				}
				return true
			})
		}
		ru.Check("list-item loop of "+name, w.Pos(rng.Pos()), "yield is called for every item of the split header line", bad == "", orDefault(bad, "yield post-dominates the loop body entry"))
	}
}

// checkC18ErrorNonNil: the SSA half of C18.2. A return (nil, e) is only "an error" if e cannot be nil: e must be a
// freshly built error, a package-level sentinel, a value tested non-nil, or a phi of such values.
func checkC18ErrorNonNil(w *World, r *Report, ru *Rule) {
	cp := modulePath + "/clientip"
	var nonNil func(fn *ssa.Function, v ssa.Value, at *ssa.BasicBlock, seen map[ssa.Value]bool) (bool, string)
	nonNil = func(fn *ssa.Function, v ssa.Value, at *ssa.BasicBlock, seen map[ssa.Value]bool) (bool, string) {
		if seen[v] {
			return true, ""
		}
		seen[v] = true
		// tested non-nil on the way to the use
		for _, ft := range factsAtBlock(at) {
			if bo, ok := ft.Cond.(*ssa.BinOp); ok && isNilConst(bo.Y) && bo.X == v {
				if (bo.Op == token.NEQ && ft.Val) || (bo.Op == token.EQL && !ft.Val) {
					return true, ""
				}
			}
		}
		switch x := v.(type) {
		case *ssa.Const:
			if x.IsNil() {
				return false, "the constant nil"
			}
			return true, ""
		case *ssa.MakeInterface:
			return true, ""
		case *ssa.UnOp:
			if _, isGlobal := x.X.(*ssa.Global); isGlobal && x.Op == token.MUL {
				return true, "" // package-level sentinel
			}
			return false, "loaded from " + valStr(x.X)
		case *ssa.Call:
			obj := calleeObj(x)
			if isFuncNamed(obj, "errors", "Join") {
				// nil only if every argument is nil
				for _, el := range sliceElems(x.Call.Args[0]) {
					if ok, _ := nonNil(fn, el, x.Block(), seen); ok {
						return true, ""
					}
				}
				return false, "errors.Join of values that may all be nil"
			}
			if isFuncNamed(obj, "fmt", "Errorf") || isFuncNamed(obj, "errors", "New") {
				return true, ""
			}
			return false, "result of " + valStr(x)
		case *ssa.Extract:
			return false, "an error returned by a call, not tested"
		case *ssa.Phi:
			for i, e := range x.Edges {
				if ok, why := nonNil(fn, e, x.Block().Preds[i], seen); !ok {
					return false, "on one path it is " + why
				}
			}
			return true, ""
		}
		return false, valStr(v)
	}
	for _, fn := range w.ModuleFuncs() {
		if !w.InPkg(fn, cp) || fn.Name() != "ClientIP" || fn.Signature.Recv() == nil || fn.Synthetic != "" {
			continue
		}
		eachInstr(fn, func(in ssa.Instruction) {
			ret, ok := in.(*ssa.Return)
			if !ok || len(ret.Results) != 2 || !isNilConst(ret.Results[0]) {
				return
			}
			okk, why := nonNil(fn, ret.Results[1], ret.Block(), map[ssa.Value]bool{})
			ru.Check("error of a (nil, err) return in "+FuncName(fn), w.InstrPos(ret), "the error cannot be nil (built, sentinel, or tested non-nil on every path)", okk, orDefault(why, "non-nil"))
		})
	}
}
