package main

import (
	"bufio"
	"bytes"
	"encoding/json"
	"fmt"
	"os"
	"os/exec"
	"path/filepath"
	"sort"
	"strings"
	"sync"
)

type innerSummary struct {
	Obligations int `json:"obligations"`
	Failed      []struct{ Key, Pos, Why string }
	Status      int `json:"status"`
}

// runInner runs this binary as a sub-process on another tree / target and parses its summary.
func runInner(prop, repo, goos, goarch string) (*innerSummary, string, error) {
	self, err := os.Executable()
	if err != nil {
		return nil, "", err
	}
	args := []string{"-inner", "-property", prop, "-tier", "quick", "-repo", repo}
	if goos != "" {
		args = append(args, "-goos", goos)
	}
	if goarch != "" {
		args = append(args, "-goarch", goarch)
	}
	cmd := exec.Command(self, args...)
	var out, errb bytes.Buffer
	cmd.Stdout, cmd.Stderr = &out, &errb
	_ = cmd.Run()
	sc := bufio.NewScanner(&out)
	sc.Buffer(make([]byte, 1<<22), 1<<22)
	for sc.Scan() {
		if l := sc.Text(); strings.HasPrefix(l, "INNER-SUMMARY ") {
			var s innerSummary
			if err := json.Unmarshal([]byte(strings.TrimPrefix(l, "INNER-SUMMARY ")), &s); err != nil {
				return nil, "", err
			}
			return &s, errb.String(), nil
		}
	}
	msg := strings.TrimSpace(errb.String())
	if len(msg) > 400 {
		msg = msg[:400]
	}
	return nil, msg, fmt.Errorf("no summary (the variant does not load or the checker lost an anchor)")
}

type variantResult struct {
	Name     string   `json:"name"`
	What     string   `json:"what"`
	Expect   string   `json:"expect_rule"`
	Outcome  string   `json:"outcome"` // detected | MISSED | skipped (...) | no-verdict (...)
	Reported []string `json:"reported,omitempty"`
}

// thoroughExtras runs the additional work of the thorough tier that is common to all properties: the OS/arch
// load matrix and the seeded single-edit variants of the current tree. Its results go into the evidence; the verdict
// of the check is only ever about the unpatched tree (a variant that is missed is reported loudly but is a
// weakness of the checker, not a violation of the property).
func thoroughExtras(pc propertyCheck, w *World, rep *Report, repo, verif string) {
	// --- OS/arch matrix: the rules must give the same verdict for every target the build covers.
	type target struct{ goos, goarch string }
	targets := []target{{"linux", "386"}, {"windows", "amd64"}, {"darwin", "arm64"}}
	mru := rep.Rule(pc.ID+".matrix", "cover what the build covers: the same rules give the same verdict when the tree is loaded for other GOOS/GOARCH targets (build-tagged files differ)", 1)
	base := map[string]bool{}
	nbase := 0
	for _, ru := range rep.Rules {
		for _, ob := range ru.Obs {
			nbase++
			if !ob.OK {
				base[ob.Key] = true
			}
		}
	}
	var mu sync.Mutex
	var wg sync.WaitGroup
	sem := make(chan struct{}, 6)
	mres := make([]string, len(targets))
	mok := make([]bool, len(targets))
	for i, t := range targets {
		wg.Add(1)
		go func(i int, t target) {
			defer wg.Done()
			sem <- struct{}{}
			defer func() { <-sem }()
			s, msg, err := runInner(pc.ID, repo, t.goos, t.goarch)
			mu.Lock()
			defer mu.Unlock()
			if err != nil {
				mres[i], mok[i] = "no verdict: "+err.Error()+" "+msg, false
				return
			}
			diff := []string{}
			for _, f := range s.Failed {
				if !base[f.Key] {
					diff = append(diff, f.Key)
				}
			}
			mok[i] = len(diff) == 0 && len(s.Failed) == len(base)
			mres[i] = fmt.Sprintf("%d obligations, %d failed (host load: %d/%d) %s", s.Obligations, len(s.Failed), nbase, len(base), strings.Join(diff, ","))
		}(i, t)
	}
	wg.Wait()
	for i, t := range targets {
		mru.Check("load "+t.goos+"/"+t.goarch, "-", "same verdict as the host load", mok[i], mres[i])
	}

	// --- seeded variants
	dir := filepath.Join(verif, "variants", pc.ID)
	files, _ := filepath.Glob(filepath.Join(dir, "*.diff"))
	sort.Strings(files)
	results := make([]variantResult, len(files))
	vsem := make(chan struct{}, 8)
	for i, f := range files {
		wg.Add(1)
		go func(i int, f string) {
			defer wg.Done()
			vsem <- struct{}{}
			defer func() { <-vsem }()
			results[i] = runVariant(pc.ID, repo, f, base)
		}(i, f)
	}
	wg.Wait()
	detected, missed, skipped := 0, 0, 0
	for _, vr := range results {
		switch {
		case vr.Outcome == "detected":
			detected++
		case strings.HasPrefix(vr.Outcome, "skipped"):
			skipped++
		default:
			missed++
			fmt.Fprintf(os.Stderr, "CHECKER-WEAKNESS variant %s/%s: %s\n", pc.ID, vr.Name, vr.Outcome)
		}
	}
	// --- behaviour-preserving refactorings: the check has to stay silent on each
	bfiles, _ := filepath.Glob(filepath.Join(verif, "benign", "*.diff"))
	sort.Strings(bfiles)
	bres := make([]variantResult, len(bfiles))
	for i, f := range bfiles {
		wg.Add(1)
		go func(i int, f string) {
			defer wg.Done()
			vsem <- struct{}{}
			defer func() { <-vsem }()
			bres[i] = runBenign(pc.ID, repo, f, base)
		}(i, f)
	}
	wg.Wait()
	silent, alarms, bskipped := 0, 0, 0
	var notSilent []variantResult
	for _, br := range bres {
		switch {
		case br.Outcome == "silent":
			silent++
		case strings.HasPrefix(br.Outcome, "skipped"):
			bskipped++
			notSilent = append(notSilent, br)
		default:
			alarms++
			notSilent = append(notSilent, br)
			fmt.Fprintf(os.Stderr, "CHECKER-WEAKNESS benign refactoring %s under %s: %s %v\n", br.Name, pc.ID, br.Outcome, br.Reported)
		}
	}
	rep.Extra["benign_refactorings"] = map[string]any{
		"explanation": "behaviour-preserving refactorings of the current tree written by independent agents (benign/*.diff); each is applied to a scratch copy and analysed in a separate process; the check must report nothing new and keep its verdict",
		"total":       len(bfiles), "silent": silent, "false_alarm_or_no_verdict": alarms, "skipped_patch_does_not_apply": bskipped,
		"not_silent": notSilent,
	}
	rep.Extra["seeded_variants"] = map[string]any{
		"explanation": "single-edit patches of the current tree that break a rule instance while still type-checking; each is applied to a scratch copy and analysed in a separate process; 'detected' means a new failing obligation of the expected rule was reported",
		"total":       len(files), "detected": detected, "missed_or_no_verdict": missed, "skipped_patch_does_not_apply": skipped,
		"results": results,
	}
}

// runBenign applies a behaviour-preserving refactoring and expects the check to stay silent (and to keep its verdict).
func runBenign(prop, repo, patchFile string, base map[string]bool) variantResult {
	vr := variantResult{Name: strings.TrimSuffix(filepath.Base(patchFile), ".diff"), Expect: "silence"}
	tmp, err := os.MkdirTemp("", "foxbenign-")
	if err != nil {
		vr.Outcome = "skipped (" + err.Error() + ")"
		return vr
	}
	defer os.RemoveAll(tmp)
	if out, err := exec.Command("rsync", "-a", "--exclude", ".git", repo+"/", tmp+"/").CombinedOutput(); err != nil {
		vr.Outcome = "skipped (copy failed: " + strings.TrimSpace(string(out)) + ")"
		return vr
	}
	p := exec.Command("patch", "-p1", "-s", "-F2", "--no-backup-if-mismatch", "-i", patchFile)
	p.Dir = tmp
	if out, err := p.CombinedOutput(); err != nil {
		vr.Outcome = "skipped (patch does not apply to the current tree: " + firstLine(string(out)) + ")"
		return vr
	}
	s, msg, err := runInner(prop, tmp, "", "")
	if err != nil {
		vr.Outcome = "no-verdict (" + err.Error() + ": " + firstLine(msg) + ")"
		return vr
	}
	for _, f := range s.Failed {
		if !base[f.Key] {
			vr.Reported = append(vr.Reported, f.Key+" @ "+f.Pos)
		}
	}
	switch {
	case len(vr.Reported) > 0:
		vr.Outcome = "FALSE-ALARM"
	case s.Status == 2:
		vr.Outcome = "no-verdict (" + firstLine(msg) + ")"
	default:
		vr.Outcome = "silent"
	}
	return vr
}

func runVariant(prop, repo, patchFile string, base map[string]bool) variantResult {
	vr := variantResult{Name: strings.TrimSuffix(filepath.Base(patchFile), ".diff")}
	data, err := os.ReadFile(patchFile)
	if err != nil {
		vr.Outcome = "skipped (" + err.Error() + ")"
		return vr
	}
	for _, l := range strings.Split(string(data), "\n") {
		if strings.HasPrefix(l, "# expect:") {
			vr.Expect = strings.TrimSpace(strings.TrimPrefix(l, "# expect:"))
		}
		if strings.HasPrefix(l, "# what:") {
			vr.What = strings.TrimSpace(strings.TrimPrefix(l, "# what:"))
		}
	}
	tmp, err := os.MkdirTemp("", "foxvariant-")
	if err != nil {
		vr.Outcome = "skipped (" + err.Error() + ")"
		return vr
	}
	defer os.RemoveAll(tmp)
	if out, err := exec.Command("rsync", "-a", "--exclude", ".git", repo+"/", tmp+"/").CombinedOutput(); err != nil {
		vr.Outcome = "skipped (copy failed: " + strings.TrimSpace(string(out)) + ")"
		return vr
	}
	p := exec.Command("patch", "-p1", "-s", "-F2", "--no-backup-if-mismatch", "-i", patchFile)
	p.Dir = tmp
	if out, err := p.CombinedOutput(); err != nil {
		vr.Outcome = "skipped (patch does not apply to the current tree: " + firstLine(string(out)) + ")"
		return vr
	}
	s, msg, err := runInner(prop, tmp, "", "")
	if err != nil {
		vr.Outcome = "no-verdict (" + err.Error() + ": " + firstLine(msg) + ")"
		return vr
	}
	hit := false
	for _, f := range s.Failed {
		if base[f.Key] {
			continue
		}
		vr.Reported = append(vr.Reported, f.Key+" @ "+f.Pos)
		for _, exp := range strings.Split(vr.Expect, ",") {
			if exp = strings.TrimSpace(exp); exp != "" && strings.HasPrefix(f.Key, exp+"/") {
				hit = true
			}
		}
	}
	if len(vr.Reported) > 8 {
		vr.Reported = append(vr.Reported[:8], fmt.Sprintf("… %d more", len(vr.Reported)-8))
	}
	switch {
	case hit:
		vr.Outcome = "detected"
	case len(vr.Reported) > 0:
		vr.Outcome = "MISSED by the expected rule " + vr.Expect + " (other rules fired)"
	default:
		vr.Outcome = "MISSED"
	}
	return vr
}

func firstLine(s string) string {
	s = strings.TrimSpace(s)
	if i := strings.IndexByte(s, '\n'); i >= 0 {
		s = s[:i]
	}
	return s
}
