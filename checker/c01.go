package main

import (
	"fmt"
	"go/ast"
	"go/token"
	"go/types"
	"sort"
	"strings"

	"golang.org/x/tools/go/cfg"
	"golang.org/x/tools/go/ssa"
)

func init() { register("C01", checkC01) }

func checkC01(w *World, r *Report) {
	r.Explanation = "Structural invariants of the matcher that are necessary for 'the documented route with the correct parameters': a single matcher serves every lookup entry point and each entry point hands it " +
		"the right root (the transaction's own root, the iterator's snapshot root, the once-loaded tree) and the right request path (RawPath when present); the number of recorded parameters and the running " +
		"counter saved with each skipped alternative stay equal on every path of both matchers (a four-state relational dataflow on the syntax-level CFG), so that a backtrack restores exactly the prefix valid " +
		"at that alternative; every lookup starts with an empty parameter list; a leaf is returned as a direct match only when the whole path and the whole node key were consumed (or inside the catch-all " +
		"region, or as the result of the recursive sub-lookup); alternatives are deferred so that the parameter child is resumed before the catch-all child; a trailing-slash candidate is never returned " +
		"while alternatives are pending. It does not decide that the matcher computes the documented relation for every route set."
	r.NotDecided = []string{"equality of the matcher with the documented routing relation for every route set (static/param/catch-all priority across splits, infix enumeration, host-then-path fallback)", "substitution round-trip"}
	r.Assumptions = []string{"the tree invariants established by insert/remove (C07.1) hold", "hostnames are validated at registration (C10)"}
	checkC01Entry(w, r)
	checkC01Counter(w, r, "C01.2")
	checkC01EmptyParams(w, r, "C01.3")
	checkC01FullConsumption(w, r)
	checkC01Priority(w, r)
	checkC01TsrLast(w, r, "C01.6")
	checkNodeConstruction(w, r, "C01.7")
	checkC01LazyInvariance(w, r, "C01.8")
	checkNoEmptyCapture(w, r, "C01.9")
	checkCursorReset(w, r, "C01.10")
	checkStaticSearchExcludesWildcards(w, r, "C01.11")
	checkReverseDefaults(w, r, "C01.12")
	checkSkipStackReset(w, r, "C01.13")
}

// ---- C01.1 --------------------------------------------------------------------------------------------------

func checkC01Entry(w *World, r *Report) {
	ru := r.Rule("C01.1", "single matcher, right root, right path: the two matcher functions are called only from the root dispatcher and from themselves; transaction entry points look up in the transaction's own root, iterators in their snapshot root, router entry points in the tree they loaded; entry points taking a request use URL.RawPath when non-empty, else URL.Path", 6)
	lookupRootObligations(w, ru)
	treeLookup := w.Method("iTree", "lookup")
	rootsLookup := w.Method("roots", "lookup")
	// request path selection
	for _, name := range [][2]string{{"Router", "ServeHTTP"}, {"Router", "Lookup"}, {"Txn", "Lookup"}} {
		fn := w.Method(name[0], name[1])
		eachInstr(fn, func(in ssa.Instruction) {
			c, ok := in.(*ssa.Call)
			if !ok {
				return
			}
			callee := c.Call.StaticCallee()
			if callee != treeLookup && callee != rootsLookup {
				return
			}
			lz, isConst := constBool(c.Call.Args[len(c.Call.Args)-1])
			if isConst && lz {
				return
			}
			pathArg := c.Call.Args[len(c.Call.Args)-3]
			raw, plain, other := requestPathSelection(pathArg, 0)
			okk := raw && plain && other == ""
			why := fmt.Sprintf("RawPath(if non-empty)=%v Path(otherwise)=%v %s", raw, plain, other)
			ru.Check("request path in "+FuncName(fn), w.Pos(c.Pos()), "the matcher gets URL.RawPath when it is non-empty, URL.Path otherwise", okk, why)
		})
	}
	// every lookup entry point reaches the root dispatcher
	cg := w.CHA()
	var entries []*ssa.Function
	for _, e := range [][2]string{{"Router", "ServeHTTP"}, {"Router", "Lookup"}, {"Router", "Reverse"}, {"Router", "Route"}, {"Txn", "Lookup"}, {"Txn", "Reverse"}, {"Txn", "Route"}, {"Iter", "Reverse"}, {"Iter", "Routes"}} {
		entries = append(entries, w.Method(e[0], e[1]))
	}
	rc := newReach(w, cg)
	roots := rc.Run(entries, nil, nil, nil)
	for i, e := range entries {
		order, _ := rc.From(roots[i])
		hit := false
		for _, s := range order {
			if s.fn == rootsLookup {
				hit = true
			}
		}
		if !hit && (e.Name() == "Route" || e.Name() == "Routes") {
			// the exact-pattern lookups may use the structural search instead of the request matcher
			for _, s := range order {
				if s.fn != nil && s.fn.Name() == "route" && s.fn.Signature.Recv() != nil {
					hit = true
				}
			}
			ru.Check("entry point "+FuncName(e), w.Pos(e.Pos()), "reaches the shared root dispatcher roots.lookup, or (exact-pattern lookups) the structural search roots.route", hit, fmt.Sprint(hit))
			continue
		}
		ru.Check("entry point "+FuncName(e), w.Pos(e.Pos()), "reaches the shared root dispatcher roots.lookup", hit, fmt.Sprint(hit))
	}
}

// lookupRootObligations: who may call the matchers, and which root each lookup entry point hands to them. Shared by
// C01.1 and C02.7 (the exact-pattern lookups and iterators must read their own root, e.g. a transaction's uncommitted one).
func lookupRootObligations(w *World, ru *Rule) {
	byPath, byDomain := w.Func("lookupByPath"), w.Func("lookupByDomain")
	rootsLookup := w.Method("roots", "lookup")
	rootsRoute := w.TryMethodIn(modulePath, "roots", "route") // nil when exact lookups go through the matcher
	treeLookup := w.Method("iTree", "lookup")
	txnT := w.FoxType("Txn")
	rootTxnF := w.Field(txnT, "rootTxn")
	innerRoot := w.Field(w.FoxType("tXn"), "root")
	iterRoot := w.Field(w.FoxType("Iter"), "root")
	allowedMatcherCallers := map[*ssa.Function]bool{rootsLookup: true, byPath: true, byDomain: true}
	for _, fn := range w.FoxFuncs() {
		eachInstr(fn, func(in ssa.Instruction) {
			site, ok := in.(ssa.CallInstruction)
			if !ok {
				return
			}
			callee := site.Common().StaticCallee()
			if callee != nil && callee == rootsRoute {
				// same obligation as for roots.lookup, plus: a router method uses the roots of the tree it loaded
				recv := site.Common().Args[0]
				okk, why := false, "receiver "+valStr(recv)
				root := fn
				for root.Parent() != nil {
					root = root.Parent()
				}
				switch {
				case root.Signature.Recv() != nil && namedOf(root.Signature.Recv().Type()) == txnT:
					b, f, isLoad := loadedField(recv)
					if isLoad && f == innerRoot {
						if _, f2, ok := loadedField(b); ok && f2 == rootTxnF {
							okk, why = true, "txn.rootTxn.root (reads its own writes)"
						}
					}
				default:
					if _, f, isLoad := logicalField(recv); isLoad && f == iterRoot {
						okk, why = true, "the iterator's snapshot root"
					} else if b, f, isLoad := loadedField(recv); isLoad && f.Name() == "root" {
						if c, isCall := b.(*ssa.Call); isCall && c.Call.StaticCallee() != nil && c.Call.StaticCallee().Name() == "getRoot" {
							okk, why = true, "the roots of the tree this function loaded"
						}
					}
				}
				ru.Check("root used by "+FuncName(fn), w.Pos(in.Pos()), "looks up in the root that belongs to this entry point", okk, why)
				return
			}
			switch callee {
			case byPath, byDomain:
				ru.Check("call of "+callee.Name()+" in "+FuncName(fn), w.Pos(in.Pos()), "the matchers are entered only through roots.lookup (or recursively)", allowedMatcherCallers[fn], FuncName(fn))
			case rootsLookup:
				recv := site.Common().Args[0]
				okk, why := false, "receiver "+valStr(recv)
				root := fn
				for root.Parent() != nil {
					root = root.Parent()
				}
				switch {
				case fn == treeLookup:
					_, f, isLoad := loadedField(recv)
					okk, why = isLoad && f.Name() == "root" && site.Common().Args[1] == ssa.Value(fn.Params[0]), "the tree's own roots"
				case root.Signature.Recv() != nil && namedOf(root.Signature.Recv().Type()) == txnT:
					b, f, isLoad := loadedField(recv)
					if isLoad && f == innerRoot {
						if _, f2, ok := loadedField(b); ok && f2 == rootTxnF {
							okk, why = true, "txn.rootTxn.root (reads its own writes)"
						}
					}
				default:
					if _, f, isLoad := logicalField(recv); isLoad && f == iterRoot {
						okk, why = true, "the iterator's snapshot root"
					}
				}
				ru.Check("root used by "+FuncName(fn), w.Pos(in.Pos()), "looks up in the root that belongs to this entry point", okk, why)
			case treeLookup:
				// receiver must be the tree loaded once by this function
				recv := site.Common().Args[0]
				isLoaded := func(v ssa.Value) bool {
					c, isCall := v.(*ssa.Call)
					return isCall && c.Call.StaticCallee() != nil && c.Call.StaticCallee().Name() == "getRoot"
				}
				okk := isLoaded(recv)
				why := valStr(recv)
				if p, isParam := recv.(*ssa.Parameter); isParam && !okk {
					// a helper that is handed the tree: every caller must pass the tree it loaded
					idx, ncall, all := paramIndex(fn, p), 0, true
					for _, caller := range w.FoxFuncs() {
						eachInstr(caller, func(in2 ssa.Instruction) {
							if c2, ok := in2.(ssa.CallInstruction); ok && c2.Common().StaticCallee() == fn && idx >= 0 && idx < len(c2.Common().Args) {
								ncall++
								if !isLoaded(c2.Common().Args[idx]) {
									all = false
								}
							}
						})
					}
					okk = ncall > 0 && all
					why = fmt.Sprintf("parameter %s, %d caller(s), each passes the tree it loaded: %v", p.Name(), ncall, all)
				}
				ru.Check("tree used by "+FuncName(fn), w.Pos(in.Pos()), "looks up in the tree this function loaded (fox.getRoot())", okk, why)
			}
		})
	}
}

// ---- C01.2 --------------------------------------------------------------------------------------------------

// cntState is the relational abstract state between len(*c.params) and the variable paramCnt.
type cntState struct {
	kind int    // 0 unreached, 1 Diff(k), 2 PendL(e): slice just truncated to e, 3 PendC(e): counter just set to e, 4 Top
	k    int    // for Diff
	e    string // for PendL/PendC
}

func (s cntState) String() string {
	switch s.kind {
	case 0:
		return "unreached"
	case 1:
		return fmt.Sprintf("len(params) - paramCnt == %d", s.k)
	case 2:
		return "len(params) == " + s.e + ", counter not yet restored"
	case 3:
		return "paramCnt == " + s.e + ", slice not yet truncated to it"
	}
	return "unknown relation"
}

func meetCnt(a, b cntState) cntState {
	if a.kind == 0 {
		return b
	}
	if b.kind == 0 {
		return a
	}
	if a == b {
		return a
	}
	return cntState{kind: 4}
}

func checkC01Counter(w *World, r *Report, id string) {
	ru := r.Rule(id, "parameter counter invariant: in both matchers, on every path, the count saved in a skipped-node record equals the number of parameters recorded at that moment, a backtrack truncates the parameters to the popped record's count and restores the counter to it, and the walk loop is re-entered with len(params) == counter", 4)
	ru.Idiom("paramCnt++ paired with a single-element append to *c.params", "*c.params = (*c.params)[:skipped.paramCnt]; paramCnt = skipped.paramCnt", "parameters appended without counting just before returning (infix catch-all, sub-context merge)")
	for _, name := range []string{"lookupByPath", "lookupByDomain"} {
		af := w.astFuncOf(modulePath, name)
		r.Analysed(name)
		info := af.pkg.TypesInfo
		// locate variables
		var cntObj types.Object
		ast.Inspect(af.decl, func(n ast.Node) bool {
			if id, ok := n.(*ast.Ident); ok && id.Name == "paramCnt" {
				if o := info.Defs[id]; o != nil {
					cntObj = o
				}
			}
			return true
		})
		if cntObj == nil {
			anchorFail("variable paramCnt in %s", name)
		}
		isCnt := func(e ast.Expr) bool {
			id, ok := e.(*ast.Ident)
			return ok && info.ObjectOf(id) == cntObj
		}
		ctxParam := af.decl.Type.Params.List
		ctxName := ""
		for _, f := range ctxParam {
			if st, ok := f.Type.(*ast.StarExpr); ok {
				if id, ok := st.X.(*ast.Ident); ok && id.Name == "cTx" {
					ctxName = f.Names[0].Name
				}
			}
		}
		if ctxName == "" {
			anchorFail("context parameter of %s", name)
		}
		isParamsDeref := func(e ast.Expr) bool { return exprStr(e) == "*"+ctxName+".params" || exprStr(e) == "(*"+ctxName+".params)" }
		// transfer of one node
		transfer := func(n ast.Node, s cntState, report func(pos token.Pos, what string, ok bool, why string)) cntState {
			switch x := n.(type) {
			case *ast.IncDecStmt:
				if isCnt(x.X) && x.Tok == token.INC {
					if s.kind == 1 {
						s.k--
					} else {
						s = cntState{kind: 4}
					}
				}
			case *ast.AssignStmt:
				if len(x.Lhs) == 1 && len(x.Rhs) == 1 {
					switch {
					case isCnt(x.Lhs[0]):
						e := exprStr(x.Rhs[0])
						if s.kind == 2 && s.e == e {
							s = cntState{kind: 1, k: 0}
						} else {
							s = cntState{kind: 3, e: e}
						}
					case isParamsDeref(x.Lhs[0]):
						switch rhs := x.Rhs[0].(type) {
						case *ast.CallExpr:
							if id, ok := rhs.Fun.(*ast.Ident); ok && id.Name == "append" && len(rhs.Args) >= 2 && isParamsDeref(rhs.Args[0]) {
								if rhs.Ellipsis.IsValid() {
									s = cntState{kind: 4}
								} else if s.kind == 1 {
									s.k += len(rhs.Args) - 1
								} else {
									s = cntState{kind: 4}
								}
							} else {
								s = cntState{kind: 4}
							}
						case *ast.SliceExpr:
							if isParamsDeref(rhs.X) && rhs.Low == nil && rhs.High != nil {
								e := exprStr(rhs.High)
								if s.kind == 3 && s.e == e {
									s = cntState{kind: 1, k: 0}
								} else if e == "0" && s.kind == 3 && s.e == "0" {
									s = cntState{kind: 1, k: 0}
								} else {
									s = cntState{kind: 2, e: e}
								}
							} else {
								s = cntState{kind: 4}
							}
						default:
							s = cntState{kind: 4}
						}
					}
				}
			}
			// skippedNode literals anywhere inside the node
			if report != nil {
				ast.Inspect(n, func(m ast.Node) bool {
					cl, ok := m.(*ast.CompositeLit)
					if !ok {
						return true
					}
					if id, ok := cl.Type.(*ast.Ident); !ok || id.Name != "skippedNode" {
						return true
					}
					var cntExpr ast.Expr
					if len(cl.Elts) == 4 {
						cntExpr = cl.Elts[2]
					}
					for _, el := range cl.Elts {
						if kv, ok := el.(*ast.KeyValueExpr); ok {
							if k, ok := kv.Key.(*ast.Ident); ok && k.Name == "paramCnt" {
								cntExpr = kv.Value
							}
						}
					}
					ok2 := cntExpr != nil && isCnt(cntExpr) && s.kind == 1 && s.k == 0
					report(cl.Pos(), "skipped-node record", ok2, "saved count "+exprStr(cntExpr)+"; "+s.String())
					return true
				})
			}
			return s
		}
		// dataflow
		in := map[*cfg.Block]cntState{}
		if len(af.g.Blocks) == 0 {
			continue
		}
		in[af.g.Blocks[0]] = cntState{kind: 1, k: 0}
		for iter := 0; iter < 100; iter++ {
			changed := false
			for _, b := range af.g.Blocks {
				if !b.Live {
					continue
				}
				s := in[b]
				if s.kind == 0 {
					continue
				}
				for _, n := range b.Nodes {
					s = transfer(n, s, nil)
				}
				for _, sc := range b.Succs {
					nw := meetCnt(in[sc], s)
					if nw != in[sc] {
						in[sc] = nw
						changed = true
					}
				}
			}
			if !changed {
				break
			}
		}
		nrec, nback := 0, 0
		// (c) every entry into the labelled walk loop (the initial one and each `goto Walk` after a backtrack) happens with
		// len(params) == counter. go/cfg turns goto into an edge, so the obligation sits on the predecessors of the label block.
		for _, lb := range af.g.Blocks {
			if !lb.Live || lb.Kind != cfg.KindLabel {
				continue
			}
			ls, ok := lb.Stmt.(*ast.LabeledStmt)
			if !ok || ls.Label.Name != "Walk" {
				continue
			}
			for _, pb := range af.pred[lb] {
				if !pb.Live || in[pb].kind == 0 {
					continue
				}
				s := in[pb]
				for _, n := range pb.Nodes {
					s = transfer(n, s, nil)
				}
				nback++
				pos := lb.Stmt.Pos()
				if len(pb.Nodes) > 0 {
					pos = pb.Nodes[len(pb.Nodes)-1].Pos()
				}
				ru.Check("entry of the walk loop in "+name, w.Pos(pos), "len(*c.params) equals the counter whenever the walk (re)starts", s.kind == 1 && s.k == 0, s.String())
			}
		}
		for _, b := range af.g.Blocks {
			if !b.Live || in[b].kind == 0 {
				continue
			}
			s := in[b]
			for _, n := range b.Nodes {
				s = transfer(n, s, func(pos token.Pos, what string, ok bool, why string) {
					nrec++
					ru.Check(what+" in "+name, w.Pos(pos), "len(*c.params) equals the counter (recorded / restored)", ok, why)
				})
			}
		}
		// (b) the truncation argument is the popped record's count
		okTrunc := false
		ast.Inspect(af.decl, func(n ast.Node) bool {
			as, ok := n.(*ast.AssignStmt)
			if !ok || len(as.Lhs) != 1 || !isParamsDeref(as.Lhs[0]) {
				return true
			}
			if se, ok := as.Rhs[0].(*ast.SliceExpr); ok && se.High != nil && exprStr(se.High) != "0" {
				okTrunc = strings.HasSuffix(exprStr(se.High), ".paramCnt")
				ru.Check("backtrack truncation in "+name, w.Pos(as.Pos()), "parameters are truncated to the count stored in the popped record", okTrunc, exprStr(se.High))
			}
			return true
		})
		if nrec == 0 || nback == 0 {
			ru.Fail("instances in "+name, w.Pos(af.decl.Pos()), "skipped-node records and a backtrack re-entry exist", fmt.Sprintf("%d records, %d re-entries", nrec, nback))
		}
	}
}

// ---- C01.3 --------------------------------------------------------------------------------------------------

func checkC01EmptyParams(w *World, r *Report, id string) {
	ru := r.Rule(id, "empty-parameters precondition: wherever a pooled context is handed to a lookup (entry points) or a sub-context to the path matcher (hostname and infix catch-all sub-lookups), its params have been truncated to zero on every path since it was acquired or last used", 5)
	p := newProto(w)
	cf := newCtxFlow(w)
	paramsF := cf.field("params")
	targets := map[*ssa.Function]bool{w.Method("iTree", "lookup"): true, w.Method("roots", "lookup"): true, w.Func("lookupByPath"): true, w.Func("lookupByDomain"): true}
	n := 0
	for _, fn := range w.FoxFuncs() {
		if isTestHelper(w, fn) {
			continue
		}
		vals, defs := cf.acquisitions(p, fn)
		for i, v := range vals {
			obj := v
			isObj := func(x ssa.Value) bool { return stripIface(seeThrough(stripIface(x))) == obj }
			cf.Run(fn, obj, defs[i], func(in ssa.Instruction, st ctxState) {
				c, ok := in.(*ssa.Call)
				if !ok || !targets[c.Call.StaticCallee()] {
					return
				}
				passes := false
				for _, a := range c.Call.Args {
					if isObj(a) {
						passes = true
					}
				}
				if !passes {
					return
				}
				n++
				pv := st.f[paramsF]
				ru.Check("lookup with a pooled context in "+FuncName(fn), w.Pos(c.Pos()), "params truncated to 0 before the lookup", pv.kind == kScrub, "params: "+pv.String())
			})
		}
	}
	if n < 5 {
		r.Unrecognised("%s: only %d lookups with pooled contexts found", id, n)
	}
}

// ---- C01.4 --------------------------------------------------------------------------------------------------

func checkC01FullConsumption(w *World, r *Report) {
	ru := r.Rule("C01.4", "match only on full consumption: every return of a node with tsr == false in the path matcher is dominated by charsMatched == len(path) and charsMatchedInNodeFound == len(current.key), or lies in the catch-all region (key byte is '*'), or hands on the result of the recursive sub-lookup", 2)
	af := w.astFuncOf(modulePath, "lookupByPath")
	n := 0
	ast.Inspect(af.decl.Body, func(m ast.Node) bool {
		if _, isLit := m.(*ast.FuncLit); isLit {
			return false
		}
		ret, ok := m.(*ast.ReturnStmt)
		if !ok || len(ret.Results) != 2 {
			return true
		}
		first := exprStr(ret.Results[0])
		if first == "n" || first == "nil" {
			return true
		}
		n++
		b, _ := af.blockOf(ret)
		if b == nil {
			ru.Fail("return "+first, w.Pos(ret.Pos()), "located in the CFG", "unreachable")
			return true
		}
		facts := af.factsAt(b)
		full := holdsEq(facts, "charsMatched", "len(path)") && holdsEq(facts, "charsMatchedInNodeFound", "len(current.key)")
		star := false
		for _, f := range facts {
			if x, y, ok := isCmp(f.e, token.EQL); ok && f.val && x == "current.key[i]" && y == "starDelim" {
				star = true
			}
		}
		recursive := first == "subNode"
		kind := "full consumption"
		if star {
			kind = "catch-all region"
		}
		if recursive {
			kind = "result of the sub-lookup"
		}
		ru.Check("return "+first+", "+exprStr(ret.Results[1]), w.Pos(ret.Pos()), "direct match only after the whole path and key were consumed (or catch-all / sub-lookup result)", full || star || recursive, kind)
		return true
	})
	if n < 2 {
		r.Unrecognised("C01.4: only %d direct-match returns found in lookupByPath", n)
	}
}

// ---- C01.5 --------------------------------------------------------------------------------------------------

func checkC01Priority(w *World, r *Report) {
	ru := r.Rule("C01.5", "priority order: where a static child matches and both wildcard kinds exist, the catch-all alternative is pushed before the parameter alternative (LIFO: the parameter is resumed first); a direct descent into the catch-all child happens only when there is no parameter child; when the parameter child is taken the catch-all child is saved", 2)
	af := w.astFuncOf(modulePath, "lookupByPath")
	type push struct {
		pos   token.Pos
		kind  string
		noIdx bool // pushed on the path where no static child matched (idx < 0)
	}
	var pushes []push
	ast.Inspect(af.decl.Body, func(m ast.Node) bool {
		cl, ok := m.(*ast.CompositeLit)
		if !ok {
			return true
		}
		if id, ok := cl.Type.(*ast.Ident); !ok || id.Name != "skippedNode" || len(cl.Elts) < 4 {
			return true
		}
		last := exprStr(cl.Elts[len(cl.Elts)-1])
		kind := "?"
		if strings.HasSuffix(last, ".wildcardChildIndex") {
			kind = "catch-all"
		} else if strings.HasSuffix(last, ".paramChildIndex") {
			kind = "param"
		}
		b, _ := af.blockOf(cl)
		noIdx := false
		if b != nil {
			for _, f := range af.factsAt(b) {
				if x, y, ok := isCmp(f.e, token.LSS); ok && f.val && x == "idx" && y == "0" {
					noIdx = true
				}
			}
		}
		pushes = append(pushes, push{cl.Pos(), kind, noIdx})
		return true
	})
	sort.Slice(pushes, func(i, j int) bool { return pushes[i].pos < pushes[j].pos })
	var staticPushes []push
	var noStaticPushes []push
	for _, p := range pushes {
		if p.noIdx {
			noStaticPushes = append(noStaticPushes, p)
		} else {
			staticPushes = append(staticPushes, p)
		}
	}
	okStatic := len(staticPushes) == 2 && staticPushes[0].kind == "catch-all" && staticPushes[1].kind == "param"
	desc := []string{}
	for _, p := range staticPushes {
		desc = append(desc, p.kind)
	}
	ru.Check("deferred alternatives when a static child matches", w.Pos(af.decl.Pos()), "push catch-all first, then param (param is popped first)", okStatic, strings.Join(desc, ", "))
	okNoStatic := len(noStaticPushes) == 1 && noStaticPushes[0].kind == "catch-all"
	ru.Check("deferred alternative when the param child is taken", w.Pos(af.decl.Pos()), "the catch-all child is saved before descending into the param child", okNoStatic, fmt.Sprintf("%d push(es)", len(noStaticPushes)))
	// direct descent into wildcard child
	okDesc := false
	ast.Inspect(af.decl.Body, func(m ast.Node) bool {
		as, ok := m.(*ast.AssignStmt)
		if !ok || len(as.Lhs) != 1 || exprStr(as.Lhs[0]) != "idx" || exprStr(as.Rhs[0]) != "current.wildcardChildIndex" {
			return true
		}
		b, _ := af.blockOf(as)
		if b == nil {
			return true
		}
		noParam, noStatic := false, false
		for _, f := range af.factsAt(b) {
			if x, y, ok := isCmp(f.e, token.GEQ); ok && !f.val && x == "current.paramChildIndex" && y == "0" {
				noParam = true
			}
			if x, y, ok := isCmp(f.e, token.LSS); ok && f.val && x == "idx" && y == "0" {
				noStatic = true
			}
		}
		okDesc = noParam && noStatic
		ru.Check("direct descent into the catch-all child", w.Pos(as.Pos()), "only when no static child matched and there is no param child", okDesc, fmt.Sprintf("noStatic=%v noParam=%v", noStatic, noParam))
		return true
	})
}

// ---- C01.6 --------------------------------------------------------------------------------------------------

func checkC01TsrLast(w *World, r *Report, id string) {
	ru := r.Rule(id, "a trailing-slash candidate never pre-empts pending alternatives: in both matchers a return whose tsr result may be true is the final return reached only when no skipped alternative is left (hasSkpNds false); every other return yields tsr == false", 3)
	for _, name := range []string{"lookupByPath", "lookupByDomain"} {
		af := w.astFuncOf(modulePath, name)
		ast.Inspect(af.decl.Body, func(m ast.Node) bool {
			if _, isLit := m.(*ast.FuncLit); isLit {
				return false
			}
			ret, ok := m.(*ast.ReturnStmt)
			if !ok {
				return true
			}
			b, _ := af.blockOf(ret)
			if b == nil {
				return true
			}
			facts := af.factsAt(b)
			noAlt := false
			for _, f := range facts {
				if id, ok := f.e.(*ast.Ident); ok && id.Name == "hasSkpNds" && !f.val {
					noAlt = true
				}
			}
			if len(ret.Results) == 0 {
				// bare return: allowed only before anything was recorded (not reachable after a tsr assignment)
				tainted := false
				for _, blk := range af.g.Blocks {
					if !blk.Live {
						continue
					}
					for _, nd := range blk.Nodes {
						if as, ok := nd.(*ast.AssignStmt); ok && len(as.Lhs) == 1 && exprStr(as.Lhs[0]) == "tsr" && exprStr(as.Rhs[0]) == "true" {
							if blk == b || af.reachableFrom(blk)[b] {
								tainted = true
							}
						}
					}
				}
				ru.Check("bare return in "+name, w.Pos(ret.Pos()), "bare return only where no candidate can have been recorded, or with no alternative left", !tainted || noAlt, fmt.Sprintf("afterTsrAssignment=%v noAlternativeLeft=%v", tainted, noAlt))
				return true
			}
			second := exprStr(ret.Results[1])
			okk, why := false, second
			switch {
			case second == "false":
				okk, why = true, "constant false"
			case noAlt:
				okk, why = true, "final return: no alternative left"
			default:
				// a dominating test `!x` proves x false only if x is never reassigned (single definition)
				reassigned := false
				ast.Inspect(af.decl.Body, func(q ast.Node) bool {
					if as, ok := q.(*ast.AssignStmt); ok && as.Tok == token.ASSIGN {
						for _, l := range as.Lhs {
							if exprStr(l) == second {
								reassigned = true
							}
						}
					}
					return true
				})
				for _, f := range facts {
					if id, ok := f.e.(*ast.Ident); ok && id.Name == second && !f.val && !reassigned {
						okk, why = true, second+" is known false here"
					}
				}
			}
			ru.Check("return in "+name, w.Pos(ret.Pos()), "tsr result false, or final return with no alternative left", okk, why)
			return true
		})
	}
}

// ---- C01.8 --------------------------------------------------------------------------------------------------

// checkC01LazyInvariance: lazy lookups (Reverse, Route, Has, the Allow loops) must select exactly like recording ones:
// code under `if !lazy` may only record parameters, never touch the variables that steer the walk.
func checkC01LazyInvariance(w *World, r *Report, id string) {
	ru := r.Rule(id, "lazy lookups select like recording lookups: in both matchers the statements guarded by `!lazy` only record parameters (append to / reslice the context's params and tsrParams, copyWithResize, increment of the parameter counter); no variable that steers the walk is assigned there", 4)
	for _, name := range []string{"lookupByPath", "lookupByDomain"} {
		af := w.astFuncOf(modulePath, name)
		n := 0
		ast.Inspect(af.decl.Body, func(m ast.Node) bool {
			ifs, ok := m.(*ast.IfStmt)
			if !ok || exprStr(ifs.Cond) != "!lazy" {
				return true
			}
			n++
			bad := ""
			for _, st := range ifs.Body.List {
				switch x := st.(type) {
				case *ast.IncDecStmt:
					if exprStr(x.X) != "paramCnt" {
						bad = "modifies " + exprStr(x.X)
					}
				case *ast.AssignStmt:
					for _, l := range x.Lhs {
						ls := exprStr(l)
						if !(strings.HasSuffix(ls, ".params") || strings.HasSuffix(ls, ".tsrParams")) || !strings.HasPrefix(ls, "*") {
							bad = "assigns " + ls
						}
					}
				case *ast.ExprStmt:
					if c, ok := x.X.(*ast.CallExpr); !ok || exprStr(c.Fun) != "copyWithResize" {
						bad = "executes " + exprStr(x.X)
					}
				default:
					bad = fmt.Sprintf("contains a %T", st)
				}
			}
			if ifs.Else != nil {
				bad = "has an else branch (lazy-only behaviour)"
			}
			ru.Check("`if !lazy` block in "+name, w.Pos(ifs.Pos()), "only parameter recording", bad == "", orDefault(bad, "records parameters only"))
			return true
		})
		// lazy must not appear in any other condition
		ast.Inspect(af.decl.Body, func(m ast.Node) bool {
			id, ok := m.(*ast.Ident)
			if !ok || id.Name != "lazy" {
				return true
			}
			// allowed: as the operand of `!lazy` in an if condition, or passed on to a sub-lookup
			okUse := false
			ast.Inspect(af.decl.Body, func(q ast.Node) bool {
				switch x := q.(type) {
				case *ast.IfStmt:
					if u, ok := x.Cond.(*ast.UnaryExpr); ok && u.Op == token.NOT && u.X == ast.Expr(id) {
						okUse = true
					}
				case *ast.CallExpr:
					for _, a := range x.Args {
						if a == ast.Expr(id) {
							okUse = true
						}
					}
				}
				return true
			})
			if !okUse {
				ru.Fail("use of lazy in "+name, w.Pos(id.Pos()), "lazy only guards parameter recording or is handed to a sub-lookup", "lazy takes part in another decision")
			}
			return true
		})
		if n == 0 {
			r.Unrecognised("%s: no `if !lazy` block found in %s", id, name)
		}
	}
}

// ---- C01.9 --------------------------------------------------------------------------------------------------

// checkNoEmptyCapture: a named parameter never captures an empty segment / label: between the search for the next
// delimiter and the recording of the parameter, every path establishes idx > 0 or idx < 0 (the idx == 0 case leaves the
// walk). Shared with C09 (host labels).
func checkNoEmptyCapture(w *World, r *Report, id string) {
	ru := r.Rule(id, "no empty capture, no capture across a delimiter: in both matchers, every path from the search of the next delimiter (strings.IndexByte) to the advance of the cursor over a {param} goes through idx > 0 or idx < 0; an empty segment or host label (idx == 0) abandons the branch; the search is the only definition of idx that reaches those tests", 2)
	for _, spec := range []struct{ fn, delim string }{{"lookupByPath", "slashDelim"}, {"lookupByDomain", "dotDelim"}} {
		af := w.astFuncOf(modulePath, spec.fn)
		found := 0
		for _, b := range af.g.Blocks {
			if !b.Live {
				continue
			}
			for _, nd := range b.Nodes {
				as, ok := nd.(*ast.AssignStmt)
				if !ok || len(as.Rhs) != 1 {
					continue
				}
				call, ok := as.Rhs[0].(*ast.CallExpr)
				if !ok || exprStr(call.Fun) != "strings.IndexByte" || len(call.Args) != 2 || exprStr(call.Args[1]) != spec.delim {
					continue
				}
				// only the search that precedes a {param} capture: its block is under the fact key[i] == bracketDelim
				inParam := false
				for _, f := range af.factsAt(b) {
					if x, y, ok := isCmp(f.e, token.EQL); ok && f.val && strings.HasSuffix(x, ".key[i]") && y == "bracketDelim" {
						inParam = true
					}
				}
				if !inParam {
					continue
				}
				found++
				idxVar := exprStr(as.Lhs[0])
				// walk forward: every path must pass an edge idx>0 / idx<0 (true) before reaching a `paramKeyCnt++`
				bad := ""
				var dfs func(x *cfg.Block, safe bool, seen map[*cfg.Block]bool)
				dfs = func(x *cfg.Block, safe bool, seen map[*cfg.Block]bool) {
					if bad != "" || seen[x] {
						return
					}
					seen[x] = true
					for _, n2 := range x.Nodes {
						if inc, ok := n2.(*ast.IncDecStmt); ok && exprStr(inc.X) == "paramKeyCnt" && x != b {
							if !safe {
								bad = "the parameter is consumed at " + w.Pos(inc.Pos()) + " on a path where " + idxVar + " may be 0 (empty capture)"
							}
							delete(seen, x)
							return
						}
					}
					for _, sc := range x.Succs {
						if !sc.Live {
							continue
						}
						s2 := safe
						if f, ok := af.edgeFact(x, sc); ok {
							for _, ff := range splitFact(f) {
								if a, c, ok := isCmp(ff.e, token.GTR); ok && ff.val && a == idxVar && c == "0" {
									s2 = true
								}
								if a, c, ok := isCmp(ff.e, token.LSS); ok && ff.val && a == idxVar && c == "0" {
									s2 = true
								}
								if a, c, ok := isCmp(ff.e, token.EQL); ok && !ff.val && a == idxVar && c == "0" {
									s2 = true
								}
								if a, c, ok := isCmp(ff.e, token.NEQ); ok && ff.val && a == idxVar && c == "0" {
									s2 = true
								}
							}
						}
						dfs(sc, s2, seen)
					}
					delete(seen, x)
				}
				dfs(b, false, map[*cfg.Block]bool{})
				ru.Check("delimiter search in "+spec.fn, w.Pos(as.Pos()), "idx == 0 never reaches the capture", bad == "", orDefault(bad, "every capturing path has idx > 0 or idx < 0"))
				// a {param} ends at the next delimiter: wherever the result of this search is tested (idx > 0 / idx < 0 / ...), the
				// search is the only definition of idx that reaches the test — a constant or another value would let the capture
				// run across a segment or label boundary
				isSearch := func(n ast.Node) bool {
					a2, ok := n.(*ast.AssignStmt)
					if !ok || len(a2.Rhs) != 1 || len(a2.Lhs) != 1 || exprStr(a2.Lhs[0]) != idxVar {
						return false
					}
					c2, ok := a2.Rhs[0].(*ast.CallExpr)
					return ok && exprStr(c2.Fun) == "strings.IndexByte" && len(c2.Args) == 2 && exprStr(c2.Args[1]) == spec.delim && exprStr(c2.Args[0]) == exprStr(call.Args[0])
				}
				assignsIdx := func(n ast.Node) bool {
					switch t := n.(type) {
					case *ast.AssignStmt:
						for _, l := range t.Lhs {
							if exprStr(l) == idxVar {
								return true
							}
						}
					case *ast.IncDecStmt:
						return exprStr(t.X) == idxVar
					}
					return false
				}
				// test blocks: reachable from b without another assignment of idx, ending in a condition on idx
				var tests []*cfg.Block
				{
					seen := map[*cfg.Block]bool{}
					var fw func(x *cfg.Block, from int)
					fw = func(x *cfg.Block, from int) {
						for _, n2 := range x.Nodes[from:] {
							if assignsIdx(n2) {
								return
							}
						}
						if c := af.condOf(x); c != nil {
							mentions := false
							ast.Inspect(c, func(m ast.Node) bool {
								if id, ok := m.(*ast.Ident); ok && id.Name == idxVar {
									mentions = true
								}
								return true
							})
							if mentions {
								tests = append(tests, x)
							}
						}
						for _, sc := range x.Succs {
							if sc.Live && !seen[sc] {
								seen[sc] = true
								fw(sc, 0)
							}
						}
					}
					start := 0
					for i, n2 := range b.Nodes {
						if n2 == nd {
							start = i + 1
						}
					}
					fw(b, start)
				}
				other := ""
				for _, tb := range tests {
					seen := map[*cfg.Block]bool{}
					var bw func(x *cfg.Block)
					bw = func(x *cfg.Block) {
						if seen[x] || other != "" {
							return
						}
						seen[x] = true
						for i := len(x.Nodes) - 1; i >= 0; i-- {
							if assignsIdx(x.Nodes[i]) {
								if !isSearch(x.Nodes[i]) {
									other = fmt.Sprintf("%s assigned at %s also reaches the test at %s", idxVar, w.Pos(x.Nodes[i].Pos()), w.Pos(af.condOf(tb).Pos()))
								}
								return
							}
						}
						for _, pr := range af.pred[x] {
							if pr.Live {
								bw(pr)
							}
						}
					}
					bw(tb)
				}
				ru.Check("capture ends at the next delimiter in "+spec.fn, w.Pos(as.Pos()), "the delimiter search is the only definition of "+idxVar+" reaching the tests that size the capture", other == "" && len(tests) > 0, orDefault(other, fmt.Sprintf("%d test block(s), all reached by the search only", len(tests))))
			}
		}
		if found == 0 {
			r.Unrecognised("%s: no delimiter search for a {param} found in %s", id, spec.fn)
		}
	}
}

// requestPathSelection classifies the value handed to the matcher as the request path: it must be URL.RawPath on the
// paths where RawPath is known to be non-empty and URL.Path on the others; the selection may sit in the function
// itself (a phi) or in a helper whose returns make it.
func requestPathSelection(v ssa.Value, depth int) (raw, plain bool, other string) {
	if depth > 4 {
		return false, false, "selection too deep"
	}
	nonEmptyFact := func(fs []Fact) bool {
		for _, ft := range fs {
			bo, ok := ft.Cond.(*ssa.BinOp)
			if !ok {
				continue
			}
			if z, ok := constInt(bo.Y); ok && z == 0 && ((bo.Op == token.GTR && ft.Val) || (bo.Op == token.NEQ && ft.Val) || (bo.Op == token.EQL && !ft.Val) || (bo.Op == token.LEQ && !ft.Val)) {
				return true
			}
			if s, ok := constString(bo.Y); ok && s == "" && ((bo.Op == token.NEQ && ft.Val) || (bo.Op == token.EQL && !ft.Val)) {
				return true
			}
		}
		return false
	}
	merge := func(r2, p2 bool, o2 string) {
		raw, plain = raw || r2, plain || p2
		if o2 != "" {
			other = o2
		}
	}
	switch x := v.(type) {
	case *ssa.Phi:
		for i, e := range x.Edges {
			if _, f, isLoad := loadedField(e); isLoad && f.Name() == "RawPath" {
				if nonEmptyFact(factsOnEdge(x.Block().Preds[i], x.Block())) || nonEmptyFact(factsAtBlock(e.(*ssa.UnOp).Block())) {
					raw = true
				} else {
					other = "RawPath selected without a non-empty test"
				}
				continue
			}
			merge(requestPathSelection(e, depth+1))
		}
	case *ssa.UnOp:
		_, f, isLoad := loadedField(x)
		switch {
		case isLoad && f.Name() == "RawPath":
			if nonEmptyFact(factsAtBlock(x.Block())) {
				raw = true
			} else {
				other = "RawPath selected without a non-empty test"
			}
		case isLoad && f.Name() == "Path":
			plain = true
		default:
			other = "path argument " + valStr(v)
		}
	case *ssa.Call:
		callee := x.Call.StaticCallee()
		if callee == nil || len(callee.Blocks) == 0 || callee.Pkg == nil || callee.Pkg.Pkg.Path() != modulePath {
			return false, false, "path argument " + valStr(v)
		}
		eachInstr(callee, func(in ssa.Instruction) {
			if rt, ok := in.(*ssa.Return); ok && len(rt.Results) == 1 {
				merge(requestPathSelection(rt.Results[0], depth+1))
			}
		})
	default:
		other = "path argument " + valStr(v)
	}
	return
}

// checkCursorReset: the parameter cursor (paramKeyCnt) indexes the parameter table of the node under the cursor
// (`current.params[paramKeyCnt]`). When the matcher moves `current` to another node — a descent, or the resumption of a
// skipped alternative — a non-zero cursor of the old node is meaningless; it has to be set to 0 before it is read again.
// Both names are discovered from the index expressions X.params[Y] of the matcher.
func checkCursorReset(w *World, r *Report, id string) {
	ru := r.Rule(id, "the parameter cursor is reset when the node changes: in both matchers, no path advances the cursor Y of X.params[Y], then assigns X, and then reads Y without assigning 0 to it in between", 2)
	for _, fname := range []string{"lookupByPath", "lookupByDomain"} {
		af := w.astFuncOf(modulePath, fname)
		node, cursor := "", ""
		ast.Inspect(af.decl.Body, func(n ast.Node) bool {
			if ie, ok := n.(*ast.IndexExpr); ok {
				if sel, ok := ie.X.(*ast.SelectorExpr); ok && sel.Sel.Name == "params" {
					if x, ok := sel.X.(*ast.Ident); ok {
						if y, ok := ie.Index.(*ast.Ident); ok {
							node, cursor = x.Name, y.Name
						}
					}
				}
			}
			return true
		})
		if node == "" {
			r.Unrecognised("%s: no X.params[Y] index expression in %s", id, fname)
			continue
		}
		const (
			clean = 1 << iota // cursor is 0 or belongs to the node under the cursor
			advanced          // cursor was advanced for the node under the cursor
			stale             // cursor was advanced for a node that is no longer under the cursor
		)
		type eff struct {
			reads          []token.Pos
			moves, resets  bool
			advances       bool
			pos            token.Pos
		}
		effects := func(nd ast.Node) eff {
			var e eff
			var plainLHS ast.Expr
			switch x := nd.(type) {
			case *ast.AssignStmt:
				for i, l := range x.Lhs {
					if exprStr(l) == node && (x.Tok == token.ASSIGN || x.Tok == token.DEFINE) {
						e.moves, e.pos = true, x.Pos()
					}
					if exprStr(l) == cursor {
						if x.Tok == token.ASSIGN && i < len(x.Rhs) && exprStr(x.Rhs[i]) == "0" {
							e.resets, plainLHS = true, l
						} else {
							e.advances = true
						}
					}
				}
			case *ast.IncDecStmt:
				if exprStr(x.X) == cursor {
					e.advances = true
				}
			}
			ast.Inspect(nd, func(n ast.Node) bool {
				if _, isLit := n.(*ast.FuncLit); isLit {
					return false
				}
				if idn, ok := n.(*ast.Ident); ok && idn.Name == cursor && ast.Expr(idn) != plainLHS {
					e.reads = append(e.reads, idn.Pos())
				}
				return true
			})
			return e
		}
		in := map[*cfg.Block]int{af.g.Blocks[0]: clean}
		movedAt := map[*cfg.Block]token.Pos{}
		work := []*cfg.Block{af.g.Blocks[0]}
		bad := map[token.Pos]token.Pos{}
		nreads := 0
		for _, b := range af.g.Blocks {
			if b.Live {
				for _, nd := range b.Nodes {
					nreads += len(effects(nd).reads)
				}
			}
		}
		for len(work) > 0 {
			b := work[0]
			work = work[1:]
			st, mv := in[b], movedAt[b]
			for _, nd := range b.Nodes {
				e := effects(nd)
				if len(e.reads) > 0 && st&stale != 0 {
					for _, rp := range e.reads {
						if _, dup := bad[rp]; !dup {
							bad[rp] = mv
						}
					}
				}
				if e.resets {
					st = clean
				}
				if e.advances {
					st = advanced | (st & stale)
				}
				if e.moves {
					if st&(advanced|stale) != 0 {
						st = (st & clean) | stale
						mv = e.pos
					}
				}
			}
			for _, s := range b.Succs {
				if !s.Live {
					continue
				}
				if in[s]|st != in[s] {
					in[s] |= st
					if movedAt[s] == token.NoPos {
						movedAt[s] = mv
					}
					work = append(work, s)
				}
			}
		}
		var keys []int
		for rp := range bad {
			keys = append(keys, int(rp))
		}
		sort.Ints(keys)
		why := ""
		for _, k := range keys {
			why += fmt.Sprintf("%s read at %s may hold the position reached in the node left at %s; ", cursor, w.Pos(token.Pos(k)), w.Pos(bad[token.Pos(k)]))
		}
		ru.Check(cursor+" in "+fname, w.Pos(af.decl.Pos()), "set to 0 between every change of `"+node+"` (after an advance) and the next read", why == "", orDefault(strings.TrimSuffix(why, "; "), fmt.Sprintf("%d reads of %s, none stale", nreads, cursor)))
	}
}

// checkStaticSearchExcludesWildcards: the child tables index every child by the first byte of its key, so a param child
// is filed under '{' and a catch-all child under '*'. The search for the *static* child compares that table with the
// next request byte; if the request byte itself is '{' or '*' the search "finds" the wildcard child as if it were static
// text and the priority static > {param} > *{catch-all} is bypassed (request /a/* with routes /a/{p} and /a/*{c} selects
// the catch-all). The inner key/byte comparison of the same matcher already excludes the two bytes; the child search has
// to as well.
func checkStaticSearchExcludesWildcards(w *World, r *Report, id string) {
	ru := r.Rule(id, "the static-child search cannot land on a wildcard child: in the path matcher, every search of current.childKeys for the next request byte is dominated by tests that this byte is neither '{' nor '*' (as the byte-by-byte comparison of the key is)", 1)
	af := w.astFuncOf(modulePath, "lookupByPath")
	isDelim := func(s string, want byte) bool {
		switch want {
		case '{':
			return s == "bracketDelim" || s == "'{'"
		default:
			return s == "starDelim" || s == "'*'"
		}
	}
	n := 0
	check := func(at ast.Node, reqByte string) {
		b, _ := af.blockOf(at)
		if b == nil {
			return
		}
		n++
		notBrace, notStar := false, false
		for _, f := range af.factsAt(b) {
			for _, pr := range []struct {
				op  token.Token
				val bool
			}{{token.NEQ, true}, {token.EQL, false}} {
				if x, y, ok := isCmp(f.e, pr.op); ok && f.val == pr.val {
					for _, xy := range [][2]string{{x, y}, {y, x}} {
						if xy[0] == reqByte && isDelim(xy[1], '{') {
							notBrace = true
						}
						if xy[0] == reqByte && isDelim(xy[1], '*') {
							notStar = true
						}
					}
				}
			}
		}
		ru.Check("static child search in lookupByPath", w.Pos(at.Pos()), "guarded by "+reqByte+" != '{' and "+reqByte+" != '*'", notBrace && notStar, fmt.Sprintf("notBrace=%v notStar=%v", notBrace, notStar))
	}
	ast.Inspect(af.decl.Body, func(nd ast.Node) bool {
		switch x := nd.(type) {
		case *ast.BinaryExpr: // X.childKeys[i] == path[k]
			if x.Op == token.EQL && strings.HasSuffix(exprStr(x.X), ".childKeys[i]") && strings.HasPrefix(exprStr(x.Y), "path[") {
				check(x, exprStr(x.Y))
			}
		case *ast.CallExpr: // search helper (X.childKeys, path[k])
			if len(x.Args) == 2 && strings.HasSuffix(exprStr(x.Args[0]), ".childKeys") && strings.HasPrefix(exprStr(x.Args[1]), "path[") {
				check(x, exprStr(x.Args[1]))
			}
		}
		return true
	})
	if n == 0 {
		r.Unrecognised("%s: no search of the child keys for the next request byte found in lookupByPath", id)
	}
}

// checkReverseDefaults: the three Reverse entry points (router, transaction, iterator) are the same operation on
// different roots and have to hand the matcher the same path for the same argument: two of them default an empty path to
// "/", so the third must too (sibling agreement).
func checkReverseDefaults(w *World, r *Report, id string) {
	ru := r.Rule(id, "the Reverse entry points agree on the path they hand to the matcher: if any of Router.Reverse, Txn.Reverse and Iter.Reverse replaces an empty path by \"/\" (cmp.Or(path, \"/\")), all of them do", 3)
	type site struct {
		name     string
		fn       *ssa.Function
		call     *ssa.Call
		defaults bool
	}
	var sites []site
	var defaultsSlash func(v ssa.Value, depth int) bool
	defaultsSlash = func(v ssa.Value, depth int) bool {
		if depth > 6 {
			return false
		}
		v = seeThrough(v)
		switch x := v.(type) {
		case *ssa.Call:
			if obj := calleeObj(x); obj != nil && obj.Pkg() != nil && obj.Pkg().Path() == "cmp" && obj.Name() == "Or" {
				for _, el := range sliceElems(x.Call.Args[0]) {
					if s, ok := constString(el); ok && s == "/" {
						return true
					}
				}
			}
		case *ssa.Phi:
			for _, e := range x.Edges {
				if s, ok := constString(e); ok && s == "/" {
					return true
				}
				if defaultsSlash(e, depth+1) {
					return true
				}
			}
		case *ssa.FreeVar: // a value captured by the iterator closure
			fn := x.Parent()
			if parent := fn.Parent(); parent != nil {
				idx := -1
				for i, fv := range fn.FreeVars {
					if fv == x {
						idx = i
					}
				}
				found := false
				eachInstr(parent, func(in ssa.Instruction) {
					if mc, ok := in.(*ssa.MakeClosure); ok && mc.Fn == ssa.Value(fn) && idx >= 0 && idx < len(mc.Bindings) {
						if defaultsSlash(mc.Bindings[idx], depth+1) {
							found = true
						}
					}
				})
				return found
			}
		}
		return false
	}
	// the lookup call of an entry point: in the function, its closures, or a helper it calls (arguments substituted)
	var findLookup func(fn *ssa.Function, subst func(ssa.Value) ssa.Value, depth int) (*ssa.Call, ssa.Value)
	findLookup = func(fn *ssa.Function, subst func(ssa.Value) ssa.Value, depth int) (*ssa.Call, ssa.Value) {
		var call *ssa.Call
		var pathV ssa.Value
		for _, g := range withAnon(fn) {
			eachInstr(g, func(in ssa.Instruction) {
				c, ok := in.(*ssa.Call)
				if !ok || call != nil || c.Call.StaticCallee() == nil {
					return
				}
				cal := c.Call.StaticCallee()
				if cal.Name() == "lookup" && len(c.Call.Args) >= 5 {
					call, pathV = c, subst(c.Call.Args[len(c.Call.Args)-3])
					return
				}
				if depth < 2 && w.InModule(cal) && len(cal.Blocks) > 0 && cal.Name() != "Get" {
					inner := func(v ssa.Value) ssa.Value {
						if p, ok := v.(*ssa.Parameter); ok && p.Parent() == cal {
							if k := paramIndex(cal, p); k >= 0 && k < len(c.Call.Args) {
								return subst(c.Call.Args[k])
							}
						}
						return v
					}
					if c2, pv := findLookup(cal, inner, depth+1); c2 != nil {
						call, pathV = c, pv
					}
				}
			})
		}
		return call, pathV
	}
	for _, spec := range [][2]string{{"Router", "Reverse"}, {"Txn", "Reverse"}, {"Iter", "Reverse"}} {
		fn := w.Method(spec[0], spec[1])
		if fn == nil {
			r.Unrecognised("%s: %s.%s not found", id, spec[0], spec[1])
			continue
		}
		c, pv := findLookup(fn, func(v ssa.Value) ssa.Value { return v }, 0)
		if c == nil {
			r.Unrecognised("%s: no matcher call reachable from %s.%s", id, spec[0], spec[1])
			continue
		}
		sites = append(sites, site{spec[0] + "." + spec[1], fn, c, defaultsSlash(pv, 0)})
	}
	any := false
	for _, s := range sites {
		any = any || s.defaults
	}
	for _, s := range sites {
		ru.Check("path handed to the matcher by "+s.name, w.Pos(s.call.Pos()), "same defaulting of an empty path as the sibling entry points", s.defaults == any, fmt.Sprintf("defaultsEmptyPathToSlash=%v siblingsDo=%v", s.defaults, any))
	}
}

// checkSkipStackReset: the stack of skipped alternatives lives in the pooled context. Each matcher must empty it before
// it pushes to or pops from it, or the alternatives left by an earlier lookup on that context are resumed.
func checkSkipStackReset(w *World, r *Report, id string) {
	ru := r.Rule(id, "the stack of skipped alternatives starts empty: in both matchers the truncation `*c.skipNds = (*c.skipNds)[:0]` dominates every other use of c.skipNds", 2)
	for _, fname := range []string{"lookupByPath", "lookupByDomain"} {
		af := w.astFuncOf(modulePath, fname)
		ctxName := ""
		for _, f := range af.decl.Type.Params.List {
			if st, ok := f.Type.(*ast.StarExpr); ok {
				if idn, ok := st.X.(*ast.Ident); ok && idn.Name == "cTx" {
					ctxName = f.Names[0].Name
				}
			}
		}
		stack := ctxName + ".skipNds"
		var resetBlock *cfg.Block
		resetIdx := -1
		for _, b := range af.g.Blocks {
			if !b.Live {
				continue
			}
			for i, nd := range b.Nodes {
				if as, ok := nd.(*ast.AssignStmt); ok && len(as.Lhs) == 1 && exprStr(as.Lhs[0]) == "*"+stack && exprStr(as.Rhs[0]) == "(*"+stack+")[:0]" {
					if resetBlock == nil {
						resetBlock, resetIdx = b, i
					}
				}
			}
		}
		bad, nuse := "", 0
		for _, b := range af.g.Blocks {
			if !b.Live {
				continue
			}
			for i, nd := range b.Nodes {
				uses := false
				ast.Inspect(nd, func(n ast.Node) bool {
					if se, ok := n.(*ast.SelectorExpr); ok && exprStr(se) == stack {
						uses = true
					}
					return true
				})
				if !uses || (b == resetBlock && i == resetIdx) {
					continue
				}
				nuse++
				ok := resetBlock != nil && (af.dominates(resetBlock, b) && (b != resetBlock || resetIdx < i))
				if !ok && bad == "" {
					bad = "use at " + w.Pos(nd.Pos()) + " is not preceded on every path by the truncation to length 0"
				}
			}
		}
		if nuse == 0 {
			continue
		}
		ru.Check("skip stack in "+fname, w.Pos(af.decl.Pos()), "emptied before any push, pop or length test", bad == "" && resetBlock != nil, orDefault(bad, map[bool]string{true: fmt.Sprintf("%d uses, all after the reset", nuse), false: "no truncation of " + stack + " to length 0 in this matcher: alternatives left on the pooled context by an earlier lookup are resumed"}[resetBlock != nil]))
	}
}
