package main

import (
	"fmt"
	"go/ast"
	"go/constant"
	"go/token"
	"go/types"
	"sort"
	"strings"

	"golang.org/x/tools/go/cfg"
	"golang.org/x/tools/go/ssa"
)

func init() { register("C17", checkC17) }

// C17 — structural parts only. What CleanPath computes (equality with the lexical definition, idempotence) is a
// statement about runtime values and is NOT decided. Decided:
//
//	C17.1 the redirect is control-dependent on path == CleanPath(path) for the matched path value (last sentence of the property)
//	C17.2 every read of the input at the read cursor (p[0], p[n-1], p[r+k]) and every reslice of the fixed-capacity buffer is
//	      in range by the comparisons that guard it (difference-bound reasoning over the branch facts that hold on every
//	      path) — the part of "never panics" that does not need a loop invariant
//	C17.3 lazy-buffer discipline: the output so far is read from the input string only while no buffer has been
//	      materialised (len(buf) == 0) and from the buffer only afterwards; the same test selects the returned value
func checkC17(w *World, r *Report) {
	r.Explanation = "Structural parts of the property only. (1) In ServeHTTP the trailing-slash redirect is control-dependent on path == CleanPath(path) for the very path value handed to the matcher. " +
		"(2) In CleanPath and bufApp every index or slice expression whose index is built from the read cursor, the input length or constants is shown to be in range from the comparisons that hold on every path to it " +
		"(branch facts of the syntax CFG, short-circuit context inside a condition, unit propagation through failed earlier cases, difference bounds with disequalities; facts about a variable assigned " +
		"between the test and the use are dropped). (3) Reads of the output-so-far choose between the input string and the lazily materialised buffer by the test len(buf) == 0, consistently at every site including the returned value."
	r.NotDecided = []string{
		"that the returned string is the canonical form of the input, for any input (equality of the in-place rewrite with the lexical definition)",
		"idempotence",
		"range of the accesses indexed by the bare write cursor (p[w], buf[w], p[:w], buf[:w], s[w], b[w], s[:w]): they need the loop invariant w <= r (+1 when a leading slash is added), which is not derived here",
		"which request paths are redirected beyond the guard (C08)",
	}
	r.Assumptions = []string{"no integer overflow of cursor arithmetic (inputs shorter than 2^63 bytes)"}
	checkC17RedirectGuard(w, r)
	checkC17Index(w, r)
	checkC17Alphabet(w, r)
}

func checkC17RedirectGuard(w *World, r *Report) {
	ru := r.Rule("C17.1", "a trailing-slash redirect is issued only under path == CleanPath(path), for the path value handed to the matcher", 1)
	ru.Idiom("path == CleanPath(path) / CleanPath(path) == path / !(path != CleanPath(path))")
	d := analyseDispatch(w)
	r.Analysed(FuncName(d.fn))
	pathArg := d.mainLook.Call.Args[3]
	clean := w.Func("CleanPath")
	for f, calls := range d.specialCalls {
		if f.Name() != "tsrRedirect" {
			continue
		}
		for _, c := range calls {
			ok := false
			for _, f := range factsAtBlock(c.Block()) {
				bo, isBin := f.Cond.(*ssa.BinOp)
				if !isBin {
					continue
				}
				if !((bo.Op == token.EQL && f.Val) || (bo.Op == token.NEQ && !f.Val)) {
					continue
				}
				for _, pr := range [][2]ssa.Value{{bo.X, bo.Y}, {bo.Y, bo.X}} {
					if cl, isCall := pr[1].(*ssa.Call); isCall && cl.Call.StaticCallee() == clean && len(cl.Call.Args) == 1 && cl.Call.Args[0] == pathArg && pr[0] == pathArg {
						ok = true
					}
				}
			}
			ru.Check("redirect dispatch", w.Pos(c.Pos()), "dominated by path == CleanPath(path) on the matcher's path value", ok, fmt.Sprintf("pathIsClean=%v", ok))
		}
	}
}

// ---- difference-bound reasoning over syntax facts ------------------------------------------------------------------

// lin is a linear expression over named terms: sum coef[t]*t + c.
type lin struct {
	coef map[string]int64
	c    int64
}

func (l lin) sub(o lin) lin {
	out := lin{coef: map[string]int64{}, c: l.c - o.c}
	for k, v := range l.coef {
		out.coef[k] += v
	}
	for k, v := range o.coef {
		out.coef[k] -= v
	}
	for k, v := range out.coef {
		if v == 0 {
			delete(out.coef, k)
		}
	}
	return out
}

func (l lin) add(o lin) lin { return l.sub(lin{coef: negMap(o.coef), c: -o.c}) }

func negMap(m map[string]int64) map[string]int64 {
	out := map[string]int64{}
	for k, v := range m {
		out[k] = -v
	}
	return out
}

// varKey: canonical string of the variable part with the sign normalised (first term positive); neg tells whether the
// sign was flipped.
func (l lin) varKey() (key string, neg bool) {
	if len(l.coef) == 0 {
		return "", false
	}
	ks := make([]string, 0, len(l.coef))
	for k := range l.coef {
		ks = append(ks, k)
	}
	sort.Strings(ks)
	neg = l.coef[ks[0]] < 0
	var sb strings.Builder
	for _, k := range ks {
		v := l.coef[k]
		if neg {
			v = -v
		}
		fmt.Fprintf(&sb, "%+d*%s ", v, k)
	}
	return sb.String(), neg
}

type c17fn struct {
	w     *World
	af    *astFunc
	info  *types.Info
	alias map[types.Object]ast.Expr // single-definition locals: n := len(p), l := len(s)
	nass  map[types.Object]int      // number of assignments (incl. definition, ++, address taken)
	lb    map[types.Object]int64    // lower bound of monotone variables
	dec   map[types.Object]bool     // decremented somewhere (a write cursor that can backtrack)
	hasLb map[types.Object]bool
}

func newC17fn(w *World, name string) *c17fn {
	af := w.astFuncOf(modulePath, name)
	x := &c17fn{w: w, af: af, info: af.pkg.TypesInfo, alias: map[types.Object]ast.Expr{}, nass: map[types.Object]int{}, lb: map[types.Object]int64{}, hasLb: map[types.Object]bool{}, dec: map[types.Object]bool{}}
	mono := map[types.Object]bool{}
	bad := map[types.Object]bool{}
	note := func(id *ast.Ident, rhs ast.Expr, kind token.Token) {
		obj := x.info.ObjectOf(id)
		if obj == nil {
			return
		}
		x.nass[obj]++
		switch kind {
		case token.DEFINE, token.ASSIGN:
			if be, ok := unparenOrNil(rhs).(*ast.BinaryExpr); ok && kind == token.ASSIGN && be.Op == token.ADD {
				// v = v + c (c >= 0), also as part of a parallel assignment
				for _, pr := range [][2]ast.Expr{{be.X, be.Y}, {be.Y, be.X}} {
					if id2, ok := ast.Unparen(pr[0]).(*ast.Ident); ok && x.info.ObjectOf(id2) == obj {
						if tv, ok := x.info.Types[pr[1]]; ok && tv.Value != nil {
							if v, ok := constant.Int64Val(constant.ToInt(tv.Value)); ok && v >= 0 {
								mono[obj] = true
								return
							}
						}
					}
				}
			}
			if rhs != nil {
				x.alias[obj] = rhs
				if tv, ok := x.info.Types[rhs]; ok && tv.Value != nil {
					if v, ok := constant.Int64Val(constant.ToInt(tv.Value)); ok {
						if !x.hasLb[obj] || v < x.lb[obj] {
							x.lb[obj] = v
						}
						x.hasLb[obj] = true
						mono[obj] = true
						return
					}
				}
			}
			bad[obj] = true
		case token.INC:
			mono[obj] = true
		case token.ADD_ASSIGN:
			if tv, ok := x.info.Types[rhs]; ok && tv.Value != nil {
				if v, ok := constant.Int64Val(constant.ToInt(tv.Value)); ok && v >= 0 {
					mono[obj] = true
					return
				}
			}
			bad[obj] = true
		case token.DEC, token.SUB_ASSIGN:
			x.dec[obj] = true
			bad[obj] = true
		default:
			bad[obj] = true
		}
	}
	ast.Inspect(af.decl.Body, func(n ast.Node) bool {
		switch s := n.(type) {
		case *ast.AssignStmt:
			for i, l := range s.Lhs {
				if id, ok := l.(*ast.Ident); ok {
					var rhs ast.Expr
					if len(s.Rhs) == len(s.Lhs) {
						rhs = s.Rhs[i]
					}
					note(id, rhs, s.Tok)
				}
			}
		case *ast.IncDecStmt:
			if id, ok := s.X.(*ast.Ident); ok {
				note(id, nil, s.Tok)
			}
		case *ast.RangeStmt:
			for _, e := range []ast.Expr{s.Key, s.Value} {
				if id, ok := e.(*ast.Ident); ok {
					note(id, nil, token.ILLEGAL)
				}
			}
		case *ast.UnaryExpr:
			if s.Op == token.AND {
				if id, ok := s.X.(*ast.Ident); ok {
					note(id, nil, token.ILLEGAL)
				}
			}
		}
		return true
	})
	for obj := range x.hasLb {
		if bad[obj] {
			delete(x.hasLb, obj)
		}
	}
	for obj := range x.alias {
		if x.nass[obj] != 1 {
			delete(x.alias, obj)
		}
	}
	return x
}

// lin converts an integer expression; ok=false when it is not linear in recognisable terms.
func (x *c17fn) lin(e ast.Expr) (lin, bool) {
	e = ast.Unparen(e)
	if tv, ok := x.info.Types[e]; ok && tv.Value != nil {
		if v, ok := constant.Int64Val(constant.ToInt(tv.Value)); ok {
			return lin{coef: map[string]int64{}, c: v}, true
		}
	}
	switch t := e.(type) {
	case *ast.Ident:
		obj := x.info.ObjectOf(t)
		if obj == nil {
			return lin{}, false
		}
		if rhs, ok := x.alias[obj]; ok {
			// single-definition alias of a length: n := len(p)
			if c, ok := ast.Unparen(rhs).(*ast.CallExpr); ok && x.isBuiltin(c, "len") {
				return x.lin(rhs)
			}
			// need := n + 1: linear in lengths/capacities and constants only (nothing that could change in between)
			if l, ok := x.lin(rhs); ok {
				pure := true
				for t := range l.coef {
					if strings.HasPrefix(t, "v:") {
						pure = false
					}
				}
				if pure {
					return l, true
				}
			}
		}
		if _, ok := obj.(*types.Var); ok {
			return lin{coef: map[string]int64{"v:" + obj.Name(): 1}}, true
		}
	case *ast.CallExpr:
		if (x.isBuiltin(t, "len") || x.isBuiltin(t, "cap")) && len(t.Args) == 1 {
			fn := t.Fun.(*ast.Ident).Name
			return lin{coef: map[string]int64{fn + "(" + exprStr(t.Args[0]) + ")": 1}}, true
		}
	case *ast.BinaryExpr:
		if t.Op == token.ADD || t.Op == token.SUB {
			a, ok1 := x.lin(t.X)
			b, ok2 := x.lin(t.Y)
			if ok1 && ok2 {
				if t.Op == token.ADD {
					return a.add(b), true
				}
				return a.sub(b), true
			}
		}
	}
	return lin{}, false
}

func (x *c17fn) isBuiltin(c *ast.CallExpr, name string) bool {
	id, ok := c.Fun.(*ast.Ident)
	if !ok || id.Name != name {
		return false
	}
	_, isB := x.info.Uses[id].(*types.Builtin)
	return isB
}

// bounds of the canonical variable part V of a goal, collected from facts.
type c17bounds struct {
	ub, lb       int64
	hasUb, hasLb bool
	neq          map[int64]bool
}

func (b *c17bounds) setUb(v int64) {
	if !b.hasUb || v < b.ub {
		b.ub, b.hasUb = v, true
	}
}
func (b *c17bounds) setLb(v int64) {
	if !b.hasLb || v > b.lb {
		b.lb, b.hasLb = v, true
	}
}
func (b *c17bounds) tighten() {
	for b.hasUb && b.neq[b.ub] {
		b.ub--
	}
	for b.hasLb && b.neq[b.lb] {
		b.lb++
	}
}

// constrain: d REL 0 with d = s*V + c (s = -1 when neg).
func (b *c17bounds) constrain(neg bool, c int64, op token.Token) {
	// rewrite as V REL' k
	if neg {
		// -V + c op 0  <=>  V - c op' 0
		c = -c
		switch op {
		case token.LSS:
			op = token.GTR
		case token.LEQ:
			op = token.GEQ
		case token.GTR:
			op = token.LSS
		case token.GEQ:
			op = token.LEQ
		}
	}
	k := -c // V op k
	switch op {
	case token.LSS:
		b.setUb(k - 1)
	case token.LEQ:
		b.setUb(k)
	case token.GTR:
		b.setLb(k + 1)
	case token.GEQ:
		b.setLb(k)
	case token.EQL:
		b.setUb(k)
		b.setLb(k)
	case token.NEQ:
		b.neq[k] = true
	}
}

func negOp(op token.Token) token.Token {
	switch op {
	case token.LSS:
		return token.GEQ
	case token.LEQ:
		return token.GTR
	case token.GTR:
		return token.LEQ
	case token.GEQ:
		return token.LSS
	case token.EQL:
		return token.NEQ
	case token.NEQ:
		return token.EQL
	}
	return token.ILLEGAL
}

// cmpOf turns an atomic fact into d REL 0.
func (x *c17fn) cmpOf(f astFact) (lin, token.Token, bool) {
	be, ok := ast.Unparen(f.e).(*ast.BinaryExpr)
	if !ok {
		return lin{}, 0, false
	}
	op := be.Op
	switch op {
	case token.LSS, token.LEQ, token.GTR, token.GEQ, token.EQL, token.NEQ:
	default:
		return lin{}, 0, false
	}
	if !f.val {
		op = negOp(op)
	}
	// string emptiness: s == "" is len(s) == 0
	if op == token.EQL || op == token.NEQ {
		for _, pr := range [][2]ast.Expr{{be.X, be.Y}, {be.Y, be.X}} {
			if tv, ok := x.info.Types[pr[1]]; ok && tv.Value != nil && tv.Value.Kind() == constant.String && constant.StringVal(tv.Value) == "" {
				if bt, ok := x.info.TypeOf(pr[0]).Underlying().(*types.Basic); ok && bt.Info()&types.IsString != 0 {
					return lin{coef: map[string]int64{"len(" + exprStr(pr[0]) + ")": 1}}, op, true
				}
			}
		}
	}
	a, ok1 := x.lin(be.X)
	b, ok2 := x.lin(be.Y)
	if !ok1 || !ok2 {
		return lin{}, 0, false
	}
	return a.sub(b), op, true
}

// prove: goal REL 0 (REL one of <, <=, >=) from the facts.
func (x *c17fn) prove(goal lin, op token.Token, facts []astFact) (bool, string) {
	key, gneg := goal.varKey()
	if key == "" {
		switch op {
		case token.LSS:
			return goal.c < 0, "constant"
		case token.LEQ:
			return goal.c <= 0, "constant"
		case token.GEQ:
			return goal.c >= 0, "constant"
		}
		return false, ""
	}
	b := &c17bounds{neq: map[int64]bool{}}
	var used []string
	for _, f := range facts {
		d, fop, ok := x.cmpOf(f)
		if !ok {
			continue
		}
		k, neg := d.varKey()
		if k != key {
			continue
		}
		b.constrain(neg, d.c, fop)
		used = append(used, f.String())
	}
	// built-in facts for a single-term variable part
	if len(goal.coef) == 1 {
		for t := range goal.coef {
			if strings.HasPrefix(t, "len(") || strings.HasPrefix(t, "cap(") {
				b.setLb(0)
				used = append(used, t+" >= 0")
			}
			if strings.HasPrefix(t, "v:") {
				for obj, ok := range x.hasLb {
					if ok && "v:"+obj.Name() == t {
						b.setLb(x.lb[obj])
						used = append(used, fmt.Sprintf("%s >= %d (only initialised with constants and incremented)", obj.Name(), x.lb[obj]))
					}
				}
			}
		}
	}
	b.tighten()
	// goal: s*V + c op 0
	g := &c17bounds{neq: map[int64]bool{}}
	g.constrain(gneg, goal.c, op)
	ok := false
	if g.hasUb {
		ok = b.hasUb && b.ub <= g.ub
	}
	if g.hasLb {
		ok = b.hasLb && b.lb >= g.lb
	}
	return ok, strings.Join(used, "; ")
}

// ---- facts with provenance, kill analysis, short-circuit context, unit propagation -----------------------------------

func (x *c17fn) objsOf(e ast.Expr) map[types.Object]bool {
	out := map[types.Object]bool{}
	ast.Inspect(e, func(n ast.Node) bool {
		if id, ok := n.(*ast.Ident); ok {
			if v, ok := x.info.ObjectOf(id).(*types.Var); ok {
				out[v] = true
			}
		}
		return true
	})
	return out
}

// assigns reports whether node n assigns (or takes the address of, or stores through a pointer to) one of objs.
func (x *c17fn) assigns(n ast.Node, objs map[types.Object]bool) bool {
	hit := false
	lhs := func(e ast.Expr) {
		switch t := ast.Unparen(e).(type) {
		case *ast.Ident:
			if objs[x.info.ObjectOf(t)] {
				hit = true
			}
		case *ast.StarExpr: // *buf = ...
			for o := range x.objsOf(t.X) {
				if objs[o] {
					hit = true
				}
			}
		}
	}
	ast.Inspect(n, func(m ast.Node) bool {
		switch s := m.(type) {
		case *ast.AssignStmt:
			for _, l := range s.Lhs {
				lhs(l)
			}
		case *ast.IncDecStmt:
			lhs(s.X)
		case *ast.RangeStmt:
			if s.Key != nil {
				lhs(s.Key)
			}
			if s.Value != nil {
				lhs(s.Value)
			}
		case *ast.UnaryExpr:
			if s.Op == token.AND {
				lhs(s.X)
			}
		case *ast.FuncLit:
			for o := range x.objsOf(s) {
				if objs[o] {
					hit = true
				}
			}
		}
		return true
	})
	return hit
}

// factsFor: the facts that hold at node `use` (index i of block b): edge facts of dominating edges that survive the
// kill analysis, plus the short-circuit context inside the block node that contains the use.
func (x *c17fn) factsFor(use ast.Node) []astFact { return x.factsFor2(use, true) }

func (x *c17fn) factsFor2(use ast.Node, kill bool) []astFact {
	af := x.af
	b, idx := af.blockOf(use)
	if b == nil {
		return nil
	}
	var out []astFact
	// can b reach itself without passing d? computed per d below
	for d := b; d != nil; d = af.idom[d] {
		p := af.idom[d]
		if p == nil {
			break
		}
		live := 0
		var only *cfg.Block
		for _, q := range af.pred[d] {
			if q.Live {
				live++
				only = q
			}
		}
		if live != 1 || only != p {
			continue
		}
		f, ok := af.edgeFact(p, d)
		if !ok {
			continue
		}
		for _, a := range splitFact(f) {
			if !kill || x.survives(a, d, b, idx) {
				out = append(out, a)
			}
		}
	}
	// short-circuit context inside the node
	if idx >= 0 && idx < len(b.Nodes) {
		// the outermost expression of the node that contains the use
		var root ast.Expr
		ast.Inspect(b.Nodes[idx], func(n ast.Node) bool {
			if root != nil || n == nil {
				return false
			}
			if e, ok := n.(ast.Expr); ok && e.Pos() <= use.Pos() && use.End() <= e.End() {
				root = e
				return false
			}
			return true
		})
		if root != nil {
			out = append(out, contextFacts(root, use)...)
		}
	}
	return x.propagate(out)
}

// survives: no assignment to a variable of fact a on any path from the entry of d to the use that does not re-enter d.
func (x *c17fn) survives(a astFact, d, b *cfg.Block, idx int) bool {
	objs := x.objsOf(a.e)
	if len(objs) == 0 {
		return true
	}
	af := x.af
	// forward from d without re-entering d
	fwd := map[*cfg.Block]bool{d: true}
	stack := []*cfg.Block{d}
	for len(stack) > 0 {
		q := stack[len(stack)-1]
		stack = stack[:len(stack)-1]
		for _, s := range q.Succs {
			if s == d || fwd[s] || !s.Live {
				continue
			}
			fwd[s] = true
			stack = append(stack, s)
		}
	}
	// backward from b without passing through d
	bwd := map[*cfg.Block]bool{b: true}
	bInCycle := false
	if b != d {
		stack = []*cfg.Block{b}
		for len(stack) > 0 {
			q := stack[len(stack)-1]
			stack = stack[:len(stack)-1]
			for _, pr := range af.pred[q] {
				if !pr.Live {
					continue
				}
				if pr == b {
					bInCycle = true
				}
				if pr == d {
					bwd[d] = true
					continue
				}
				if bwd[pr] {
					continue
				}
				bwd[pr] = true
				stack = append(stack, pr)
			}
		}
	}
	for q := range fwd {
		if !bwd[q] {
			continue
		}
		for i, n := range q.Nodes {
			if q == b && !bInCycle && i >= idx {
				break
			}
			if q == b && i == idx {
				continue // the use itself is an expression; an assignment statement containing it is handled below
			}
			if x.assigns(n, objs) {
				return false
			}
		}
	}
	return true
}

// contextFacts: facts implied by short-circuit evaluation for the sub-expression target of root.
func contextFacts(root ast.Expr, target ast.Node) []astFact {
	var out []astFact
	contains := func(e ast.Node) bool { return e.Pos() <= target.Pos() && target.End() <= e.End() }
	cur := root
	for cur != nil && contains(cur) {
		switch t := cur.(type) {
		case *ast.ParenExpr:
			cur = t.X
		case *ast.UnaryExpr:
			cur = t.X
		case *ast.BinaryExpr:
			if contains(t.X) {
				cur = t.X
				continue
			}
			if !contains(t.Y) {
				return out
			}
			if t.Op == token.LAND {
				out = append(out, splitFact(astFact{t.X, true})...)
			} else if t.Op == token.LOR {
				out = append(out, splitFact(astFact{t.X, false})...)
			}
			cur = t.Y
		default:
			return out
		}
	}
	return out
}

// propagate: unit propagation through negated conjunctions / asserted disjunctions.
func (x *c17fn) propagate(facts []astFact) []astFact {
	known := map[string]bool{}
	has := map[string]bool{}
	add := func(f astFact) bool {
		f = normAstFact(f)
		k := exprStr(f.e)
		if has[k] {
			return false
		}
		has[k], known[k] = true, f.val
		return true
	}
	var all []astFact
	for _, f := range facts {
		if add(f) {
			all = append(all, normAstFact(f))
		}
	}
	var flatten func(e ast.Expr, op token.Token) []ast.Expr
	flatten = func(e ast.Expr, op token.Token) []ast.Expr {
		e = ast.Unparen(e)
		if be, ok := e.(*ast.BinaryExpr); ok && be.Op == op {
			return append(flatten(be.X, op), flatten(be.Y, op)...)
		}
		return []ast.Expr{e}
	}
	for changed := true; changed; {
		changed = false
		for _, f := range all {
			be, ok := ast.Unparen(f.e).(*ast.BinaryExpr)
			if !ok {
				continue
			}
			var parts []ast.Expr
			var want bool // value the other parts must have for the last one to be forced
			switch {
			case be.Op == token.LAND && !f.val:
				parts, want = flatten(be, token.LAND), true
			case be.Op == token.LOR && f.val:
				parts, want = flatten(be, token.LOR), false
			default:
				continue
			}
			var open []ast.Expr
			dead := false
			for _, p := range parts {
				nf := normAstFact(astFact{p, true})
				k := exprStr(nf.e)
				if has[k] {
					v := known[k] == nf.val // value of p
					if v != want {
						dead = true // already satisfied (a conjunct is false / a disjunct is true)
					}
					continue
				}
				open = append(open, p)
			}
			if dead || len(open) != 1 {
				continue
			}
			for _, nf := range splitFact(astFact{open[0], !want}) {
				if add(nf) {
					all = append(all, normAstFact(nf))
					changed = true
				}
			}
		}
	}
	return all
}

// ---- the index rule -----------------------------------------------------------------------------------------------------

func checkC17Index(w *World, r *Report) {
	ru := r.Rule("C17.2", "CleanPath/bufApp: every index or slice expression on the input string or the buffer whose index is built from the read cursor, the input length and constants is in range by the comparisons that hold on every path to it (0 <= index, index < len for reads, bound <= cap for a reslice of the fixed-capacity buffer)", 8)
	ru.Idiom("r < n loop/short-circuit guard", "an earlier case `p[r] == '.' && r+1 == n` that failed gives r+1 != n once p[r] == '.' is known", "`r+2 == n || p[r+2] == '/'`", "p != \"\" for p[0]", "n > 1 for p[n-1]", "!(n+1 > cap) for buf[:n+1] of make([]byte, 0, cap)")
	ru3 := r.Rule("C17.3", "lazy-buffer discipline: the output so far is read through the write cursor from the input string only under len(buf) == 0 and from the buffer only under len(buf) != 0; CleanPath returns the input prefix exactly when no buffer was materialised", 4)
	undecided := 0
	for _, name := range []string{"CleanPath", "bufApp"} {
		x := newC17fn(w, name)
		r.Analysed(name)
		// the write cursor(s): int variables (or parameters) that are not monotone — decremented, or a parameter
		isWriteCursor := func(e ast.Expr) bool {
			id, ok := ast.Unparen(e).(*ast.Ident)
			if !ok {
				return false
			}
			obj, ok := x.info.ObjectOf(id).(*types.Var)
			if !ok {
				return false
			}
			if _, isAlias := x.alias[obj]; isAlias {
				return false
			}
			if x.dec[obj] {
				return true
			}
			// a parameter of the helper (bufApp's w)
			if sig, ok := x.info.ObjectOf(x.af.decl.Name).Type().(*types.Signature); ok {
				for i := 0; i < sig.Params().Len(); i++ {
					if sig.Params().At(i) == obj {
						return true
					}
				}
			}
			return false
		}
		// a cursor advanced by a step the analysis cannot bound (r += k with k not a constant) is neither: no verdict on its sites
		unbounded := func(e ast.Expr) string {
			name := ""
			ast.Inspect(e, func(n ast.Node) bool {
				if id, ok := n.(*ast.Ident); ok {
					if obj, ok := x.info.ObjectOf(id).(*types.Var); ok && x.nass[obj] > 0 && !x.hasLb[obj] && !x.dec[obj] {
						if _, isAlias := x.alias[obj]; !isAlias {
							if bt, ok := obj.Type().Underlying().(*types.Basic); ok && bt.Info()&types.IsInteger != 0 {
								name = obj.Name()
							}
						}
					}
				}
				return true
			})
			return name
		}
		var sites []ast.Expr
		ast.Inspect(x.af.decl.Body, func(n ast.Node) bool {
			switch t := n.(type) {
			case *ast.IndexExpr:
				if x.isSeq(t.X) {
					sites = append(sites, t)
				}
			case *ast.SliceExpr:
				if x.isSeq(t.X) {
					sites = append(sites, t)
				}
			}
			return true
		})
		for _, s := range sites {
			var base ast.Expr
			var idxs []ast.Expr
			isSlice := false
			switch t := s.(type) {
			case *ast.IndexExpr:
				base, idxs = t.X, []ast.Expr{t.Index}
			case *ast.SliceExpr:
				base, isSlice = t.X, true
				for _, e := range []ast.Expr{t.Low, t.High, t.Max} {
					if e != nil {
						idxs = append(idxs, e)
					}
				}
			}
			construct := fmt.Sprintf("%s in %s", exprStr(s), name)
			pos := w.Pos(s.Pos())
			baseIsString := false
			if bt, ok := x.info.TypeOf(base).Underlying().(*types.Basic); ok && bt.Info()&types.IsString != 0 {
				baseIsString = true
			}
			// C17.3: reads through the write cursor
			viaWrite := false
			for _, e := range idxs {
				if isWriteCursor(e) {
					viaWrite = true
				}
			}
			skip := false
			for _, e := range idxs {
				if v := unbounded(e); v != "" && !viaWrite {
					r.Unrecognised("C17.2: %s at %s: cursor %s is assigned in a way the analysis cannot bound (not a constant, ++ or += constant)", exprStr(s), pos, v)
					skip = true
				}
			}
			if skip {
				continue
			}
			if viaWrite {
				undecided++
				if !x.isStoreTarget(s) {
					facts := x.factsFor(s)
					if x.isCopySource(s) {
						// the materialisation itself: copy(newBuffer, input[:w]) — demanded: the buffer was empty when the branch was entered
						facts = x.factsFor2(s, false)
					}
					empty, nonEmpty := x.bufEmptiness(facts)
					if baseIsString {
						ru3.Check(construct, pos, "read of the output-so-far from the input string only while no buffer exists (len(buf) == 0 on every path)", empty, fmt.Sprintf("bufferEmptyKnown=%v facts=%v", empty, factStrings(facts)))
					} else {
						ru3.Check(construct, pos, "read of the output-so-far from the buffer only once it exists (len(buf) != 0 on every path)", nonEmpty, fmt.Sprintf("bufferNonEmptyKnown=%v facts=%v", nonEmpty, factStrings(facts)))
					}
				}
				continue
			}
			if !baseIsString && !isSlice {
				// element access of the buffer at a constant/read-cursor index needs the buffer's length, which is not tracked
				undecided++
				ru.Note("not decided: %s at %s (length of the buffer is not tracked)", exprStr(s), pos)
				continue
			}
			facts := x.factsFor(s)
			allOK, whyAll := true, []string{}
			for _, e := range idxs {
				le, ok := x.lin(e)
				if !ok {
					r.Unrecognised("C17.2: index expression %s at %s is not linear in cursor/length/constants", exprStr(e), pos)
					allOK = false
					continue
				}
				okLo, _ := x.prove(lin{coef: negMap(le.coef), c: -le.c}, token.LEQ, facts) // -e <= 0
				var okHi bool
				var how string
				if !isSlice {
					okHi, how = x.prove(le.sub(lin{coef: map[string]int64{"len(" + exprStr(base) + ")": 1}}), token.LSS, facts)
				} else if baseIsString {
					okHi, how = x.prove(le.sub(lin{coef: map[string]int64{"len(" + exprStr(base) + ")": 1}}), token.LEQ, facts)
				} else {
					capTerms := x.capOf(base, s)
					if len(capTerms) == 0 {
						r.Unrecognised("C17.2: capacity of %s at %s unknown", exprStr(base), pos)
						allOK = false
						continue
					}
					for _, capTerm := range capTerms {
						if okHi, how = x.prove(le.sub(capTerm), token.LEQ, facts); okHi {
							break
						}
					}
				}
				if !okLo || !okHi {
					allOK = false
					whyAll = append(whyAll, fmt.Sprintf("index %s: lowerBound=%v upperBound=%v", exprStr(e), okLo, okHi))
				} else {
					whyAll = append(whyAll, fmt.Sprintf("index %s: %s", exprStr(e), how))
				}
			}
			ru.Check(construct, pos, "index in range on every path", allOK, strings.Join(whyAll, " | ")+" facts="+fmt.Sprint(factStrings(facts)))
		}
	}
	// the returned value of CleanPath: p[:w] under len(buf)==0 is covered by C17.3 above (slice of p through the write cursor).
	ru.Note("%d accesses go through the bare write cursor and are not decided for range (see not_decided); their lazy-buffer side is rule C17.3", undecided)
}

func factStrings(fs []astFact) []string {
	var out []string
	for _, f := range fs {
		out = append(out, f.String())
	}
	sort.Strings(out)
	return out
}

// isSeq: string or []byte (also through a pointer dereference).
func (x *c17fn) isSeq(e ast.Expr) bool {
	t := x.info.TypeOf(e)
	if t == nil {
		return false
	}
	switch u := t.Underlying().(type) {
	case *types.Basic:
		return u.Info()&types.IsString != 0
	case *types.Slice:
		if b, ok := u.Elem().Underlying().(*types.Basic); ok && b.Kind() == types.Uint8 {
			return true
		}
	}
	return false
}

// isCopySource: s is the second argument of the builtin copy.
func (x *c17fn) isCopySource(s ast.Expr) bool {
	found := false
	ast.Inspect(x.af.decl.Body, func(n ast.Node) bool {
		if c, ok := n.(*ast.CallExpr); ok && x.isBuiltin(c, "copy") && len(c.Args) == 2 && ast.Unparen(c.Args[1]) == s {
			found = true
		}
		return !found
	})
	return found
}

// isStoreTarget: s is the left-hand side of an assignment (b[w] = c).
func (x *c17fn) isStoreTarget(s ast.Expr) bool {
	found := false
	ast.Inspect(x.af.decl.Body, func(n ast.Node) bool {
		if as, ok := n.(*ast.AssignStmt); ok {
			for _, l := range as.Lhs {
				if ast.Unparen(l) == s {
					found = true
				}
			}
		}
		return !found
	})
	return found
}

// bufEmptiness: do the facts establish len(<a []byte>) == 0, or != 0 / > 0?
func (x *c17fn) bufEmptiness(facts []astFact) (empty, nonEmpty bool) {
	for _, f := range facts {
		d, op, ok := x.cmpOf(f)
		if !ok || len(d.coef) != 1 {
			continue
		}
		for t, co := range d.coef {
			if !strings.HasPrefix(t, "len(") {
				continue
			}
			// is the argument a []byte?
			isBytes := false
			ast.Inspect(f.e, func(n ast.Node) bool {
				if c, ok := n.(*ast.CallExpr); ok && x.isBuiltin(c, "len") && len(c.Args) == 1 {
					if _, ok := x.info.TypeOf(c.Args[0]).Underlying().(*types.Slice); ok {
						isBytes = true
					}
				}
				return true
			})
			if !isBytes {
				continue
			}
			if co != 1 && co != -1 {
				continue
			}
			b := &c17bounds{neq: map[int64]bool{}}
			b.constrain(co < 0, d.c, op)
			b.setLb(0)
			b.tighten()
			if b.hasUb && b.ub <= 0 {
				empty = true
			}
			if b.hasLb && b.lb >= 1 {
				nonEmpty = true
			}
		}
	}
	return
}

// capOf: the capacity of the buffer expression at the use, as a linear term: a constant when the only definition that
// reaches the use is make([]byte, _, K); cap(*ptr) for a dereferenced pointer parameter (facts speak about an alias).
func (x *c17fn) capOf(base ast.Expr, use ast.Node) []lin {
	var out []lin
	switch t := ast.Unparen(base).(type) {
	case *ast.Ident:
		obj := x.info.ObjectOf(t)
		// all assignments to obj from which the use is reachable
		var defs []ast.Expr
		bad := false
		ub, ui := x.af.blockOf(use)
		for _, b := range x.af.g.Blocks {
			if !b.Live {
				continue
			}
			for i, n := range b.Nodes {
				as, ok := n.(*ast.AssignStmt)
				if !ok {
					if x.assigns(n, map[types.Object]bool{obj: true}) && x.reaches(b, i, ub, ui) {
						bad = true
					}
					continue
				}
				for j, l := range as.Lhs {
					if id, ok := l.(*ast.Ident); ok && x.info.ObjectOf(id) == obj && x.reaches(b, i, ub, ui) {
						if len(as.Rhs) == len(as.Lhs) {
							defs = append(defs, as.Rhs[j])
						} else {
							bad = true
						}
					}
				}
			}
		}
		if bad || len(defs) != 1 {
			return nil
		}
		if c, ok := ast.Unparen(defs[0]).(*ast.CallExpr); ok && x.isBuiltin(c, "make") && len(c.Args) == 3 {
			if l, ok := x.lin(c.Args[2]); ok {
				out = append(out, l)
			}
		}
	case *ast.StarExpr:
		// (*buf)[:l]: a fact about cap(*buf) itself (killed by a store through the pointer) ...
		out = append(out, lin{coef: map[string]int64{"cap(" + exprStr(t) + ")": 1}})
		// ... or about cap(b) with b := *buf the only definition reaching
		for obj, rhs := range x.aliasAll() {
			if exprStr(rhs) == exprStr(t) {
				ub, ui := x.af.blockOf(use)
				if x.singleReachingDef(obj, rhs, ub, ui) {
					out = append(out, lin{coef: map[string]int64{"cap(" + obj.Name() + ")": 1}})
				}
			}
		}
	}
	return out
}

// aliasAll: every `v := <expr>` / `v = <expr>` assignment's (object, rhs), first definition per object.
func (x *c17fn) aliasAll() map[types.Object]ast.Expr {
	out := map[types.Object]ast.Expr{}
	ast.Inspect(x.af.decl.Body, func(n ast.Node) bool {
		if as, ok := n.(*ast.AssignStmt); ok && len(as.Lhs) == len(as.Rhs) {
			for i, l := range as.Lhs {
				if id, ok := l.(*ast.Ident); ok {
					if obj := x.info.ObjectOf(id); obj != nil {
						if _, seen := out[obj]; !seen {
							out[obj] = as.Rhs[i]
						}
					}
				}
			}
		}
		return true
	})
	return out
}

// singleReachingDef: every assignment to obj that reaches the use has a right-hand side textually equal to rhs, and no
// store through the dereferenced pointer lies between such a definition and the use.
func (x *c17fn) singleReachingDef(obj types.Object, rhs ast.Expr, ub *cfg.Block, ui int) bool {
	n := 0
	ptrObjs := x.objsOf(rhs)
	for _, b := range x.af.g.Blocks {
		if !b.Live {
			continue
		}
		for i, nd := range b.Nodes {
			if !x.reaches(b, i, ub, ui) {
				continue
			}
			if as, ok := nd.(*ast.AssignStmt); ok {
				for j, l := range as.Lhs {
					if id, ok := l.(*ast.Ident); ok && x.info.ObjectOf(id) == obj {
						if len(as.Rhs) != len(as.Lhs) || exprStr(as.Rhs[j]) != exprStr(rhs) {
							return false
						}
						n++
					}
					if st, ok := ast.Unparen(l).(*ast.StarExpr); ok {
						for o := range x.objsOf(st.X) {
							if ptrObjs[o] {
								return false
							}
						}
					}
				}
			}
		}
	}
	return n >= 1
}

// reaches: control can flow from just after node i of block b to node ui of block ub.
func (x *c17fn) reaches(b *cfg.Block, i int, ub *cfg.Block, ui int) bool {
	if ub == nil {
		return false
	}
	if b == ub && i < ui {
		return true
	}
	return x.af.reachableFrom(b)[ub]
}

// checkC17Alphabet: the canonical form is defined over three classes of bytes — '/', '.', anything else — so the cleaner
// may examine a byte of its input only by comparing it with '/' or '.', or with another byte of the input/output (the
// lazy-buffer comparison). A comparison with any other constant gives some other byte a meaning the definition does not
// know ("values touched only through comparisons").
func checkC17Alphabet(w *World, r *Report) {
	ru := r.Rule("C17.4", "CleanPath/bufApp examine bytes only by comparison with '/' or '.' (or with another byte of the input/output): no other byte value has a meaning in the canonical form", 6)
	for _, name := range []string{"CleanPath", "bufApp"} {
		af := w.astFuncOf(modulePath, name)
		info := af.pkg.TypesInfo
		isByte := func(e ast.Expr) bool {
			t := info.TypeOf(e)
			if t == nil {
				return false
			}
			b, ok := t.Underlying().(*types.Basic)
			return ok && (b.Kind() == types.Uint8 || b.Kind() == types.UntypedRune || b.Kind() == types.Int32)
		}
		constByte := func(e ast.Expr) (int64, bool) {
			if tv, ok := info.Types[e]; ok && tv.Value != nil && tv.Value.Kind() == constant.Int {
				return constant.Int64Val(tv.Value)
			}
			return 0, false
		}
		ast.Inspect(af.decl.Body, func(n ast.Node) bool {
			switch t := n.(type) {
			case *ast.BinaryExpr:
				switch t.Op {
				case token.EQL, token.NEQ, token.LSS, token.LEQ, token.GTR, token.GEQ:
				default:
					return true
				}
				for _, pr := range [][2]ast.Expr{{t.X, t.Y}, {t.Y, t.X}} {
					if _, isConst := constByte(pr[0]); isConst || !isByte(pr[0]) {
						continue
					}
					// pr[0] is a byte-typed non-constant operand
					bt, _ := info.TypeOf(pr[0]).Underlying().(*types.Basic)
					if bt == nil || bt.Kind() != types.Uint8 {
						continue
					}
					v, isConst := constByte(pr[1])
					ok := !isConst || ((t.Op == token.EQL || t.Op == token.NEQ) && (v == '/' || v == '.'))
					why := "compared with another byte"
					if isConst {
						why = fmt.Sprintf("compared with %q using %s", rune(v), t.Op)
					}
					ru.Check(fmt.Sprintf("%s in %s", exprStr(t), name), w.Pos(t.Pos()), "a byte is compared only with '/' or '.' (== / !=) or with another byte", ok, why)
				}
			case *ast.SwitchStmt:
				if t.Tag != nil && isByte(t.Tag) {
					for _, st := range t.Body.List {
						for _, e := range st.(*ast.CaseClause).List {
							v, isConst := constByte(e)
							ru.Check(fmt.Sprintf("case %s of switch %s in %s", exprStr(e), exprStr(t.Tag), name), w.Pos(e.Pos()), "a byte is compared only with '/' or '.'", isConst && (v == '/' || v == '.'), exprStr(e))
						}
					}
				}
			}
			return true
		})
	}
}

func unparenOrNil(e ast.Expr) ast.Expr {
	if e == nil {
		return nil
	}
	return ast.Unparen(e)
}
