package main

import (
	"fmt"
	"go/ast"
	"go/token"
	"go/types"
	"net/textproto"
	"strconv"
	"strings"

	"golang.org/x/tools/go/ssa"
)

func init() { register("C15", checkC15) }

func checkC15(w *World, r *Report) {
	r.Explanation = "Structure of panic containment: the Recovery middleware registers, before calling the wrapped handler and before anything that could panic, a defer of a function that itself calls " +
		"recover(); that function re-raises only when errors.Is(value, http.ErrAbortHandler) and re-raises the recovered error, and calls the user recovery function only when nothing was written and the " +
		"connection is not broken; every managed write transaction is aborted on every exit including panic (rule C04.3, repeated here: 'the writer lock is released'); the request dump redacts header " +
		"values by a capitalisation-insensitive comparison against a list that contains the six credential headers, and the unredacted header line is written only when the comparison failed."
	r.NotDecided = []string{"behaviour for every panic value and response progress as observed", "log content beyond the redaction decision", "panics inside the recovery function itself"}
	r.Assumptions = []string{"a deferred function that calls recover() directly stops the panic (Go semantics)"}
	checkC15Recover(w, r)
	p := newProto(w)
	checkC04ManagedAs(w, r, p, "C15.3")
	checkC15Redaction(w, r)
	checkParamsSelector(w, r, "C15.5")
	checkC15BrokenConn(w, r)
	// "its routes unchanged" after a panic inside a managed transaction: the aborted transaction must not have written
	// storage reachable from the published tree (rule C03.1, repeated here)
	o := newOwn(w)
	o.analyseAll()
	checkOwnWrites(w, r, o, "C15.7")
}

func checkC15Recover(w *World, r *Report) {
	ru := r.Rule("C15.1", "effective recover: the per-request closure of the Recovery middleware defers, as its first action, a function that calls recover() directly; the wrapped handler is called afterwards", 2)
	outer := w.Func("CustomRecoveryWithLogHandler")
	var inner *ssa.Function
	for _, a := range withAnon(outer) {
		if a.Parent() != nil && a.Parent().Parent() == outer {
			inner = a
		}
	}
	if inner == nil {
		anchorFail("the request closure of CustomRecoveryWithLogHandler")
	}
	r.Analysed(FuncName(inner))
	var def *ssa.Defer
	var next *ssa.Call
	firstCall := ssa.Instruction(nil)
	eachInstr(inner, func(in ssa.Instruction) {
		if d, ok := in.(*ssa.Defer); ok && def == nil {
			def = d
		}
		if c, ok := in.(*ssa.Call); ok && isNextCall(c) {
			next = c
		}
		if _, ok := in.(ssa.CallInstruction); ok && firstCall == nil {
			firstCall = in
		}
	})
	ru.Check("defer in the recovery closure", w.Pos(inner.Pos()), "a defer is the first call-like instruction of the closure (nothing that can panic precedes it)", def != nil && firstCall == ssa.Instruction(def), fmt.Sprint(def != nil))
	if def == nil || next == nil {
		ru.Fail("recovery closure", w.Pos(inner.Pos()), "defers the recovery function and calls next", fmt.Sprintf("defer=%v next=%v", def != nil, next != nil))
		return
	}
	ru.Check("order of defer and next", w.Pos(next.Pos()), "the defer dominates the call of the wrapped handler", instrDominates(def, next), "")
	target := def.Call.StaticCallee()
	if target == nil {
		if mc, ok := def.Call.Value.(*ssa.MakeClosure); ok {
			target, _ = mc.Fn.(*ssa.Function)
		}
	}
	direct := false
	if target != nil {
		eachInstr(target, func(in ssa.Instruction) {
			if c, ok := in.(*ssa.Call); ok {
				if b, ok := c.Call.Value.(*ssa.Builtin); ok && b.Name() == "recover" {
					direct = true
				}
			}
		})
	}
	ru.Check("deferred function", w.Pos(def.Pos()), "the deferred function itself calls recover() (a recover one call deeper is inert)", direct, FuncName(target))
	if target == nil || !direct {
		return
	}
	r.Analysed(FuncName(target))

	ru2 := r.Rule("C15.2", "abort re-raised, everything else handled: the only panic of the recovery function re-raises the recovered error under errors.Is(e, http.ErrAbortHandler); the user recovery function is called only when !Written() and !connIsBroken(value); the value handed on is the recovered one", 2)
	var rec ssa.Value
	eachInstr(target, func(in ssa.Instruction) {
		if c, ok := in.(*ssa.Call); ok {
			if b, ok := c.Call.Value.(*ssa.Builtin); ok && b.Name() == "recover" {
				rec = c
			}
		}
	})
	derivesFromRec := func(v ssa.Value) bool {
		for i := 0; i < 6; i++ {
			switch x := v.(type) {
			case *ssa.ChangeInterface:
				v = x.X
				continue
			case *ssa.MakeInterface:
				v = x.X
				continue
			case *ssa.Extract:
				v = x.Tuple
				continue
			case *ssa.TypeAssert:
				v = x.X
				continue
			}
			break
		}
		return v == rec
	}
	npanic := 0
	eachInstr(target, func(in ssa.Instruction) {
		pn, ok := in.(*ssa.Panic)
		if !ok {
			return
		}
		// panics synthesized for range-over-func misuse carry constant strings: not reachable from user panics
		if mi, ok := pn.X.(*ssa.MakeInterface); ok {
			if _, isConst := mi.X.(*ssa.Const); isConst {
				return
			}
		}
		npanic++
		isAbort := false
		for _, f := range factsAtBlock(pn.Block()) {
			if c, ok := f.Cond.(*ssa.Call); ok && isFuncNamed(calleeObj(c), "errors", "Is") && f.Val {
				if isLoadOfGlobal(c.Call.Args[1], "ErrAbortHandler") && derivesFromRec(c.Call.Args[0]) {
					isAbort = true
				}
			}
		}
		ru2.Check("re-panic", w.InstrPos(pn), "only under errors.Is(e, http.ErrAbortHandler), re-raising the recovered value", isAbort && derivesFromRec(pn.X), fmt.Sprintf("abortGuard=%v sameValue=%v", isAbort, derivesFromRec(pn.X)))
	})
	if npanic != 1 {
		ru2.Fail("re-panic sites", w.Pos(target.Pos()), "exactly one re-panic (for http.ErrAbortHandler)", fmt.Sprintf("%d found", npanic))
	}
	ncall := 0
	eachInstr(target, func(in ssa.Instruction) {
		c, ok := in.(*ssa.Call)
		if !ok || c.Call.StaticCallee() != nil || c.Call.IsInvoke() {
			return
		}
		if p, ok := c.Call.Value.(*ssa.Parameter); !ok || !isNamed(p.Type(), modulePath, "RecoveryFunc") {
			return
		}
		ncall++
		notWritten, notBroken := false, false
		for _, f := range factsAtBlock(c.Block()) {
			if cc, ok := f.Cond.(*ssa.Call); ok {
				if cc.Common().IsInvoke() && cc.Common().Method.Name() == "Written" && !f.Val {
					notWritten = true
				}
				if callee := cc.Call.StaticCallee(); callee != nil && callee.Name() == "connIsBroken" && !f.Val && derivesFromRec(cc.Call.Args[0]) {
					notBroken = true
				}
			}
		}
		okArg := len(c.Call.Args) == 2 && derivesFromRec(c.Call.Args[1])
		ru2.Check("call of the recovery function", w.Pos(c.Pos()), "under !Written() and !connIsBroken(value), with the recovered value", notWritten && notBroken && okArg, fmt.Sprintf("notWritten=%v notBroken=%v recoveredValue=%v", notWritten, notBroken, okArg))
	})
	if ncall != 1 {
		ru2.Fail("call of the recovery function", w.Pos(target.Pos()), "the user recovery function is invoked at one place", fmt.Sprintf("%d found", ncall))
	}
	// the recovered-nil test: everything happens under recover() != nil
	okNil := false
	if refs := rec.Referrers(); refs != nil {
		for _, ref := range *refs {
			if bo, ok := ref.(*ssa.BinOp); ok && isNilConst(bo.Y) && (bo.Op == token.NEQ || bo.Op == token.EQL) {
				okNil = true
			}
		}
	}
	ru2.Check("recover() result tested", w.Pos(target.Pos()), "the function acts only when recover() returned a value", okNil, fmt.Sprint(okNil))
	// default handler answers 500
	dh := w.Func("DefaultHandleRecovery")
	ok500 := false
	eachInstr(dh, func(in ssa.Instruction) {
		if c, ok := in.(*ssa.Call); ok && isFuncNamed(calleeObj(c), "net/http", "Error") {
			if k, ok := constInt(c.Call.Args[2]); ok && k == 500 {
				ok500 = true
			}
		}
	})
	ru2.Check("DefaultHandleRecovery", w.Pos(dh.Pos()), "answers 500", ok500, fmt.Sprint(ok500))
}

func checkC15Redaction(w *World, r *Report) {
	ru := r.Rule("C15.4", "redaction: the list of redacted headers contains Authorization, Proxy-Authorization, Cookie, Set-Cookie, X-CSRF-Token and X-Vault-Token (any capitalisation); the dumped header name is compared with the list case-insensitively (EqualFold, or canonicalised name against a list whose entries are all in canonical form); a header line is written unredacted only when that comparison failed", 2)
	// (a) the list, from the syntax (elements may be named constants; a map keyed by the names is accepted too)
	want := []string{"authorization", "proxy-authorization", "cookie", "set-cookie", "x-csrf-token", "x-vault-token"}
	have := map[string]bool{}
	var entries []string
	var listPos token.Pos
	for _, f := range w.Fox.Syntax {
		for _, d := range f.Decls {
			gd, ok := d.(*ast.GenDecl)
			if !ok || gd.Tok != token.VAR {
				continue
			}
			for _, sp := range gd.Specs {
				vs := sp.(*ast.ValueSpec)
				for i, n := range vs.Names {
					if n.Name != "blacklistedHeader" || i >= len(vs.Values) {
						continue
					}
					listPos = n.Pos()
					if cl, ok := vs.Values[i].(*ast.CompositeLit); ok {
						for _, el := range cl.Elts {
							if kv, ok := el.(*ast.KeyValueExpr); ok {
								el = kv.Key
							}
							if tv, ok := w.Fox.TypesInfo.Types[el]; ok && tv.Value != nil {
								if s, err := strconv.Unquote(tv.Value.ExactString()); err == nil {
									have[strings.ToLower(s)] = true
									entries = append(entries, s)
								}
							}
						}
					}
				}
			}
		}
	}
	if !listPos.IsValid() {
		anchorFail("variable blacklistedHeader")
	}
	var missing []string
	for _, h := range want {
		if !have[h] {
			missing = append(missing, textproto.CanonicalMIMEHeaderKey(h))
		}
	}
	ru.Check("redaction list", w.Pos(listPos), "contains the six credential-bearing headers", len(missing) == 0, orDefault(strings.Join(missing, ", ")+" missing", fmt.Sprintf("%d entries", len(have))))

	// (b) the comparison: functions reachable from recovery() (through static module calls) that read the list
	rec := w.Func("recovery")
	reach := map[*ssa.Function]bool{}
	var visit func(fn *ssa.Function)
	visit = func(fn *ssa.Function) {
		if reach[fn] {
			return
		}
		reach[fn] = true
		for _, g := range withAnon(fn) {
			reach[g] = true
			eachInstr(g, func(in ssa.Instruction) {
				if site, ok := in.(ssa.CallInstruction); ok {
					if c := site.Common().StaticCallee(); c != nil && w.InModule(c) && c.Blocks != nil {
						visit(c)
					}
				}
			})
		}
	}
	visit(rec)
	readsList := func(g *ssa.Function) bool {
		found := false
		eachInstr(g, func(in ssa.Instruction) {
			if u, ok := in.(*ssa.UnOp); ok {
				if gl, ok := u.X.(*ssa.Global); ok && gl.Name() == "blacklistedHeader" {
					found = true
				}
			}
		})
		return found
	}
	var users []*ssa.Function
	for g := range reach {
		if readsList(g) {
			users = append(users, g)
		}
	}
	if len(users) == 0 {
		ru.Fail("use of the redaction list", w.Pos(rec.Pos()), "the request dump consults the redaction list", "nothing reachable from recovery() reads blacklistedHeader")
		return
	}
	allCanonical := true
	var notCanonical []string
	for _, e := range entries {
		if textproto.CanonicalMIMEHeaderKey(e) != e {
			allCanonical = false
			notCanonical = append(notCanonical, e)
		}
	}
	for _, g := range users {
		fold, canon := false, false
		for _, h := range withAnon(g) {
			eachInstr(h, func(in ssa.Instruction) {
				c, ok := in.(*ssa.Call)
				if !ok {
					return
				}
				obj := calleeObj(c)
				switch {
				case isFuncNamed(obj, "strings", "EqualFold"), isFuncNamed(obj, "bytes", "EqualFold"):
					fold = true
				case isFuncNamed(obj, "net/textproto", "CanonicalMIMEHeaderKey"), isFuncNamed(obj, "net/http", "CanonicalHeaderKey"):
					canon = true
				}
			})
		}
		okk := fold || (canon && allCanonical)
		why := fmt.Sprintf("equalFold=%v canonicalisedLookup=%v", fold, canon)
		if canon && !allCanonical {
			why += "; list entries not in canonical form never match: " + strings.Join(notCanonical, ", ")
		}
		if !fold && !canon {
			why += "; exact comparison: any other capitalisation of a listed name is logged in clear"
		}
		ru.Check("header comparison in "+FuncName(g), w.Pos(g.Pos()), "capitalisation-insensitive comparison with the list", okk, why)
	}
	// (c) the unredacted line is written only when the match failed
	nDecisions := 0
	for g := range reach {
		var match ssa.Value
		eachInstr(g, func(in ssa.Instruction) {
			c, ok := in.(*ssa.Call)
			if !ok {
				return
			}
			obj := calleeObj(c)
			isMember := isFuncNamed(obj, "slices", "ContainsFunc") || isFuncNamed(obj, "slices", "Contains") || isFuncNamed(obj, "slices", "IndexFunc")
			if isMember && readsList(g) {
				match = c
			}
			if callee := c.Call.StaticCallee(); callee != nil && w.InModule(callee) && readsList(callee) && callee.Signature.Results().Len() == 1 {
				match = c
			}
		})
		// map lookup form: v, ok := m[name]
		if match == nil {
			eachInstr(g, func(in ssa.Instruction) {
				if lk, ok := in.(*ssa.Lookup); ok && lk.CommaOk && readsList(g) {
					if refs := lk.Referrers(); refs != nil {
						for _, ref := range *refs {
							if ex, ok := ref.(*ssa.Extract); ok && ex.Index == 1 {
								match = ex
							}
						}
					}
				}
			})
		}
		if match == nil {
			continue
		}
		// only the function that also writes the dump is of interest
		redactedOK, plainOK, writes := false, true, false
		eachInstr(g, func(in ssa.Instruction) {
			c, ok := in.(*ssa.Call)
			if !ok {
				return
			}
			if isMethodNamed(calleeObj(c), "strings", "Builder", "WriteString") {
				if s, ok := constString(c.Call.Args[1]); ok && strings.Contains(s, "redacted") {
					writes = true
					redactedOK = hasFact(factsAtBlock(c.Block()), match, true)
				}
			}
			if isMethodNamed(calleeObj(c), "strings", "Builder", "Write") {
				// writing the whole header line (a load of the header variable, not a sub-slice)
				if u, ok := c.Call.Args[1].(*ssa.UnOp); ok {
					if a, ok := u.X.(*ssa.Alloc); ok && a.Comment == "header" {
						if !hasFact(factsAtBlock(c.Block()), match, false) {
							plainOK = false
						}
					}
				}
			}
		})
		if !writes {
			continue
		}
		nDecisions++
		ru.Check("redaction decision in "+FuncName(g), w.Pos(g.Pos()), "'<redacted>' written when the name matched; the raw header line only when it did not", redactedOK && plainOK, fmt.Sprintf("redactedUnderMatch=%v rawOnlyUnderNoMatch=%v", redactedOK, plainOK))
	}
	if nDecisions == 0 {
		ru.Fail("redaction decision", w.Pos(rec.Pos()), "the dump loop decides per header line between '<redacted>' and the raw line", "no such decision found")
	}
}

func isStringType(t interface{ String() string }) bool { return t.String() == "string" }

func isConstOperand(bo *ssa.BinOp) bool {
	_, x := bo.X.(*ssa.Const)
	_, y := bo.Y.(*ssa.Const)
	return x || y
}

// checkC15BrokenConn: the classifier that decides "the panic value reports a broken connection" (then nothing at
// all is sent). It has to find the syscall error anywhere in the cause chain of the network error and recognise both
// texts.
func checkC15BrokenConn(w *World, r *Report) {
	ru := r.Rule("C15.6", "broken-connection classifier: connIsBroken searches the chain of the panic value with errors.As for a *net.OpError and that error's chain for an *os.SyscallError (no direct type assertion of the immediate cause) and matches its lower-cased text against both \"broken pipe\" and \"connection reset by peer\"", 2)
	fn := w.Func("connIsBroken")
	if fn == nil {
		r.Unrecognised("C15.6: connIsBroken not found")
		return
	}
	r.Analysed(FuncName(fn))
	asOK, direct, directOp := false, "", ""
	texts := map[string]bool{}
	lower := false
	eachInstr(fn, func(in ssa.Instruction) {
		switch x := in.(type) {
		case *ssa.Call:
			obj := calleeObj(x)
			switch {
			case isFuncNamed(obj, "errors", "As") && len(x.Call.Args) == 2:
				if t, ok := stripIface(x.Call.Args[1]).Type().Underlying().(*types.Pointer); ok && strings.HasSuffix(t.Elem().String(), "os.SyscallError") {
					asOK = true
				}
			case isFuncNamed(obj, "strings", "Contains") && len(x.Call.Args) == 2:
				if s, ok := constString(x.Call.Args[1]); ok {
					texts[s] = true
				}
			case isFuncNamed(obj, "strings", "ToLower"):
				lower = true
			}
		case *ssa.TypeAssert:
			if strings.HasSuffix(x.AssertedType.String(), "os.SyscallError") {
				direct = "direct assertion to " + x.AssertedType.String() + " at " + w.Pos(x.Pos()) + ": a wrapped syscall error is not recognised"
			}
			if strings.HasSuffix(x.AssertedType.String(), "net.OpError") {
				directOp = "direct assertion of the panic value to " + x.AssertedType.String() + " at " + w.Pos(x.Pos()) + ": a wrapped network error (fmt.Errorf(\"%w\"), the tls layer's permanent error) is not recognised and a 500 is written to the dead connection"
			}
		}
	})
	asOp := false
	eachInstr(fn, func(in ssa.Instruction) {
		if c, ok := in.(*ssa.Call); ok && isFuncNamed(calleeObj(c), "errors", "As") && len(c.Call.Args) == 2 {
			if t, ok := stripIface(c.Call.Args[1]).Type().Underlying().(*types.Pointer); ok && strings.HasSuffix(t.Elem().String(), "net.OpError") {
				asOp = true
			}
		}
	})
	whyOp := directOp
	if whyOp == "" && !asOp {
		whyOp = "no errors.As(_, **net.OpError)"
	}
	ru.Check("network error search in connIsBroken", w.Pos(fn.Pos()), "the panic value's chain is searched with errors.As for a *net.OpError, not asserted directly", whyOp == "", orDefault(whyOp, "errors.As over the chain"))
	why := direct
	if why == "" && !asOK {
		why = "no errors.As(_, **os.SyscallError)"
	}
	ru.Check("cause search in connIsBroken", w.Pos(fn.Pos()), "errors.As with an *os.SyscallError target, no direct assertion", why == "", orDefault(why, "errors.As over the chain"))
	ru.Check("texts matched by connIsBroken", w.Pos(fn.Pos()), "lower-cased text compared with \"broken pipe\" and \"connection reset by peer\"", lower && texts["broken pipe"] && texts["connection reset by peer"], fmt.Sprintf("lower=%v texts=%v", lower, texts))
}
