package main

import (
	"fmt"
	"go/ast"
	"go/token"
	"go/types"
	"sort"
	"strconv"
	"strings"

	"golang.org/x/tools/go/ssa"
)

func init() { register("C02", checkC02) }

func checkC02(w *World, r *Report) {
	r.Explanation = "Structural conditions of 'an exact map keyed by (method, pattern)': path counting over the mutators shows that every success path of insert/remove changes the route count by exactly +1/-1, " +
		"update by 0, and every failure path by 0 (so a failed call inside a transaction leaves Len unchanged); wherever truncate drops a method's subtree the count is adjusted on the same path; the three " +
		"exact-pattern lookups (Router.Route, Txn.Route, Iter.Routes) accept under the same test (node found, no trailing-slash adjustment, stored pattern equal to the requested one) and look in their own root; " +
		"Has delegates to Route; the single-operation helpers and Updates commit only after a nil error; nodes are only built by the constructors that derive their lookup tables (so an Update is seen by " +
		"every accessor, including the infix catch-all sub-node); every documented sentinel is the only kind of error a mutator can produce."
	r.NotDecided = []string{"that insert/update/remove/truncate implement map semantics for every history (split and merge surgery)", "exact membership of RouteConflictError.Matched", "iterator contents for arbitrary trees"}
	r.Assumptions = []string{"routes are validated before insertion (C10.1)"}
	checkC02Size(w, r)
	checkC02Truncate(w, r)
	checkC02ExactLookup(w, r)
	p := newProto(w)
	checkC04CommitOnSuccessAs(w, r, p, "C02.5")
	checkNodeConstruction(w, r, "C02.6")
	ru7 := r.Rule("C02.7", "every reader reads its own root: Has/Route/iterators of a transaction look in the transaction's root (uncommitted writes included), iterators in their snapshot root, router methods in the tree they loaded; the matchers are entered only through the root dispatcher", 5)
	lookupRootObligations(w, ru7)
	checkC02Errors(w, r)
	checkC02ConflictScope(w, r)
	checkC02PatternHostIntact(w, r)
	checkC02ExactLookupNeedsLiteralWildcards(w, r)
	checkC02IteratorsComplete(w, r)
	// "a failed call changes nothing" (and an aborted transaction's calls): the mutators may only write storage private to
	// the transaction (rule C03.1, repeated here)
	o := newOwn(w)
	o.analyseAll()
	checkOwnWrites(w, r, o, "C02.12")
}

// ---- C02.1 ---------------------------------------------------------------------------------------------------

// sizeDelta: if in is `t.size = t.size ± k` on receiver t returns ±k.
var sizeDepth int

func sizeDelta(fn *ssa.Function, in ssa.Instruction, sizeF *types.Var) (int, bool, bool) {
	// a helper method on the same transaction that changes the count by the same known amount on all its paths (t.grow(route))
	if c, isCall := in.(*ssa.Call); isCall {
		g := c.Call.StaticCallee()
		if g != nil && g != fn && len(g.Blocks) > 0 && len(g.Params) > 0 && len(c.Call.Args) > 0 && c.Call.Args[0] == ssa.Value(fn.Params[0]) && g.Pkg == fn.Pkg && sizeDepth < 3 {
			touches := false
			eachInstr(g, func(in2 ssa.Instruction) {
				if st, ok := in2.(*ssa.Store); ok {
					if _, f, ok := fieldOfAddr(st.Addr); ok && f == sizeF {
						touches = true
					}
				}
			})
			if !touches {
				return 0, false, false
			}
			sizeDepth++
			defer func() { sizeDepth-- }()
			deltas := map[int]bool{}
			unknown := false
			// path enumeration over g (loop-free helpers; a cycle makes the amount unknown)
			type key struct {
				b *ssa.BasicBlock
				d int
			}
			seen := map[key]bool{}
			var walk func(b *ssa.BasicBlock, d int, depth int)
			walk = func(b *ssa.BasicBlock, d int, depth int) {
				if depth > 64 || seen[key{b, d}] {
					if depth > 64 {
						unknown = true
					}
					return
				}
				seen[key{b, d}] = true
				for _, in2 := range b.Instrs {
					if dd, isSize, known := sizeDelta(g, in2, sizeF); isSize {
						if !known {
							unknown = true
						}
						d += dd
					}
					if _, isRet := in2.(*ssa.Return); isRet {
						deltas[d] = true
					}
				}
				for _, sc := range b.Succs {
					walk(sc, d, depth+1)
				}
			}
			walk(g.Blocks[0], 0, 0)
			if unknown || len(deltas) != 1 {
				return 0, true, false
			}
			for d := range deltas {
				return d, true, true
			}
		}
		return 0, false, false
	}
	st, ok := in.(*ssa.Store)
	if !ok {
		return 0, false, false
	}
	b, f, ok := fieldOfAddr(st.Addr)
	if !ok || f != sizeF || b != ssa.Value(fn.Params[0]) {
		return 0, false, false
	}
	bo, ok := st.Val.(*ssa.BinOp)
	if ok {
		if _, lf, isLoad := loadedField(bo.X); isLoad && lf == sizeF {
			if k, isK := constInt(bo.Y); isK {
				if bo.Op == token.ADD {
					return int(k), true, true
				}
				if bo.Op == token.SUB {
					return -int(k), true, true
				}
			}
		}
	}
	return 0, true, false // a store to size of unknown amount
}

func checkC02Size(w *World, r *Report) {
	ru := r.Rule("C02.1", "size accounting on every path: each path of tXn.insert to a nil-error return performs exactly one size++, each path to an error return none; tXn.remove exactly one size-- on success and none on failure; tXn.update none", 4)
	inner := w.FoxType("tXn")
	sizeF := w.Field(inner, "size")
	for _, spec := range []struct {
		name string
		want int
	}{{"insert", 1}, {"remove", -1}, {"update", 0}} {
		fn := w.Method("tXn", spec.name)
		r.Analysed(FuncName(fn))
		type st struct {
			delta   int
			unknown bool
		}
		states := map[*ssa.BasicBlock]map[st]bool{fn.Blocks[0]: {st{}: true}}
		work := []*ssa.BasicBlock{fn.Blocks[0]}
		type exit struct {
			ret  *ssa.Return
			sts  map[st]bool
		}
		exits := map[*ssa.Return]map[st]bool{}
		for len(work) > 0 {
			b := work[0]
			work = work[1:]
			for s0 := range states[b] {
				s := s0
				for _, in := range b.Instrs {
					if d, isSize, known := sizeDelta(fn, in, sizeF); isSize {
						if !known {
							s.unknown = true
						} else if s.delta+d >= -3 && s.delta+d <= 3 {
							s.delta += d
						}
					}
					if ret, ok := in.(*ssa.Return); ok {
						if exits[ret] == nil {
							exits[ret] = map[st]bool{}
						}
						exits[ret][s] = true
					}
				}
				for _, sc := range b.Succs {
					if states[sc] == nil {
						states[sc] = map[st]bool{}
					}
					if !states[sc][s] {
						states[sc][s] = true
						work = append(work, sc)
					}
				}
			}
		}
		var rets []*ssa.Return
		for ret := range exits {
			rets = append(rets, ret)
		}
		sort.Slice(rets, func(i, j int) bool { return instrLess(rets[i], rets[j]) })
		for _, ret := range rets {
			// classify the exit
			success := true
			last := ret.Results[len(ret.Results)-1]
			if isErrorType(last.Type()) {
				success = isNilConst(last)
			} else if b, ok := constBool(last); ok {
				success = b
			}
			want := 0
			if success {
				want = spec.want
			}
			var got []string
			ok := true
			for s := range exits[ret] {
				got = append(got, fmt.Sprintf("%+d", s.delta))
				if s.unknown || s.delta != want {
					ok = false
				}
			}
			sort.Strings(got)
			kind := map[bool]string{true: "success", false: "failure"}[success]
			ru.Check(kind+" exit of tXn."+spec.name, w.InstrPos(ret), fmt.Sprintf("route count changes by %+d on this exit", want), ok, "deltas on paths reaching it: "+strings.Join(got, ","))
		}
	}
}

func instrLess(a, b ssa.Instruction) bool {
	if a.Block().Index != b.Block().Index {
		return a.Block().Index < b.Block().Index
	}
	return instrIndex(a) < instrIndex(b)
}

// ---- C02.2 ---------------------------------------------------------------------------------------------------

func checkC02Truncate(w *World, r *Report) {
	ru := r.Rule("C02.2", "size follows root replacement: in tXn.truncate every operation that drops a method's routes (installing a fresh root set, replacing a root by an empty node, cutting a root out of the slice) is accompanied on its path by an adjustment of the route count: to 0 for the whole set, by the number of routes under the dropped root otherwise", 2)
	inner := w.FoxType("tXn")
	sizeF, rootF := w.Field(inner, "size"), w.Field(inner, "root")
	fn := w.Method("tXn", "truncate")
	r.Analysed(FuncName(fn))
	recv := ssa.Value(fn.Params[0])
	o := newOwn(w)
	var sizeStores []*ssa.Store
	eachInstr(fn, func(in ssa.Instruction) {
		if st, ok := in.(*ssa.Store); ok {
			if b, f, ok := fieldOfAddr(st.Addr); ok && f == sizeF && b == recv {
				sizeStores = append(sizeStores, st)
			}
		}
	})
	pd := computePostDom(fn)
	inLoop := func(b *ssa.BasicBlock) bool { return blockReach(b, false)[b] }
	paired := func(d ssa.Instruction, wantZero bool) (bool, string) {
		for _, s := range sizeStores {
			zero := false
			if k, ok := constInt(s.Val); ok && k == 0 {
				zero = true
			}
			if wantZero != zero {
				continue
			}
			sameLoop := inLoop(d.Block()) == inLoop(s.Block())
			if !sameLoop {
				continue
			}
			if instrDominates(s, d) || (instrDominates(d, s) && (s.Block() == d.Block() || pd.PostDominates(s.Block(), d.Block()))) {
				if wantZero {
					return true, "size = 0 on the same path"
				}
				// size - f(dropped root)
				if bo, ok := s.Val.(*ssa.BinOp); ok && bo.Op == token.SUB {
					if c, ok := bo.Y.(*ssa.Call); ok && c.Call.StaticCallee() != nil && o.isNodePtr(c.Call.Args[0].Type()) {
						return true, "size -= " + c.Call.StaticCallee().Name() + "(dropped root) on the same path"
					}
				}
				return false, "the adjustment at " + w.Pos(s.Pos()) + " is not of the form size -= count(dropped root)"
			}
		}
		return false, "no adjustment of the route count on the path of this drop"
	}
	ndrop := 0
	eachInstr(fn, func(in ssa.Instruction) {
		switch x := in.(type) {
		case *ssa.Store:
			// whole root set replaced by a fresh one that is not a copy of the old
			if b, f, ok := fieldOfAddr(x.Addr); ok && f == rootF && b == recv {
				if derivesFromField(x.Val, rootF, 0) {
					return
				}
				ndrop++
				ok2, why := paired(x, true)
				ru.Check("fresh root set installed", w.Pos(x.Pos()), "the route count is reset to 0", ok2, why)
				return
			}
			// a root replaced by an empty node
			if ia, ok := x.Addr.(*ssa.IndexAddr); ok && o.isNodeSlice(ia.X.Type()) && derivesFromField(ia.X, rootF, 0) {
				// any node that does not come out of the root set itself replaces (drops) the previous root
				fresh := false
				switch v := x.Val.(type) {
				case *ssa.Alloc:
					fresh = v.Heap
				case *ssa.Call:
					fresh = o.isNodePtr(v.Type())
				}
				if fresh {
					ndrop++
					ok2, why := paired(x, false)
					ru.Check("root replaced by an empty node", w.Pos(x.Pos()), "the count is reduced by the routes under the dropped root", ok2, why)
				}
			}
		case *ssa.Call:
			if bi, ok := x.Call.Value.(*ssa.Builtin); ok && bi.Name() == "append" && o.isNodeSlice(x.Call.Args[0].Type()) {
				if sl, ok := x.Call.Args[0].(*ssa.Slice); ok && sl.High != nil && derivesFromField(sl.X, rootF, 0) {
					ndrop++
					ok2, why := paired(x, false)
					ru.Check("root cut out of the slice", w.Pos(x.Pos()), "the count is reduced by the routes under the dropped root", ok2, why)
				}
			}
		}
	})
	if ndrop < 2 {
		r.Unrecognised("C02.2: only %d route-dropping operations recognised in tXn.truncate", ndrop)
	}
}

// derivesFromField: v is (a copy, phi, reslice or append chain of) a load of field f.
func derivesFromField(v ssa.Value, f *types.Var, depth int) bool {
	if depth > 8 {
		return false
	}
	switch x := v.(type) {
	case *ssa.UnOp:
		_, lf, ok := loadedField(x)
		return ok && lf == f
	case *ssa.Slice:
		return derivesFromField(x.X, f, depth+1)
	case *ssa.ChangeType:
		return derivesFromField(x.X, f, depth+1)
	case *ssa.Phi:
		for _, e := range x.Edges {
			if derivesFromField(e, f, depth+1) {
				return true
			}
		}
	case *ssa.Call:
		if bi, ok := x.Call.Value.(*ssa.Builtin); ok && bi.Name() == "append" {
			for _, a := range x.Call.Args {
				if derivesFromField(a, f, depth+1) {
					return true
				}
			}
		}
	case *ssa.MakeSlice:
		// make + copy(dst, t.root): look for the copy
		if refs := x.Referrers(); refs != nil {
			for _, ref := range *refs {
				if c, ok := ref.(*ssa.Call); ok {
					if bi, ok := c.Call.Value.(*ssa.Builtin); ok && bi.Name() == "copy" && c.Call.Args[0] == ssa.Value(x) && derivesFromField(c.Call.Args[1], f, depth+1) {
						return true
					}
				}
			}
		}
	}
	return false
}

// ---- C02.4 ---------------------------------------------------------------------------------------------------

func checkC02ExactLookup(w *World, r *Report) {
	ru := r.Rule("C02.4", "one acceptance test for exact lookups: Router.Route, Txn.Route and Iter.Routes hand out a route only under n != nil, !tsr and n.route.pattern == pattern after looking up SplitHostPath(pattern) in their own root, or all delegate to one structural search (roots.route) that returns a route only for an exactly matched leaf with that very pattern; Router.Has and Txn.Has delegate to Route", 3)
	checkAccept := func(fn *ssa.Function, what string) {
		n := 0
		for _, g := range withAnon(fn) {
			eachInstr(g, func(in ssa.Instruction) {
				// the exposure: return of n.route, or yield(method, n.route)
				var exposed ssa.Value
				switch x := in.(type) {
				case *ssa.Return:
					if len(x.Results) == 1 && isNamed(x.Results[0].Type(), modulePath, "Route") && !isNilConst(x.Results[0]) {
						exposed = x.Results[0]
					}
				case *ssa.Call:
					if x.Call.StaticCallee() == nil && !x.Call.IsInvoke() && len(x.Call.Args) == 2 && isNamed(x.Call.Args[1].Type(), modulePath, "Route") {
						exposed = x.Call.Args[1]
					}
				}
				if exposed == nil {
					return
				}
				rb, rf, ok := loadedField(exposed)
				if !ok || rf.Name() != "route" {
					return
				}
				n++
				nonNil, notTsr, samePattern := false, false, false
				for _, f := range factsAtBlock(in.Block()) {
					if bo, ok := f.Cond.(*ssa.BinOp); ok {
						if bo.X == rb && isNilConst(bo.Y) && ((bo.Op == token.NEQ && f.Val) || (bo.Op == token.EQL && !f.Val)) {
							nonNil = true
						}
						if (bo.Op == token.EQL && f.Val) || (bo.Op == token.NEQ && !f.Val) {
							_, pf, ok1 := loadedField(bo.X)
							if ok1 && pf.Name() == "pattern" {
								if isPatternArg(g, bo.Y) {
									samePattern = true
								}
							}
						}
					}
					if ex, ok := f.Cond.(*ssa.Extract); ok && ex.Index == 1 && !f.Val {
						if tup, ok := rb.(*ssa.Extract); ok && tup.Tuple == ex.Tuple {
							notTsr = true
						}
					}
				}
				ru.Check("acceptance in "+what, w.InstrPos(in), "route exposed only under n != nil && !tsr && n.route.pattern == pattern", nonNil && notTsr && samePattern, fmt.Sprintf("nNonNil=%v notTsr=%v patternEqual=%v", nonNil, notTsr, samePattern))
			})
		}
		if n == 0 {
			ru.Fail("acceptance in "+what, w.Pos(fn.Pos()), "the exact lookup exposes the found route", "no exposure of n.route found")
		}
	}
	// second form: the three entry points delegate to one structural search (roots.route) and expose exactly its result
	structural := w.TryMethodIn(modulePath, "roots", "route")
	checkDelegates := func(fn *ssa.Function, what string) bool {
		if structural == nil {
			return false
		}
		found := false
		for _, g := range withAnon(fn) {
			eachInstr(g, func(in ssa.Instruction) {
				if c, ok := in.(*ssa.Call); ok && c.Call.StaticCallee() == structural {
					found = true
					// the pattern argument is the entry point's own pattern
					ru.Check("acceptance in "+what, w.InstrPos(in), "the exact lookup hands its own pattern to the structural search and exposes only what that returns", isPatternArg(g, c.Call.Args[len(c.Call.Args)-1]), "pattern argument "+valStr(c.Call.Args[len(c.Call.Args)-1]))
				}
			})
		}
		return found
	}
	nDeleg := 0
	for _, spec := range [][2]string{{"Router", "Route"}, {"Txn", "Route"}, {"Iter", "Routes"}} {
		fn := w.Method(spec[0], spec[1])
		if checkDelegates(fn, spec[0]+"."+spec[1]) {
			nDeleg++
		} else {
			checkAccept(fn, spec[0]+"."+spec[1])
		}
	}
	if nDeleg > 0 {
		// the structural search hands out a route only from an exactly matched leaf whose pattern is the one asked for
		n := 0
		eachInstr(structural, func(in ssa.Instruction) {
			ret, ok := in.(*ssa.Return)
			if !ok || len(ret.Results) != 1 || isNilConst(ret.Results[0]) {
				return
			}
			rb, rf, ok := loadedField(ret.Results[0])
			if !ok || rf.Name() != "route" {
				ru.Fail("acceptance in roots.route", w.InstrPos(ret), "returns the route of the node found", "returns "+valStr(ret.Results[0]))
				n++
				return
			}
			n++
			nonNil, leaf, samePattern, fromSearch := false, false, false, false
			if c, ok := rb.(*ssa.Call); ok && c.Call.StaticCallee() != nil && c.Call.StaticCallee().Name() == "search" {
				fromSearch = isPatternArg(structural, c.Call.Args[len(c.Call.Args)-1])
			}
			for _, f := range factsAtBlock(ret.Block()) {
				if bo, ok := f.Cond.(*ssa.BinOp); ok {
					if bo.X == rb && isNilConst(bo.Y) && ((bo.Op == token.NEQ && f.Val) || (bo.Op == token.EQL && !f.Val)) {
						nonNil = true
					}
					if (bo.Op == token.EQL && f.Val) || (bo.Op == token.NEQ && !f.Val) {
						if _, pf, ok1 := loadedField(bo.X); ok1 && pf.Name() == "pattern" && isPatternArg(structural, bo.Y) {
							samePattern = true
						}
					}
				}
				if c, ok := f.Cond.(*ssa.Call); ok && f.Val && c.Call.StaticCallee() != nil && c.Call.StaticCallee().Name() == "isLeaf" && c.Call.Args[0] == rb {
					leaf = true
				}
			}
			ru.Check("acceptance in roots.route", w.InstrPos(ret), "route exposed only for the node found by the verbatim search of the pattern, under n != nil && n.isLeaf() && n.route.pattern == pattern", nonNil && leaf && samePattern && fromSearch, fmt.Sprintf("fromSearchOfPattern=%v nNonNil=%v isLeaf=%v patternEqual=%v", fromSearch, nonNil, leaf, samePattern))
		})
		if n == 0 {
			ru.Fail("acceptance in roots.route", w.Pos(structural.Pos()), "the structural search exposes the found route", "no return of n.route")
		}
	}
	for _, t := range []string{"Router", "Txn"} {
		has := w.Method(t, "Has")
		route := w.Method(t, "Route")
		ok := false
		eachInstr(has, func(in ssa.Instruction) {
			if c, isCall := in.(*ssa.Call); isCall && c.Call.StaticCallee() == route {
				ok = true
			}
		})
		ru.Check(t+".Has", w.Pos(has.Pos()), "delegates to "+t+".Route", ok, fmt.Sprint(ok))
	}
}

// isPatternArg: v is the `pattern` parameter of the enclosing declared function (possibly through a captured cell).
func isPatternArg(fn *ssa.Function, v ssa.Value) bool {
	v = seeThrough(v)
	if p, ok := v.(*ssa.Parameter); ok {
		return p.Name() == "pattern"
	}
	if u, ok := v.(*ssa.UnOp); ok {
		if fv, ok := u.X.(*ssa.FreeVar); ok {
			return fv.Name() == "pattern"
		}
	}
	if fv, ok := v.(*ssa.FreeVar); ok {
		return fv.Name() == "pattern"
	}
	return false
}

// ---- C02.3 ---------------------------------------------------------------------------------------------------

// checkC02Errors: which sentinels can flow out of the mutators of the inner transaction.
func checkC02Errors(w *World, r *Report) {
	ru := r.Rule("C02.3", "error contract of the tree mutators: every error value returned by tXn.insert is built from ErrRouteExist or ErrRouteConflict, by tXn.update from ErrRouteNotFound; every fmt.Errorf used there wraps its sentinel with %w; Txn.Delete turns a failed remove into ErrRouteNotFound", 2)
	want := map[string][]string{"insert": {"ErrRouteExist", "ErrRouteConflict"}, "update": {"ErrRouteNotFound"}}
	conflict := w.Func("newConflictErr")
	for _, name := range []string{"insert", "update"} {
		fn := w.Method("tXn", name)
		eachInstr(fn, func(in ssa.Instruction) {
			ret, ok := in.(*ssa.Return)
			if !ok {
				return
			}
			ev := ret.Results[len(ret.Results)-1]
			if isNilConst(ev) {
				return
			}
			src := stripIface(ev)
			got, okk := "", false
			if c, isCall := src.(*ssa.Call); isCall {
				switch {
				case isFuncNamed(calleeObj(c), "fmt", "Errorf"):
					format, _ := constString(c.Call.Args[0])
					sent := ""
					if sl, ok := c.Call.Args[1].(*ssa.Slice); ok {
						if arr, ok := sl.X.(*ssa.Alloc); ok {
							if refs := arr.Referrers(); refs != nil {
								for _, ref := range *refs {
									if ia, ok := ref.(*ssa.IndexAddr); ok {
										if k, ok := constInt(ia.Index); ok && k == 0 {
											if ir := ia.Referrers(); ir != nil {
												for _, x := range *ir {
													if st, ok := x.(*ssa.Store); ok {
														if u, ok := stripIface(st.Val).(*ssa.UnOp); ok {
															if g, ok := u.X.(*ssa.Global); ok {
																sent = g.Name()
															}
														}
													}
												}
											}
										}
									}
								}
							}
						}
					}
					got = sent
					okk = strings.HasPrefix(format, "%w") && contains(want[name], sent)
				case c.Call.StaticCallee() == conflict:
					got, okk = "ErrRouteConflict", contains(want[name], "ErrRouteConflict")
				}
			}
			ru.Check("error returned by tXn."+name, w.InstrPos(ret), "wraps one of "+strings.Join(want[name], ", ")+" with %w", okk, orDefault(got, valStr(src)))
		})
	}
	// newConflictErr carries ErrRouteConflict
	okC := false
	eachInstr(conflict, func(in ssa.Instruction) {
		if st, ok := in.(*ssa.Store); ok && isLoadOfGlobal(st.Val, "ErrRouteConflict") {
			okC = true
		}
	})
	ru.Check("newConflictErr", w.Pos(conflict.Pos()), "the conflict error unwraps to ErrRouteConflict", okC, fmt.Sprint(okC))
	// Txn.Delete maps !deleted to ErrRouteNotFound
	del := w.Method("Txn", "Delete")
	okD := false
	eachInstr(del, func(in ssa.Instruction) {
		ret, ok := in.(*ssa.Return)
		if !ok {
			return
		}
		for _, f := range factsAtBlock(ret.Block()) {
			if ex, ok := f.Cond.(*ssa.Extract); ok && ex.Index == 1 && !f.Val {
				if c, ok := ex.Tuple.(*ssa.Call); ok && c.Call.StaticCallee() != nil && c.Call.StaticCallee().Name() == "remove" {
					// this is the not-deleted branch: the error must mention ErrRouteNotFound
					found := false
					for _, x := range ret.Block().Instrs {
						if u, ok := x.(*ssa.UnOp); ok {
							if g, ok := u.X.(*ssa.Global); ok && g.Name() == "ErrRouteNotFound" {
								found = true
							}
						}
					}
					okD = found
				}
			}
		}
	})
	ru.Check("Txn.Delete on a missing route", w.Pos(del.Pos()), "returns an error wrapping ErrRouteNotFound when remove reports nothing deleted", okD, fmt.Sprint(okD))
}

func contains(xs []string, s string) bool {
	for _, x := range xs {
		if x == s {
			return true
		}
	}
	return false
}

// ---- C02.8 -------------------------------------------------------------------------------------------------

// gridEval evaluates a boolean source expression for concrete values of two integer quantities (given by the suffix of
// their source text); sub-expressions that mention anything else are unknown. Single-definition locals are unfolded.
type gridEval struct {
	defs  map[string]ast.Expr
	ndefs map[string]int
	aSfx  string
	bSfx  string
}

func newGridEval(body ast.Node, aSfx, bSfx string) *gridEval {
	g := &gridEval{defs: map[string]ast.Expr{}, ndefs: map[string]int{}, aSfx: aSfx, bSfx: bSfx}
	ast.Inspect(body, func(n ast.Node) bool {
		switch x := n.(type) {
		case *ast.AssignStmt:
			if len(x.Lhs) == len(x.Rhs) {
				for i, l := range x.Lhs {
					if id, ok := l.(*ast.Ident); ok {
						g.defs[id.Name] = x.Rhs[i]
						g.ndefs[id.Name]++
					}
				}
			} else {
				for _, l := range x.Lhs {
					if id, ok := l.(*ast.Ident); ok {
						g.ndefs[id.Name] += 2
					}
				}
			}
		case *ast.IncDecStmt:
			if id, ok := x.X.(*ast.Ident); ok {
				g.ndefs[id.Name] += 2
			}
		}
		return true
	})
	return g
}

func (g *gridEval) num(e ast.Expr, a, b int64, depth int) (int64, bool) {
	if depth > 6 {
		return 0, false
	}
	switch x := e.(type) {
	case *ast.ParenExpr:
		return g.num(x.X, a, b, depth+1)
	case *ast.BasicLit:
		if x.Kind == token.INT {
			v, err := strconv.ParseInt(x.Value, 0, 64)
			return v, err == nil
		}
	case *ast.Ident:
		if d, ok := g.defs[x.Name]; ok && g.ndefs[x.Name] == 1 {
			return g.num(d, a, b, depth+1)
		}
	case *ast.CallExpr: // conversions such as int(x)
		if len(x.Args) == 1 {
			if id, ok := x.Fun.(*ast.Ident); ok && (strings.HasPrefix(id.Name, "int") || strings.HasPrefix(id.Name, "uint")) {
				return g.num(x.Args[0], a, b, depth+1)
			}
		}
	}
	s := exprStr(e)
	switch {
	case strings.HasSuffix(s, g.aSfx):
		return a, true
	case strings.HasSuffix(s, g.bSfx):
		return b, true
	}
	return 0, false
}

// eval returns (value, known).
func (g *gridEval) eval(e ast.Expr, a, b int64, depth int) (bool, bool) {
	if depth > 8 {
		return false, false
	}
	switch x := e.(type) {
	case *ast.ParenExpr:
		return g.eval(x.X, a, b, depth+1)
	case *ast.UnaryExpr:
		if x.Op == token.NOT {
			v, k := g.eval(x.X, a, b, depth+1)
			return !v, k
		}
	case *ast.Ident:
		if x.Name == "true" {
			return true, true
		}
		if x.Name == "false" {
			return false, true
		}
		if d, ok := g.defs[x.Name]; ok && g.ndefs[x.Name] == 1 {
			return g.eval(d, a, b, depth+1)
		}
	case *ast.BinaryExpr:
		switch x.Op {
		case token.LAND, token.LOR:
			l, lk := g.eval(x.X, a, b, depth+1)
			r, rk := g.eval(x.Y, a, b, depth+1)
			if x.Op == token.LAND {
				switch {
				case lk && !l, rk && !r:
					return false, true
				case lk && rk:
					return true, true
				}
				return false, false
			}
			switch {
			case lk && l, rk && r:
				return true, true
			case lk && rk:
				return false, true
			}
			return false, false
		case token.LSS, token.LEQ, token.GTR, token.GEQ, token.EQL, token.NEQ:
			l, lk := g.num(x.X, a, b, depth+1)
			r, rk := g.num(x.Y, a, b, depth+1)
			if !lk || !rk {
				return false, false
			}
			switch x.Op {
			case token.LSS:
				return l < r, true
			case token.LEQ:
				return l <= r, true
			case token.GTR:
				return l > r, true
			case token.GEQ:
				return l >= r, true
			case token.EQL:
				return l == r, true
			default:
				return l != r, true
			}
		}
	}
	return false, false
}

// checkC02ConflictScope: the wildcard-separator rule of insert's split case scans the common prefix backwards for a
// '/'. A hostname contains none, and route.hostSplit is the index of the first '/' of the pattern, so the prefix
// path[:charsMatched] can only contain one when charsMatched > hostSplit. Applying the scan for charsMatched <=
// hostSplit refuses legal hostname routes with a spurious ErrRouteConflict; not applying it beyond lets conflicting
// path wildcards in. The guard only compares the two indexes, so it is evaluated for every ordering.
func checkC02ConflictScope(w *World, r *Report) {
	ru := r.Rule("C02.8", "scope of the path conflict rule: in tXn.insert the backward scan of the common prefix for '/' (the {param}/*{catch-all} separator rule) is reachable exactly when result.charsMatched > route.hostSplit, and the hostname variant (scan for '.') exactly when charsMatched <= hostSplit; decided by evaluating the guards for every ordering of the two indexes", 2)
	af := w.astFuncOf(modulePath, "tXn.insert")
	g := newGridEval(af.decl.Body, ".charsMatched", ".hostSplit")
	found := 0
	ast.Inspect(af.decl.Body, func(n ast.Node) bool {
		fs, ok := n.(*ast.ForStmt)
		if !ok || fs.Body == nil {
			return true
		}
		// which delimiter ends the scan?
		delim := ""
		ast.Inspect(fs.Body, func(m ast.Node) bool {
			ifs, ok := m.(*ast.IfStmt)
			if !ok || len(ifs.Body.List) != 1 {
				return true
			}
			if br, ok := ifs.Body.List[0].(*ast.BranchStmt); !ok || br.Tok != token.BREAK {
				return true
			}
			if x, y, ok := isCmp(ifs.Cond, token.EQL); ok && strings.HasSuffix(x, "[i]") {
				delim = y
			}
			return true
		})
		// switch form: `switch cPrefix[i] { case '/': break Label; case '{', '*': return ... }`
		ast.Inspect(fs.Body, func(m ast.Node) bool {
			sw, ok := m.(*ast.SwitchStmt)
			if !ok || sw.Tag == nil || !strings.HasSuffix(exprStr(sw.Tag), "[i]") {
				return true
			}
			for _, st := range sw.Body.List {
				cc := st.(*ast.CaseClause)
				if len(cc.Body) == 1 && len(cc.List) == 1 {
					if br, ok := cc.Body[0].(*ast.BranchStmt); ok && br.Tok == token.BREAK && br.Label != nil {
						delim = exprStr(cc.List[0])
					}
				}
			}
			return true
		})
		var wantGreater bool
		switch delim {
		case "'/'", "slashDelim":
			wantGreater = true
		case "'.'", "dotDelim":
			wantGreater = false
		default:
			return true
		}
		b, _ := af.blockOf(fs.Cond)
		if b == nil {
			return true
		}
		found++
		facts := af.factsAt(b)
		bad, undecided := "", 0
		for a := int64(0); a <= 3; a++ {
			for bb := int64(0); bb <= 3; bb++ {
				reach, known := true, false
				for _, f := range facts {
					v, k := g.eval(f.e, a, bb, 0)
					if !k {
						continue
					}
					known = true
					if v != f.val {
						reach = false
					}
				}
				if !known {
					undecided++
					continue
				}
				if want := (a > bb) == wantGreater; reach != want && bad == "" {
					bad = fmt.Sprintf("for charsMatched=%d, hostSplit=%d the scan is %sreachable", a, bb, map[bool]string{true: "", false: "not "}[reach])
				}
			}
		}
		name := map[bool]string{true: "scan for '/' (path rule)", false: "scan for '.' (hostname rule)"}[wantGreater]
		if undecided > 0 && bad == "" {
			r.Unrecognised("C02.8: the guards of the %s at %s do not only compare charsMatched and hostSplit", name, w.Pos(fs.Pos()))
			return true
		}
		ru.Check(name+" in tXn.insert", w.Pos(fs.Pos()), map[bool]string{true: "reachable iff charsMatched > hostSplit", false: "reachable iff charsMatched <= hostSplit"}[wantGreater], bad == "", orDefault(bad, "all 16 orderings agree"))
		return true
	})
	if found < 2 {
		r.Unrecognised("C02.8: the separator scans of tXn.insert were not found (%d)", found)
	}
}

// ---- C02.9 -------------------------------------------------------------------------------------------------

// checkC02PatternHostIntact: Has/Route/Routes find a pattern by running it through the request matcher, whose entry
// (roots.lookup) normalises the host with netutil.StripHostPort. A pattern host may contain ':' inside a parameter name
// ({a:1}.b); the normaliser must therefore cut a ":suffix" only when it is a numeric port — as its sibling
// netutil.SplitHostPort does, through which SplitHostPath already sent the pattern. Sibling agreement inside netutil.
func checkC02PatternHostIntact(w *World, r *Report) {
	ru := r.Rule("C02.9", "exact lookups see the pattern's host intact: netutil.StripHostPort, applied by roots.lookup to the host of Has/Route/Routes as to request hosts, uses the host part of net.SplitHostPort only after the port part passed the numeric-port validator that netutil.SplitHostPort uses", 1)
	np := modulePath + "/internal/netutil"
	strip, split := w.FuncIn(np, "StripHostPort"), w.FuncIn(np, "SplitHostPort")
	if strip == nil || split == nil {
		r.Unrecognised("C02.9: netutil.StripHostPort / SplitHostPort not found")
		return
	}
	r.Analysed(FuncName(strip), FuncName(split))
	// the validator: the netutil function SplitHostPort calls
	var validator *ssa.Function
	eachInstr(split, func(in ssa.Instruction) {
		if c, ok := in.(*ssa.Call); ok {
			if cal := c.Call.StaticCallee(); cal != nil && cal.Pkg == split.Pkg {
				validator = cal
			}
		}
	})
	if validator == nil {
		r.Unrecognised("C02.9: netutil.SplitHostPort no longer validates the port through a helper")
		return
	}
	var sp *ssa.Call
	eachInstr(strip, func(in ssa.Instruction) {
		if c, ok := in.(*ssa.Call); ok && isFuncNamed(calleeObj(c), "net", "SplitHostPort") {
			sp = c
		}
	})
	if sp == nil {
		ru.Pass("netutil.StripHostPort", w.Pos(strip.Pos()), "does not use net.SplitHostPort", "no lenient split")
		return
	}
	var hostV, portV ssa.Value
	if refs := sp.Referrers(); refs != nil {
		for _, ref := range *refs {
			if ex, ok := ref.(*ssa.Extract); ok {
				switch ex.Index {
				case 0:
					hostV = ex
				case 1:
					portV = ex
				}
			}
		}
	}
	dependsOn := func(v, on ssa.Value) bool {
		seen := map[ssa.Value]bool{}
		var walk func(x ssa.Value, d int) bool
		walk = func(x ssa.Value, d int) bool {
			if x == nil || seen[x] || d > 10 {
				return false
			}
			seen[x] = true
			if x == on {
				return true
			}
			if in, ok := x.(ssa.Instruction); ok {
				for _, op := range in.Operands(nil) {
					if op != nil && *op != nil && walk(*op, d+1) {
						return true
					}
				}
			}
			return false
		}
		return walk(v, 0)
	}
	var vcall *ssa.Call
	if portV != nil {
		eachInstr(strip, func(in ssa.Instruction) {
			if c, ok := in.(*ssa.Call); ok && c.Call.StaticCallee() == validator && len(c.Call.Args) == 1 && dependsOn(c.Call.Args[0], portV) {
				vcall = c
			}
		})
	}
	why := ""
	switch {
	case portV == nil:
		why = "the port part returned by net.SplitHostPort is discarded: any text after the last ':' is cut off (\"{a:1}.b\" becomes \"{a\")"
	case vcall == nil:
		why = "the port part is not passed to " + FuncName(validator)
	default:
		// every return of a value derived from the host part happens under validator(...) == true
		eachInstr(strip, func(in ssa.Instruction) {
			ret, ok := in.(*ssa.Return)
			if !ok || hostV == nil || !dependsOn(ret.Results[0], hostV) {
				return
			}
			okf := false
			for _, ft := range factsAtBlock(ret.Block()) {
				if ft.Cond == ssa.Value(vcall) && ft.Val {
					okf = true
				}
			}
			if !okf {
				why = "the host part is returned at " + w.InstrPos(ret) + " without the port having been validated"
			}
		})
	}
	ru.Check("netutil.StripHostPort", w.Pos(sp.Pos()), "cuts \":port\" only when the port is numeric ("+FuncName(validator)+"), like netutil.SplitHostPort", why == "", orDefault(why, "validated"))
}

// ---- C02.10 ------------------------------------------------------------------------------------------------

// checkC02ExactLookupNeedsLiteralWildcards: Router.Route / Txn.Route / Iter.Routes (and Has) find a registered pattern
// by running the pattern text through the request matcher. A pattern's wildcard starts with '{' or '*'; the lookup can
// only arrive at the wildcard child if the matcher's static child search takes those two bytes literally. As long as the
// exact lookups are built on the matcher, that search must not exclude them (a repair of the priority corner case C01.11
// that only touches the search makes registered routes invisible: with /a{x} and /a*{y}, Has("/a*{y}") turns false).
func checkC02ExactLookupNeedsLiteralWildcards(w *World, r *Report) {
	ru := r.Rule("C02.10", "exact lookups stay able to reach wildcard children: if Route/Has/Routes resolve SplitHostPath(pattern) through the request matcher, the matcher's search of the child keys for the next byte is not guarded against '{' or '*'", 1)
	viaMatcher := ""
	for _, spec := range [][2]string{{"Router", "Route"}, {"Txn", "Route"}, {"Iter", "Routes"}} {
		fn := w.Method(spec[0], spec[1])
		if fn == nil {
			continue
		}
		for _, g := range withAnon(fn) {
			eachInstr(g, func(in ssa.Instruction) {
				c, ok := in.(*ssa.Call)
				if !ok || c.Call.StaticCallee() == nil || c.Call.StaticCallee().Name() != "lookup" || len(c.Call.Args) < 5 {
					return
				}
				if ex, ok := c.Call.Args[len(c.Call.Args)-3].(*ssa.Extract); ok {
					if sc, ok := ex.Tuple.(*ssa.Call); ok && sc.Call.StaticCallee() != nil && sc.Call.StaticCallee().Name() == "SplitHostPath" {
						viaMatcher = spec[0] + "." + spec[1]
					}
				}
			})
		}
	}
	if viaMatcher == "" {
		ru.Pass("exact lookups", "-", "not built on the request matcher", "Route/Has/Routes do not hand SplitHostPath(pattern) to the matcher")
		return
	}
	af := w.astFuncOf(modulePath, "lookupByPath")
	guarded := ""
	n := 0
	visit := func(at ast.Node, reqByte string) {
		b, _ := af.blockOf(at)
		if b == nil {
			return
		}
		n++
		for _, f := range af.factsAt(b) {
			for _, pr := range []struct {
				op  token.Token
				val bool
			}{{token.NEQ, true}, {token.EQL, false}} {
				if x, y, ok := isCmp(f.e, pr.op); ok && f.val == pr.val {
					for _, xy := range [][2]string{{x, y}, {y, x}} {
						if xy[0] == reqByte && (xy[1] == "bracketDelim" || xy[1] == "'{'" || xy[1] == "starDelim" || xy[1] == "'*'") {
							guarded = "the search at " + w.Pos(at.Pos()) + " runs only when " + reqByte + " != " + xy[1]
						}
					}
				}
			}
		}
	}
	ast.Inspect(af.decl.Body, func(nd ast.Node) bool {
		switch x := nd.(type) {
		case *ast.BinaryExpr:
			if x.Op == token.EQL && strings.HasSuffix(exprStr(x.X), ".childKeys[i]") && strings.HasPrefix(exprStr(x.Y), "path[") {
				visit(x, exprStr(x.Y))
			}
		case *ast.CallExpr:
			if len(x.Args) == 2 && strings.HasSuffix(exprStr(x.Args[0]), ".childKeys") && strings.HasPrefix(exprStr(x.Args[1]), "path[") {
				visit(x, exprStr(x.Args[1]))
			}
		}
		return true
	})
	if n == 0 {
		r.Unrecognised("C02.10: no search of the child keys for the next request byte found in lookupByPath")
		return
	}
	ru.Check("child search used by "+viaMatcher, w.Pos(af.decl.Pos()), "takes '{' and '*' literally while exact lookups depend on it", guarded == "", orDefault(guarded+": a registered pattern whose wildcard has a higher-priority sibling is reported absent", "unguarded"))
}

// ---- C02.11 ------------------------------------------------------------------------------------------------

// checkC02IteratorsComplete: the iterators report "exactly that set" only if they visit every requested method: inside a
// loop of an iterator body, a bare return is allowed only where the consumer asked to stop (`!yield(...)`); a method
// without anything to report is skipped with continue.
func checkC02IteratorsComplete(w *World, r *Report) {
	ru := r.Rule("C02.11", "iterators do not stop early: in the iterator functions of Iter (and the raw tree iterator), every return inside a loop is taken only when yield returned false", 3)
	p := w.ByPath[modulePath]
	n := 0
	for _, f := range p.Syntax {
		if !strings.HasSuffix(w.Fset.Position(f.Pos()).Filename, "iter.go") {
			continue
		}
		for _, d := range f.Decls {
			fd, ok := d.(*ast.FuncDecl)
			if !ok || fd.Body == nil {
				continue
			}
			ast.Inspect(fd.Body, func(nd ast.Node) bool {
				lit, ok := nd.(*ast.FuncLit)
				if !ok || len(lit.Type.Params.List) != 1 {
					return true
				}
				yieldName := ""
				if len(lit.Type.Params.List[0].Names) == 1 {
					yieldName = lit.Type.Params.List[0].Names[0].Name
				}
				if _, isFn := lit.Type.Params.List[0].Type.(*ast.FuncType); !isFn || yieldName == "" {
					return true
				}
				// walk with a stack of enclosing statements
				var stack []ast.Node
				ast.Inspect(lit.Body, func(m ast.Node) bool {
					if m == nil {
						stack = stack[:len(stack)-1]
						return true
					}
					stack = append(stack, m)
					ret, ok := m.(*ast.ReturnStmt)
					if !ok {
						return true
					}
					inLoop := false
					var guard *ast.IfStmt
					for i := len(stack) - 2; i >= 0; i-- {
						switch x := stack[i].(type) {
						case *ast.ForStmt, *ast.RangeStmt:
							inLoop = true
						case *ast.IfStmt:
							if guard == nil && !inLoop {
								guard = x
							}
						case *ast.FuncLit:
							i = -1
						}
					}
					if !inLoop {
						return true
					}
					n++
					okk := false
					if guard != nil {
						ast.Inspect(guard.Cond, func(c ast.Node) bool {
							if u, ok := c.(*ast.UnaryExpr); ok && u.Op == token.NOT {
								if call, ok := u.X.(*ast.CallExpr); ok && exprStr(call.Fun) == yieldName {
									okk = true
								}
							}
							return true
						})
					}
					ru.Check("return inside a loop of "+fd.Name.Name, w.Pos(ret.Pos()), "taken only when "+yieldName+"(...) returned false", okk, orDefault(map[bool]string{true: "after !" + yieldName + "(...)"}[okk], "the iteration ends although the consumer did not ask to stop: the remaining methods / routes are never reported"))
					return true
				})
				return false
			})
		}
	}
	if n == 0 {
		r.Unrecognised("C02.11: no return inside an iterator loop found in iter.go")
	}
}
