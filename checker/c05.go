package main

import (
	"fmt"
	"go/types"
	"sort"
	"strings"

	"golang.org/x/tools/go/ssa"
)

func init() { register("C05", checkC05) }

func checkC05(w *World, r *Report) {
	r.Explanation = "The ordering and ownership conditions that make the lock/atomic-pointer protocol race-free, decided on every path of the functions involved: " +
		"the writer lock is taken before the root is loaded, the new tree is stored before the lock is released, a read loads the published pointer at most once " +
		"(never in a loop) and returns a pooled context to the pool it came from, shared Router state is written only during construction, every pooled context has " +
		"exactly one owner (released exactly once on every path, never used after release), and no append writes into a backing array shared with another object. " +
		"These are the 'misplaced load, store or unlock' conditions the property says tests cannot see; linearizability of observed histories is not decided."
	r.NotDecided = []string{"linearizability of histories", "absence of lost/duplicated commits as observed", "never panics"}
	r.Assumptions = []string{"sync/atomic and sync.Mutex provide their documented happens-before edges", "published trees are immutable (decided by C03)"}
	p := newProto(w)
	checkC05Order(w, r, p)
	checkC05OneLoad(w, r, p)
	checkC05SharedState(w, r, p)
	checkC05ContextOwner(w, r, p)
	checkAppendAliasing(w, r, "C05.6")
	// lock-free readers are race-free only if published nodes are never written (rule C03.1)
	o := newOwn(w)
	o.analyseAll()
	checkOwnWrites(w, r, o, "C05.7")
}

// ---- C05.1 / C05.2 ----------------------------------------------------------------------------------------

func checkC05Order(w *World, r *Report, p *Proto) {
	ru := r.Rule("C05.1", "lock before load: in every function that acquires the writer lock, on the paths where it is acquired every load of the published tree comes after the acquire; the lock is acquired in one place", 1)
	locks := 0
	for _, s := range p.sites(p.Mu) {
		if s.name != "Lock" && s.name != "TryLock" && s.name != "RLock" {
			continue
		}
		locks++
		fn := s.fn
		// binding under which the lock site is live: if it is control-dependent on a bool parameter
		bind := binding{}
		for _, f := range factsAtBlock(s.call.Block()) {
			for i, prm := range fn.Params {
				if f.Cond == ssa.Value(prm) {
					bind[i] = f.Val
				}
			}
		}
		loads := p.loadSitesIn(fn)
		if len(loads) == 0 {
			ru.Fail("Lock in "+FuncName(fn), w.Pos(s.call.Pos()), "the transaction's root is loaded after the lock in the same function", "no load of the tree in the locking function: the root was obtained elsewhere, possibly before the lock")
			continue
		}
		for _, l := range loads {
			ok := mustPassThrough(fn, bind, s.call, l)
			ru.Check("Lock in "+FuncName(fn)+" vs load", w.Pos(l.Pos()), "on write paths the Lock dominates the load that seeds the transaction", ok,
				map[bool]string{true: "every path to the load (with " + bind.key() + ") passes through Lock", false: "the tree can be loaded before the lock is held"}[ok])
		}
		// the loaded value must be what seeds the transaction: no second source
	}
	if locks != 1 {
		ru.Fail("Lock sites", "-", "the writer lock is acquired in exactly one place", fmt.Sprintf("%d acquire sites", locks))
	}
	ru.Check("type of Router."+p.Mu.Name(), w.Pos(p.Mu.Pos()), "the writer lock is a sync.Mutex", isNamed(p.Mu.Type(), "sync", "Mutex"), p.Mu.Type().String())

	ru2 := r.Rule("C05.2", "store before unlock: in Txn.Commit the atomic Store of the new tree precedes the Unlock on every path (a call of a helper that unlocks counts as the unlock)", 1)
	commit := w.Method("Txn", "Commit")
	// functions that (transitively, through static module calls) store the tree / release the lock
	storers, unlockers := map[*ssa.Function]bool{}, map[*ssa.Function]bool{}
	for _, s := range p.sites(p.Tree) {
		if s.name == "Store" {
			storers[s.fn] = true
		}
	}
	for _, s := range p.sites(p.Mu) {
		if s.name == "Unlock" {
			unlockers[s.fn] = true
		}
	}
	for _, set := range []map[*ssa.Function]bool{storers, unlockers} {
		for changed := true; changed; {
			changed = false
			for _, fn := range w.FoxFuncs() {
				if set[fn] {
					continue
				}
				eachInstr(fn, func(in ssa.Instruction) {
					if site, ok := in.(ssa.CallInstruction); ok {
						if c := site.Common().StaticCallee(); c != nil && set[c] && !set[fn] {
							set[fn] = true
							changed = true
						}
					}
				})
			}
		}
	}
	var stores, unlocks []ssa.Instruction
	eachInstr(commit, func(in ssa.Instruction) {
		site, ok := in.(ssa.CallInstruction)
		if !ok {
			return
		}
		args := callArgs(site)
		obj := calleeObj(site)
		if len(args) > 0 && obj != nil {
			if _, f, ok := fieldOfAddr(args[0]); ok {
				if f == p.Tree && obj.Name() == "Store" {
					stores = append(stores, in)
				}
				if f == p.Mu && obj.Name() == "Unlock" {
					unlocks = append(unlocks, in)
				}
			}
		}
		if c := site.Common().StaticCallee(); c != nil && c != commit {
			if storers[c] {
				stores = append(stores, in)
			}
			if unlockers[c] {
				unlocks = append(unlocks, in)
			}
		}
	})
	if len(stores) == 0 || len(unlocks) == 0 {
		ru2.Fail("Commit", w.Pos(commit.Pos()), "Commit stores then unlocks", fmt.Sprintf("%d Store, %d Unlock sites", len(stores), len(unlocks)))
	}
	for _, u := range unlocks {
		ok := false
		for _, s := range stores {
			if s != u && mustPassThrough(commit, nil, s, u) && !instrReachableFrom(u, s) {
				ok = true
			}
		}
		ru2.Check("Unlock in (*Txn).Commit", w.Pos(u.Pos()), "the Store dominates the Unlock and cannot follow it", ok, map[bool]string{true: "Store dominates Unlock", false: "a path releases the lock before (or without) publishing"}[ok])
	}
}

// ---- C05.3 ------------------------------------------------------------------------------------------------

func checkC05OneLoad(w *World, r *Report, p *Proto) {
	ru := r.Rule("C05.3", "one load per read: no function obtains the published tree twice on one path or inside a loop (directly or through callees); a pooled context is returned to the pool of the tree it was taken from; a context's owner tree is recorded only at allocation", 5)
	for _, fn := range w.FoxFuncs() {
		if isTestHelper(w, fn) {
			continue
		}
		sites := p.loadSitesIn(fn)
		if len(sites) == 0 {
			continue
		}
		r.Analysed(FuncName(fn))
		bad := ""
		for _, a := range sites {
			if blockReach(a.Block(), false)[a.Block()] {
				bad = "load at " + w.Pos(a.Pos()) + " is inside a loop"
			}
			for _, b := range sites {
				if a != b && instrReachableFrom(a, b) {
					bad = "second load at " + w.Pos(b.Pos()) + " reachable after the load at " + w.Pos(a.Pos())
				}
			}
		}
		ru.Check("loads in "+FuncName(fn), w.Pos(sites[0].Pos()), "at most one load of the published tree on any path, none in a loop", bad == "", orDefault(bad, fmt.Sprintf("%d load site(s), mutually exclusive", len(sites))))
	}
	// pool pairing
	treeOfCtx := w.FieldOfType(p.CtxType, "*iTree", func(t types.Type) bool { return namedOf(t) == p.TreeType && isPointer(t) })
	for _, fn := range w.FoxFuncs() {
		eachInstr(fn, func(in ssa.Instruction) {
			site, ok := in.(ssa.CallInstruction)
			if !ok || !isMethodNamed(calleeObj(site), "sync", "Pool", "Put") {
				return
			}
			args := callArgs(site)
			base, f, ok := fieldOfAddr(args[0])
			if !ok || f != p.PoolField {
				return
			}
			obj := stripIface(args[1])
			okk, why := false, "the context put into "+valStr(base)+"'s pool was not taken from it"
			if g := poolGetOf(obj); g != nil {
				gb, gf, _ := fieldOfAddr(callArgs(g)[0])
				if gf == p.PoolField && gb == base {
					okk, why = true, "Get and Put on the pool of the same tree value "+valStr(base)
				}
			}
			if lb, lf, ok := loadedField(base); ok && lf == treeOfCtx && lb == obj {
				okk, why = true, "returned to the owner recorded in the context (c."+treeOfCtx.Name()+")"
			}
			// a release helper(tree, c): judged at every call with the arguments substituted
			if bp, isParam := base.(*ssa.Parameter); isParam && !okk {
				if op, isParam := obj.(*ssa.Parameter); isParam {
					bi, oi := -1, -1
					for i, prm := range fn.Params {
						if prm == bp {
							bi = i
						}
						if prm == op {
							oi = i
						}
					}
					nCalls, allOK := 0, true
					for _, caller := range w.FoxFuncs() {
						eachInstr(caller, func(in2 ssa.Instruction) {
							cs, ok := in2.(ssa.CallInstruction)
							if !ok || staticCallee(cs) != fn || bi < 0 || oi < 0 {
								return
							}
							nCalls++
							cargs := callArgs(cs)
							g := poolGetOf(stripIface(seeThrough(stripIface(cargs[oi]))))
							if g == nil {
								allOK = false
								return
							}
							gb, gf, _ := fieldOfAddr(callArgs(g)[0])
							if gf != p.PoolField || gb != cargs[bi] {
								allOK = false
							}
						})
					}
					if nCalls > 0 && allOK {
						okk, why = true, fmt.Sprintf("release helper: at each of its %d call(s) the context was taken from the pool of the tree passed along", nCalls)
					}
				}
			}
			ru.Check("Put in "+FuncName(fn), w.Pos(in.Pos()), "a pooled context goes back to the pool of the tree it came from", okk, why)
		})
	}
	alloc := w.Method("iTree", "allocateContext")
	for _, fn := range w.FoxFuncs() {
		eachInstr(fn, func(in ssa.Instruction) {
			st, ok := in.(*ssa.Store)
			if !ok {
				return
			}
			_, f, ok := fieldOfAddr(st.Addr)
			if !ok || f != treeOfCtx {
				return
			}
			okk := fn == alloc && st.Val == ssa.Value(fn.Params[0])
			ru.Check("store cTx."+f.Name()+" in "+FuncName(fn), w.Pos(in.Pos()), "the owner tree of a context is set once, at allocation, to the allocating tree", okk, valStr(st.Val))
		})
	}
}

func isPointer(t types.Type) bool {
	_, ok := types.Unalias(t).(*types.Pointer)
	return ok
}

func stripIface(v ssa.Value) ssa.Value {
	for {
		switch x := v.(type) {
		case *ssa.MakeInterface:
			v = x.X
		case *ssa.ChangeInterface:
			v = x.X
		case *ssa.ChangeType:
			v = x.X
		default:
			return v
		}
	}
}

// poolGetOf: v is (a type assertion of) the result of a sync.Pool.Get call; returns that call.
func poolGetOf(v ssa.Value) ssa.CallInstruction {
	if ta, ok := v.(*ssa.TypeAssert); ok {
		v = ta.X
	}
	if c, ok := v.(*ssa.Call); ok && isMethodNamed(calleeObj(c), "sync", "Pool", "Get") {
		return c
	}
	return nil
}

// ---- C05.4 ------------------------------------------------------------------------------------------------

func checkC05SharedState(w *World, r *Report, p *Proto) { checkSharedStateAs(w, r, p, "C05.4") }

// checkSharedStateAs is rule C05.4 (repeated as C03.6).
func checkSharedStateAs(w *World, r *Report, p *Proto, id string) {
	ru := r.Rule(id, "shared state is read-only after publication: every store to a Router field happens in the constructor (on the Router it allocated) or in an option closure applied by the constructor; global options are applied only there; iTree fields are stored only while the tree is being built", 10)
	rst := p.Router.Underlying().(*types.Struct)
	rfields := map[*types.Var]bool{}
	for i := 0; i < rst.NumFields(); i++ {
		rfields[rst.Field(i)] = true
	}
	tst := p.TreeType.Underlying().(*types.Struct)
	tfields := map[*types.Var]bool{}
	for i := 0; i < tst.NumFields(); i++ {
		tfields[tst.Field(i)] = true
	}
	sealed := w.FoxType("sealedOption")
	for _, fn := range w.FoxFuncs() {
		if isTestHelper(w, fn) {
			continue
		}
		eachInstr(fn, func(in ssa.Instruction) {
			st, ok := in.(*ssa.Store)
			if !ok {
				return
			}
			base, f, ok := fieldOfAddr(st.Addr)
			if !ok {
				return
			}
			switch {
			case rfields[f]:
				okk, why := false, "store to shared Router state outside construction"
				if a, isAlloc := seeThrough(base).(*ssa.Alloc); isAlloc && a.Parent() == fn {
					okk, why = true, "constructor: the Router was allocated in this function"
				} else if sb, sf, ok := logicalField(base); ok && namedOf(sb.Type()) == sealed && sf.Name() == "router" && fn.Parent() != nil {
					if _, isParam := sb.(*ssa.Parameter); isParam {
						okk, why = true, "option closure writing the router handed to it through the sealed option"
					}
				}
				ru.Check("store Router."+f.Name()+" in "+FuncName(fn), w.Pos(in.Pos()), "Router fields are written only during construction", okk, why)
			case tfields[f]:
				okk, why := false, "store to a tree field of a tree that may already be published"
				if a, isAlloc := seeThrough(base).(*ssa.Alloc); isAlloc && a.Parent() == fn {
					okk, why = true, "the tree was allocated in this function (not yet published)"
				}
				ru.Check("store iTree."+f.Name()+" in "+FuncName(fn), w.Pos(in.Pos()), "tree fields are written only while the tree is being built", okk, why)
			}
		})
	}
	// who may apply global options
	newFn := w.Func("New")
	for _, fn := range w.FoxFuncs() {
		eachInstr(fn, func(in ssa.Instruction) {
			site, ok := in.(ssa.CallInstruction)
			if !ok || !site.Common().IsInvoke() || site.Common().Method.Name() != "applyGlob" {
				return
			}
			okk := fn == newFn
			ru.Check("applyGlob call in "+FuncName(fn), w.Pos(in.Pos()), "global options are applied only by the constructor", okk, map[bool]string{true: "in New", false: "applied outside New"}[okk])
		})
	}
	// sealedOption.router is produced only by New
	for _, fn := range w.FoxFuncs() {
		eachInstr(fn, func(in ssa.Instruction) {
			st, ok := in.(*ssa.Store)
			if !ok {
				return
			}
			base, f, ok := fieldOfAddr(st.Addr)
			if !ok || namedOf(base.Type()) != sealed || f.Name() != "router" {
				return
			}
			okk := fn == newFn || isNilConst(st.Val)
			ru.Check("sealedOption.router set in "+FuncName(fn), w.Pos(in.Pos()), "only the constructor hands its (unpublished) Router to options", okk, valStr(st.Val))
		})
	}
}

// ---- C05.5 ------------------------------------------------------------------------------------------------

type ownerState int

const (
	ctxNone ownerState = iota
	ctxHeld
	ctxHeldDeferred // release registered with defer: usable until exit
	ctxReleased
)

func (s ownerState) String() string {
	return [...]string{"none", "held", "held(defer release)", "released"}[s]
}

// releaseWrappers: methods whose body puts their receiver back into a tree pool (cTx.Close).
func (p *Proto) releaseWrappers() map[*ssa.Function]int {
	out := map[*ssa.Function]int{}
	for _, fn := range p.w.FoxFuncs() {
		if len(fn.Params) == 0 {
			continue
		}
		eachInstr(fn, func(in ssa.Instruction) {
			site, ok := in.(ssa.CallInstruction)
			if !ok || !isMethodNamed(calleeObj(site), "sync", "Pool", "Put") {
				return
			}
			args := callArgs(site)
			if _, f, ok := fieldOfAddr(args[0]); ok && f == p.PoolField {
				for i, prm := range fn.Params {
					if stripIface(args[1]) == ssa.Value(prm) {
						out[fn] = i
					}
				}
			}
		})
	}
	return out
}

func checkC05ContextOwner(w *World, r *Report, p *Proto) { checkContextOwnerAs(w, r, p, "C05.5") }

// checkContextOwnerAs also runs under C16: a context that is taken from the pool on the request path and not put back
// makes the pool allocate a new one for a later request.
func checkContextOwnerAs(w *World, r *Report, p *Proto, id string) {
	ru := r.Rule(id, "pooled contexts have one owner: for every Get of a tree's context pool, on every path the context is released exactly once (Put, deferred Put/Close) or handed to the caller, never used after release and never dropped", 5)
	ru.Idiom("tree.ctx.Put(c) followed by return", "defer tree.ctx.Put(c)", "defer c.Close()", "return c (ownership passes to the caller as ContextCloser)")
	wrappers := p.releaseWrappers()
	nGets := 0
	for _, fn := range w.FoxFuncs() {
		if isTestHelper(w, fn) {
			continue
		}
		var gets []*ssa.Call
		eachInstr(fn, func(in ssa.Instruction) {
			c, ok := in.(*ssa.Call)
			if !ok || !isMethodNamed(calleeObj(c), "sync", "Pool", "Get") {
				return
			}
			if _, f, ok := fieldOfAddr(callArgs(c)[0]); ok && f == p.PoolField {
				gets = append(gets, c)
			}
		})
		for _, g := range gets {
			nGets++
			r.Analysed(FuncName(fn))
			// the context value: the type assertion of the Get result (or the result itself)
			var obj ssa.Value = g
			if refs := g.Referrers(); refs != nil {
				for _, ref := range *refs {
					if ta, ok := ref.(*ssa.TypeAssert); ok {
						obj = ta
					}
				}
			}
			isObj := func(v ssa.Value) bool {
				v = stripIface(seeThrough(stripIface(v)))
				return v == obj || v == ssa.Value(g)
			}
			isRelease := func(in ssa.Instruction) (bool, bool) { // (release, deferred)
				site, ok := in.(ssa.CallInstruction)
				if !ok {
					return false, false
				}
				_, deferred := in.(*ssa.Defer)
				args := callArgs(site)
				if isMethodNamed(calleeObj(site), "sync", "Pool", "Put") && len(args) == 2 && isObj(args[1]) {
					return true, deferred
				}
				if c := staticCallee(site); c != nil {
					if idx, isWrapper := wrappers[c]; isWrapper && len(args) > idx && isObj(args[idx]) {
						return true, deferred
					}
				}
				return false, false
			}
			uses := func(in ssa.Instruction) bool {
				for _, op := range in.Operands(nil) {
					if *op != nil && isObj(*op) {
						return true
					}
				}
				return false
			}
			// path-set dataflow from the Get
			type key struct {
				b *ssa.BasicBlock
				s ownerState
			}
			inStates := map[*ssa.BasicBlock]map[ownerState]bool{}
			problems := map[string]string{}
			add := func(b *ssa.BasicBlock, s ownerState, work *[]*ssa.BasicBlock) {
				if inStates[b] == nil {
					inStates[b] = map[ownerState]bool{}
				}
				if !inStates[b][s] {
					inStates[b][s] = true
					*work = append(*work, b)
				}
			}
			var work []*ssa.BasicBlock
			// start: process the Get's block from the Get onwards with state Held; other entries to blocks carry None
			process := func(b *ssa.BasicBlock, s ownerState, from int) ownerState {
				for _, in := range b.Instrs[from:] {
					if in == ssa.Instruction(g) {
						if s == ctxHeld || s == ctxHeldDeferred {
							problems["leak at re-acquire"] = "the context is acquired again at " + w.Pos(g.Pos()) + " while the previous one is still held"
						}
						s = ctxHeld
						continue
					}
					if rel, deferred := isRelease(in); rel {
						switch {
						case s == ctxReleased || s == ctxHeldDeferred:
							problems["double release"] = "released twice on a path: second release at " + w.Pos(in.Pos())
						case s == ctxNone:
							// release on a path that did not acquire (cannot happen: def dominates use)
						case deferred:
							s = ctxHeldDeferred
						default:
							s = ctxReleased
						}
						continue
					}
					if s == ctxReleased && uses(in) {
						if _, isRet := in.(*ssa.Return); !isRet {
							problems["use after release"] = "used at " + w.InstrPos(in) + " after being put back into the pool"
						} else {
							problems["returned after release"] = "returned to the caller at " + w.InstrPos(in) + " after being put back into the pool"
						}
					}
					if ret, ok := in.(*ssa.Return); ok {
						returned := false
						for _, res := range ret.Results {
							if isObj(res) {
								returned = true
							}
						}
						if s == ctxHeld && !returned {
							problems["leak"] = "a return at " + w.InstrPos(in) + " is reachable with the context neither released nor handed to the caller"
						}
						if s == ctxHeldDeferred && returned {
							problems["returned and released"] = "returned to the caller although a deferred release is registered"
						}
					}
				}
				return s
			}
			_ = key{}
			gb := g.Block()
			out0 := process(gb, ctxNone, 0)
			for _, s := range gb.Succs {
				add(s, out0, &work)
			}
			for len(work) > 0 {
				b := work[0]
				work = work[1:]
				for s := range inStates[b] {
					o := process(b, s, 0)
					for _, sc := range b.Succs {
						add(sc, o, &work)
					}
				}
			}
			keys := make([]string, 0, len(problems))
			for k := range problems {
				keys = append(keys, k)
			}
			sort.Strings(keys)
			var msgs []string
			for _, k := range keys {
				msgs = append(msgs, problems[k])
			}
			ru.Check("Get in "+FuncName(fn), w.Pos(g.Pos()), "released exactly once on every path (or handed to the caller), never used afterwards", len(problems) == 0,
				orDefault(strings.Join(msgs, "; "), "every path releases once or returns the context"))
		}
	}
	if nGets < 5 {
		r.Unrecognised("%s: only %d pooled-context acquisitions found", id, nGets)
	}
}
