package main

import (
	"fmt"
	"go/token"
	"go/types"
	"sort"
	"strings"

	"golang.org/x/tools/go/ssa"
)

func init() { register("C12", checkC12) }

func checkC12(w *World, r *Report) {
	r.Explanation = "Reset coverage of the recycled request context, decided structurally: for every place where a pooled context is handed to user code (the handler calls of ServeHTTP, " +
		"the contexts returned by Router.Lookup / Txn.Lookup and by CloneWith) and for every field of the context struct (enumerated from go/types, so a new field is covered), a forward " +
		"must-dataflow shows the field was assigned since the context left the pool, or the field is exempt for a stated, checked reason (construction-time constant, scratch storage never " +
		"read by a Context method, parameters read only under the trailing-slash flag, the embedded recorder which only ServeHTTP contexts use). Clone is shown to copy nothing that aliases " +
		"pooled or per-request mutable storage. These are the necessary conditions of 'a Context only shows the current request'; what user middleware does with contexts is not decided."
	r.NotDecided = []string{"behaviour of user middleware holding contexts", "header maps owned by the underlying writer", "concurrent misuse of one context"}
	r.Assumptions = []string{"sync.Pool hands an object to one goroutine at a time", "single ownership of pooled contexts (decided by C05.5, repeated here)"}
	p := newProto(w)
	cf := newCtxFlow(w)
	d := analyseDispatch(w)

	// exemptions, each checked
	exempt := checkC12Exemptions(w, r, p, cf)

	ru := r.Rule("C12.1", "reset coverage: at every point where a pooled context is exposed to user code, every non-exempt field of the context struct has been assigned since the context was taken from the pool", 4)
	ru.Idiom("c.reset(w, r) / c.resetWithWriter(w, r) right after Get", "explicit field assignments in CloneWith", "route and tsr assigned on each branch of ServeHTTP before the handler call")
	need := func(kind string) []*types.Var {
		var out []*types.Var
		for _, f := range cf.fields {
			if why, ok := exempt[f.Name()]; ok && (why.kinds == nil || why.kinds[kind]) {
				continue
			}
			out = append(out, f)
		}
		return out
	}
	// memo fields: a Context method fills the field lazily under a nil test of that same field (c.cachedQuery). Such a
	// field holds data computed from an earlier state of the context, so being assigned is not enough: it has to be nil
	// when the context is exposed.
	memo := map[*types.Var]bool{}
	for _, m := range w.MethodsOf("cTx") {
		if len(m.Params) == 0 {
			continue
		}
		tested := map[*types.Var]bool{}
		for _, b := range m.Blocks {
			for _, in := range b.Instrs {
				if iff, ok := in.(*ssa.If); ok {
					if bo, ok := iff.Cond.(*ssa.BinOp); ok && isNilConst(bo.Y) {
						if base, f, ok := loadedField(bo.X); ok && stripIface(seeThrough(base)) == ssa.Value(m.Params[0]) {
							tested[f] = true
						}
					}
				}
			}
		}
		for _, b := range m.Blocks {
			for _, in := range b.Instrs {
				if st, ok := in.(*ssa.Store); ok {
					if base, f, ok := fieldOfAddr(st.Addr); ok && tested[f] && stripIface(seeThrough(base)) == ssa.Value(m.Params[0]) && !isNilConst(st.Val) {
						memo[f] = true
					}
				}
			}
		}
	}
	if len(memo) == 0 {
		r.Unrecognised("C12.1: no lazily filled (memo) field of the context found; expected the cached query values")
	}
	check := func(kind, construct string, pos string, st ctxState) {
		var missing []string
		for _, f := range need(kind) {
			if memo[f] && st.f[f].written && st.f[f].kind != kScrub {
				missing = append(missing, f.Name()+" (a lazily filled memo: must be nil, is "+st.f[f].String()+")")
			}
		}
		for _, f := range need(kind) {
			if !st.f[f].written {
				if f.Name() == "params" && st.f[cf.anyParams].written && st.f[cf.field("tsr")].written {
					continue // exactly one of params/tsrParams is read, selected by tsr (C12.1x); one of them was copied on every path
				}
				missing = append(missing, f.Name())
			}
		}
		sort.Strings(missing)
		names := []string{}
		for _, f := range need(kind) {
			names = append(names, f.Name())
		}
		ru.Check(construct, pos, "fields assigned for this request before exposure: "+strings.Join(names, ","), len(missing) == 0,
			orDefault(strings.Join(missing, ",")+" not assigned on some path since the context left the pool", "all assigned"))
	}
	// ServeHTTP: every handler call
	for _, c := range d.routeCalls {
		check("serve", "route handler call in ServeHTTP", w.Pos(c.Pos()), d.state[c])
	}
	var sf []*types.Var
	for f := range d.specialCalls {
		sf = append(sf, f)
	}
	sort.Slice(sf, func(i, j int) bool { return sf[i].Name() < sf[j].Name() })
	for _, f := range sf {
		for _, c := range d.specialCalls[f] {
			check("serve", "call of Router."+f.Name()+" in ServeHTTP", w.Pos(c.Pos()), d.state[c])
		}
	}
	// functions returning a pooled context to the caller
	nret := 0
	for _, fn := range w.FoxFuncs() {
		if isTestHelper(w, fn) || fn == d.fn {
			continue
		}
		vals, defs := cf.acquisitions(p, fn)
		for i, v := range vals {
			obj := v
			isObj := func(x ssa.Value) bool { return stripIface(seeThrough(stripIface(x))) == obj }
			cf.Run(fn, obj, defs[i], func(in ssa.Instruction, st ctxState) {
				ret, ok := in.(*ssa.Return)
				if !ok {
					return
				}
				for _, res := range ret.Results {
					if isObj(res) {
						nret++
						check("returned", "context returned by "+FuncName(fn), w.InstrPos(in), st)
					}
				}
			})
		}
	}
	if nret < 2 {
		r.Unrecognised("C12.1: only %d functions returning a pooled context found", nret)
	}

	// route/tsr/scope values for the route handler: route is the matched route, tsr the lookup's flag
	ru4 := r.Rule("C12.4", "the route chain sees its own route: at each route handler call c.route was assigned the route whose chain is invoked, and c.tsr the flag returned by that lookup", 1)
	for _, c := range d.routeCalls {
		// callee = load(hall of X); find the store to c.route in the same block and compare its value with X
		rb, _, _ := loadedField(c.Call.Value)
		okRoute, okTsr := false, false
		for _, in := range c.Block().Instrs {
			st, ok := in.(*ssa.Store)
			if !ok {
				continue
			}
			base, f, ok := fieldOfAddr(st.Addr)
			if !ok || stripIface(base) != d.ctx {
				continue
			}
			if f.Name() == "route" && sameExpr(st.Val, rb) {
				okRoute = true
			}
			if f.Name() == "tsr" {
				if ex, ok := st.Val.(*ssa.Extract); ok && ex.Tuple == ssa.Value(d.mainLook) {
					okTsr = true
				}
			}
		}
		ru4.Check("route handler call", w.Pos(c.Pos()), "c.route = n.route and c.tsr = tsr of the main lookup right before n.route's chain runs", okRoute && okTsr, fmt.Sprintf("route=%v tsr=%v", okRoute, okTsr))
	}

	checkC12Recorder(w, r, cf)
	checkC12Clone(w, r, cf)
	checkCloneWithCarries(w, r, "C12.5", "route", "scope", "tsr")
	checkParamsSelector(w, r, "C12.6")
	checkC12MemoInvalidation(w, r, cf)
	checkTsrParamsRebuilt(w, r, "C12.8")
}

type exemption struct {
	why   string
	kinds map[string]bool // nil: all acquisition kinds
}

// checkC12Exemptions establishes, with checks, which fields need no per-request assignment.
func checkC12Exemptions(w *World, r *Report, p *Proto, cf *CtxFlow) map[string]exemption {
	ru := r.Rule("C12.1x", "exemptions from reset coverage are justified: construction-time constants are stored only by the allocator; scratch fields are never read by a Context method; the trailing-slash parameter copy is read only under the (reset) tsr flag", 2)
	ex := map[string]exemption{}
	alloc := w.Method("iTree", "allocateContext")
	// (1) constants: fields stored only in allocateContext (or on a context struct allocated in the storing function)
	stores := map[*types.Var][]*ssa.Store{}
	for _, fn := range w.FoxFuncs() {
		if isTestHelper(w, fn) {
			continue
		}
		eachInstr(fn, func(in ssa.Instruction) {
			st, ok := in.(*ssa.Store)
			if !ok {
				return
			}
			base, f, ok := fieldOfAddr(st.Addr)
			if ok && cf.isCtxPtr(base.Type()) {
				stores[f] = append(stores[f], st)
			}
		})
	}
	for _, f := range cf.fields {
		ss := stores[f]
		if len(ss) == 0 {
			continue
		}
		onlyAlloc := true
		for _, st := range ss {
			base, _, _ := fieldOfAddr(st.Addr)
			_, isFresh := seeThrough(base).(*ssa.Alloc)
			if st.Parent() != alloc && !isFresh {
				onlyAlloc = false
			}
		}
		if onlyAlloc && isPointer(f.Type()) && (namedOf(f.Type()) == p.TreeType || namedOf(f.Type()) == p.Router) {
			ex[f.Name()] = exemption{why: "construction-time constant"}
			ru.Pass("constant field cTx."+f.Name(), w.Pos(f.Pos()), "stored only when a context is allocated", fmt.Sprintf("%d store(s), all in allocators", len(ss)))
		}
	}
	// (2) scratch: pointer-to-slice fields never loaded by methods of cTx (the Context implementation)
	readers := map[*types.Var][]string{}
	for _, fn := range w.MethodsOf("cTx") {
		for _, g := range withAnon(fn) {
			eachInstr(g, func(in ssa.Instruction) {
				u, ok := in.(*ssa.UnOp)
				if !ok || u.Op != token.MUL {
					return
				}
				if base, f, ok := fieldOfAddr(u.X); ok && cf.isCtxPtr(base.Type()) {
					readers[f] = append(readers[f], FuncName(g))
				}
			})
		}
	}
	for _, f := range cf.fields {
		if _, done := ex[f.Name()]; done {
			continue
		}
		if len(readers[f]) == 0 && isPointer(f.Type()) {
			ex[f.Name()] = exemption{why: "scratch storage, not readable through Context"}
			ru.Pass("scratch field cTx."+f.Name(), w.Pos(f.Pos()), "no method of the context reads it", "0 readers among the methods of cTx")
		}
	}
	// (3) tsrParams: every read inside cTx methods is under c.tsr == true
	tsrParams, tsr := cf.field("tsrParams"), cf.field("tsr")
	bad := ""
	nreads := 0
	for _, fn := range w.MethodsOf("cTx") {
		for _, g := range withAnon(fn) {
			eachInstr(g, func(in ssa.Instruction) {
				u, ok := in.(*ssa.UnOp)
				if !ok || u.Op != token.MUL {
					return
				}
				base, f, ok := fieldOfAddr(u.X)
				if !ok || f != tsrParams || !cf.isCtxPtr(base.Type()) {
					return
				}
				if a, isAlloc := seeThrough(base).(*ssa.Alloc); isAlloc && a.Parent() == g {
					return // the new struct built by Clone
				}
				nreads++
				guarded := false
				for _, ft := range factsAtBlock(u.Block()) {
					if _, ff, ok := loadedField(ft.Cond); ok && ff == tsr && ft.Val {
						guarded = true
					}
				}
				// destination of a copy (CloneWith writes cp.tsrParams): loads of the pointer for writing are fine when
				// the base is not the receiver
				if !guarded {
					if pb := seeThrough(base); pb != ssa.Value(g.Params[0]) && !isFreeVarOf(pb) {
						return
					}
					bad = "read of tsrParams at " + w.Pos(u.Pos()) + " in " + FuncName(g) + " is not under c.tsr"
				}
			})
		}
	}
	ru.Check("guarded field cTx.tsrParams", w.Pos(tsrParams.Pos()), "every read by a Context method is control-dependent on c.tsr", bad == "" && nreads > 0, orDefault(bad, fmt.Sprintf("%d reads, all under c.tsr", nreads)))
	if bad == "" {
		ex["tsrParams"] = exemption{why: "read only under the tsr flag, which is itself covered"}
	}
	// (4) rec: only ServeHTTP contexts use the embedded recorder (C12.2 checks nobody else reads it)
	ex["rec"] = exemption{why: "embedded recorder is used only by contexts reset with reset() (C12.2)", kinds: map[string]bool{"returned": true}}
	return ex
}

func isFreeVarOf(v ssa.Value) bool {
	_, ok := v.(*ssa.FreeVar)
	return ok
}

// checkC12Recorder: the embedded recorder of a context is touched only by reset (which initialises it).
func checkC12Recorder(w *World, r *Report, cf *CtxFlow) {
	ru := r.Rule("C12.2", "state-dependent field: the embedded recorder is reset only by reset(); contexts acquired through resetWithWriter or CloneWith use an external writer, so no other code may read or copy the receiver's recorder", 1)
	rec := cf.field("rec")
	resetFn := w.Method("cTx", "reset")
	n := 0
	for _, fn := range w.FoxFuncs() {
		if isTestHelper(w, fn) {
			continue
		}
		eachInstr(fn, func(in ssa.Instruction) {
			fa, ok := in.(*ssa.FieldAddr)
			if !ok {
				return
			}
			base, f, _ := fieldOfAddr(fa)
			if f != rec || !cf.isCtxPtr(base.Type()) {
				return
			}
			n++
			if a, isAlloc := seeThrough(base).(*ssa.Alloc); isAlloc && a.Parent() == fn {
				ru.Pass("recorder of a new context in "+FuncName(fn), w.Pos(fa.Pos()), "the recorder of a context struct built here", "fresh struct")
				return
			}
			ru.Check("recorder access in "+FuncName(fn), w.Pos(fa.Pos()), "only reset() touches the embedded recorder of a pooled context", fn == resetFn, FuncName(fn))
		})
	}
	if n == 0 {
		ru.Fail("recorder accesses", "-", "reset() initialises the embedded recorder", "no access found")
	}
}

// checkC12Clone: nothing stored in the struct returned by Clone aliases pooled or per-request mutable storage.
func checkC12Clone(w *World, r *Report, cf *CtxFlow) {
	ru := r.Rule("C12.3", "clones do not alias pooled storage: every pointer, slice, map or interface stored into the context struct built by Clone is freshly made, or one of the immutable values (route, router); never the receiver's params, writer, request, recorder or cached query", 3)
	clone := w.Method("cTx", "Clone")
	recv := ssa.Value(clone.Params[0])
	immutable := map[string]bool{"fox": true, "route": true}
	targets := map[*ssa.Alloc]bool{}
	eachInstr(clone, func(in ssa.Instruction) {
		if a, ok := in.(*ssa.Alloc); ok && namedOf(a.Type()) == cf.ctxT && !cf.isCtxPtr(derefType(a.Type())) {
			targets[a] = true
		}
		// a whole-struct copy of the receiver would alias everything
		if st, ok := in.(*ssa.Store); ok {
			if u, ok := st.Val.(*ssa.UnOp); ok && u.Op == token.MUL && u.X == recv {
				ru.Fail("Clone copies the receiver struct", w.Pos(st.Pos()), "the clone is built field by field", "whole-struct copy of the pooled context")
			}
		}
	})
	if len(targets) == 0 {
		ru.Fail("Clone", w.Pos(clone.Pos()), "Clone builds a new context struct", "no local context struct found")
		return
	}
	var fresh func(v ssa.Value, depth int) (bool, string)
	fresh = func(v ssa.Value, depth int) (bool, string) {
		if depth > 6 {
			return false, "too deep"
		}
		switch x := v.(type) {
		case *ssa.Const:
			return true, "constant"
		case *ssa.Alloc:
			if targets[x] {
				return true, "the clone itself"
			}
			// a local cell (`params := ...; cp.params = &params`): everything stored into it must itself be fresh
			if refs := x.Referrers(); refs != nil {
				for _, ref := range *refs {
					if st, ok := ref.(*ssa.Store); ok && st.Addr == ssa.Value(x) {
						if okk, how := fresh(st.Val, depth+1); !okk {
							return false, "local " + x.Comment + " holds " + how
						}
					}
				}
			}
			return true, "fresh local " + x.Comment
		case *ssa.Slice:
			return fresh(x.X, depth+1)
		case *ssa.MakeSlice, *ssa.MakeMap:
			return true, "fresh"
		case *ssa.MakeInterface:
			return fresh(x.X, depth+1)
		case *ssa.ChangeType:
			return fresh(x.X, depth+1)
		case *ssa.FieldAddr:
			if b, _, ok := fieldOfAddr(x); ok {
				if a, isAlloc := b.(*ssa.Alloc); isAlloc && targets[a] {
					return true, "address inside the clone"
				}
			}
			return false, "address inside " + valStr(x.X)
		case *ssa.Call:
			// copying functions give fresh storage whatever they are handed; any other call is fresh only when none of its
			// reference arguments aliases pooled storage (slices.Clip, a reslicing helper, ... return their argument)
			if callee := x.Call.StaticCallee(); callee != nil {
				full := callee.String()
				for _, cpy := range []string{"(*net/http.Request).Clone", "(net/http.Header).Clone", "slices.Clone", "maps.Clone", "bytes.Clone", "strings.Clone"} {
					if full == cpy || strings.HasPrefix(full, cpy+"[") {
						return true, "copy made by " + full
					}
				}
			}
			if b, isBuiltin := x.Call.Value.(*ssa.Builtin); isBuiltin && b.Name() == "append" {
				return fresh(x.Call.Args[0], depth+1)
			}
			args := x.Call.Args
			if x.Call.IsInvoke() {
				args = append([]ssa.Value{x.Call.Value}, args...)
			}
			for _, a := range args {
				switch a.Type().Underlying().(type) {
				case *types.Basic:
					continue
				}
				if okk, how := fresh(a, depth+1); !okk {
					return false, "result of " + valStr(x) + " may alias its argument: " + how
				}
			}
			return true, "result of " + valStr(x)
		case *ssa.UnOp:
			if x.Op == token.MUL {
				if ld, isLoad := x.X.(*ssa.UnOp); isLoad && ld.Op == token.MUL {
					if b, f, ok := fieldOfAddr(ld.X); ok && b == recv {
						return false, "the buffer behind the receiver's " + f.Name()
					}
				}
				if b, f, ok := fieldOfAddr(x.X); ok && b == recv {
					if immutable[f.Name()] {
						return true, "immutable value c." + f.Name()
					}
					t := f.Type().Underlying()
					switch t.(type) {
					case *types.Basic:
						return true, "scalar c." + f.Name()
					}
					return false, "aliases the receiver's " + f.Name()
				}
				if a, ok := x.X.(*ssa.Alloc); ok {
					// load of a local composite under construction
					return true, "local value " + a.Comment
				}
			}
			return false, valStr(x)
		}
		return false, fmt.Sprintf("%T", v)
	}
	nst := 0
	var allRefs []ssa.Instruction
	for t := range targets {
		if refs := t.Referrers(); refs != nil {
			allRefs = append(allRefs, *refs...)
		}
	}
	sort.Slice(allRefs, func(i, j int) bool { return allRefs[i].Pos() < allRefs[j].Pos() })
	{
		for _, ref := range allRefs {
			fa, ok := ref.(*ssa.FieldAddr)
			if !ok {
				continue
			}
			_, f, _ := fieldOfAddr(fa)
			if fr := fa.Referrers(); fr != nil {
				for _, x := range *fr {
					st, ok := x.(*ssa.Store)
					if !ok || st.Addr != ssa.Value(fa) {
						continue
					}
					nst++
					okk, how := fresh(st.Val, 0)
					ru.Check("Clone stores "+f.Name(), w.Pos(st.Pos()), "stored value is fresh or immutable", okk, how)
				}
			}
		}
	}
	if nst < 5 {
		ru.Fail("Clone", w.Pos(clone.Pos()), "the clone's fields are initialised by explicit stores", fmt.Sprintf("%d stores found", nst))
	}
	// the request must be cloned, the headers copied
	hasReqClone, hasHdrClone := false, false
	eachInstr(clone, func(in ssa.Instruction) {
		c, ok := in.(*ssa.Call)
		if !ok {
			return
		}
		obj := calleeObj(c)
		if isMethodNamed(obj, "net/http", "Request", "Clone") {
			hasReqClone = true
		}
		if isMethodNamed(obj, "net/http", "Header", "Clone") {
			hasHdrClone = true
		}
	})
	ru.Check("Clone copies the request", w.Pos(clone.Pos()), "the http.Request is deep-copied (Request.Clone)", hasReqClone, fmt.Sprint(hasReqClone))
	ru.Check("Clone copies the response headers", w.Pos(clone.Pos()), "the response header map is copied (Header.Clone)", hasHdrClone, fmt.Sprint(hasHdrClone))
}

// checkCloneWithCarries: the copy handed out by CloneWith carries the receiver's route, scope and trailing-slash
// flag: for each of those fields the last write to the copy, on every path to the return, is a store of the
// receiver's field. (C12.1 only demands that the field was assigned; a context "reset" to no route would satisfy it
// while a handler working on the copy loses its route, pattern and per-route client-IP resolver.)
func checkCloneWithCarries(w *World, r *Report, id string, names ...string) {
	ru := r.Rule(id, "CloneWith carries the handler's state: on every path to its return, the last write to the copy's "+strings.Join(names, "/")+" is a store of the receiver's field of the same name", len(names))
	fn := w.Method("cTx", "CloneWith")
	if fn == nil || len(fn.Params) == 0 {
		r.Unrecognised("%s: (*cTx).CloneWith not found", id)
		return
	}
	r.Analysed(FuncName(fn))
	recv := ssa.Value(fn.Params[0])
	var cp ssa.Value
	eachInstr(fn, func(in ssa.Instruction) {
		if c, ok := in.(*ssa.Call); ok && isMethodNamed(calleeObj(c), "sync", "Pool", "Get") {
			cp = c
			if refs := c.Referrers(); refs != nil {
				for _, ref := range *refs {
					if ta, ok := ref.(*ssa.TypeAssert); ok {
						cp = ta
					}
				}
			}
		}
	})
	if cp == nil {
		r.Unrecognised("%s: CloneWith does not take its copy from a pool", id)
		return
	}
	isCp := func(v ssa.Value) bool { return stripIface(seeThrough(stripIface(v))) == cp }
	// may the callee (transitively) store to field f of a context?
	var writes func(g *ssa.Function, f *types.Var, depth int, seen map[*ssa.Function]bool) bool
	writes = func(g *ssa.Function, f *types.Var, depth int, seen map[*ssa.Function]bool) bool {
		if g == nil || len(g.Blocks) == 0 {
			return false
		}
		if seen[g] || depth > 4 {
			return seen[g] == false && depth > 4
		}
		seen[g] = true
		found := false
		eachInstr(g, func(in ssa.Instruction) {
			switch x := in.(type) {
			case *ssa.Store:
				if _, ff, ok := fieldOfAddr(x.Addr); ok && ff == f {
					found = true
				}
			case ssa.CallInstruction:
				if cal := staticCallee(x); cal != nil && cal.Pkg == g.Pkg && writes(cal, f, depth+1, seen) {
					found = true
				}
			}
		})
		return found
	}
	var rets []*ssa.Return
	eachInstr(fn, func(in ssa.Instruction) {
		if rt, ok := in.(*ssa.Return); ok {
			rets = append(rets, rt)
		}
	})
	reach := func(a, b ssa.Instruction) bool { // b may execute after a
		if a.Block() == b.Block() && instrIndex(a) < instrIndex(b) {
			return true
		}
		seen := map[*ssa.BasicBlock]bool{}
		var st []*ssa.BasicBlock
		st = append(st, a.Block().Succs...)
		for len(st) > 0 {
			x := st[len(st)-1]
			st = st[:len(st)-1]
			if seen[x] {
				continue
			}
			seen[x] = true
			if x == b.Block() {
				return true
			}
			st = append(st, x.Succs...)
		}
		return false
	}
	for _, name := range names {
		f := w.Field(w.FoxType("cTx"), name)
		if f == nil {
			r.Unrecognised("%s: context field %s not found", id, name)
			continue
		}
		var all []ssa.Instruction
		var good []ssa.Instruction
		eachInstr(fn, func(in ssa.Instruction) {
			switch x := in.(type) {
			case *ssa.Store:
				if base, ff, ok := fieldOfAddr(x.Addr); ok && ff == f && isCp(base) {
					all = append(all, in)
					if b2, f2, ok := loadedField(x.Val); ok && f2 == f && stripIface(seeThrough(b2)) == recv {
						good = append(good, in)
					}
				}
			case ssa.CallInstruction:
				uses := false
				for _, a := range callArgs(x) {
					if isCp(a) {
						uses = true
					}
				}
				if !uses {
					return
				}
				cal := staticCallee(x)
				if cal == nil || writes(cal, f, 0, map[*ssa.Function]bool{}) {
					all = append(all, in)
					// a helper that copies the field from the receiver to the copy on all its paths (cp.inherit(c)) stands for the store
					if cal != nil && len(cal.Blocks) > 0 {
						args := callArgs(x)
						pi, pj := -1, -1
						for k, a := range args {
							if k < len(cal.Params) {
								if isCp(a) {
									pi = k
								}
								if stripIface(seeThrough(a)) == recv {
									pj = k
								}
							}
						}
						if pi >= 0 && pj >= 0 {
							var stores []*ssa.Store
							otherWriter := false
							eachInstr(cal, func(in2 ssa.Instruction) {
								switch y := in2.(type) {
								case *ssa.Store:
									if _, ff, ok := fieldOfAddr(y.Addr); ok && ff == f {
										stores = append(stores, y)
									}
								case ssa.CallInstruction:
									if c2 := staticCallee(y); c2 != nil && c2.Pkg == cal.Pkg && writes(c2, f, 0, map[*ssa.Function]bool{}) {
										otherWriter = true
									}
								}
							})
							if len(stores) == 1 && !otherWriter {
								st := stores[0]
								b1, _, _ := fieldOfAddr(st.Addr)
								b2, f2, okl := loadedField(st.Val)
								domAll := true
								eachInstr(cal, func(in2 ssa.Instruction) {
									if rt, ok := in2.(*ssa.Return); ok && !instrDominates(st, rt) {
										domAll = false
									}
								})
								if okl && f2 == f && seeThrough(b1) == ssa.Value(cal.Params[pi]) && seeThrough(b2) == ssa.Value(cal.Params[pj]) && domAll {
									good = append(good, in)
								}
							}
						}
					}
				}
			}
		})
		why := ""
		switch {
		case len(good) == 0:
			why = "no store cp." + name + " = c." + name
		default:
			ok := false
			for _, g := range good {
				dom := true
				for _, rt := range rets {
					if !instrDominates(g, rt) {
						dom = false
					}
				}
				later := ""
				for _, o := range all {
					if o != g && reach(g, o) {
						later = w.InstrPos(o)
					}
				}
				if dom && later == "" {
					ok = true
				} else if later != "" {
					why = "the copied value is overwritten afterwards at " + later
				} else {
					why = "the copy at " + w.InstrPos(g) + " does not happen on every path to the return"
				}
			}
			if ok {
				why = ""
			}
		}
		pos := w.Pos(fn.Pos())
		if len(good) > 0 {
			pos = w.InstrPos(good[0])
		}
		ru.Check("CloneWith copies "+name, pos, "cp."+name+" = c."+name+" is the last write to that field before the copy is returned", why == "", orDefault(why, "copied from the receiver, not overwritten"))
	}
}

// checkParamsSelector: a context keeps two parameter buffers and the tsr flag says which one describes the current
// request (a match obtained by adding or removing a trailing slash records its parameters in tsrParams). Outside the
// matcher, which fills both, the content of either buffer may only be read under the matching value of the flag of the
// same context; everything else has to go through Params()/Param().
func checkParamsSelector(w *World, r *Report, id string) {
	ru := r.Rule(id, "parameter buffers are read according to tsr: outside the matcher, every read of the content of cTx.params is dominated by tsr == false of the same context and every read of cTx.tsrParams by tsr == true (truncations to length 0 and writes excepted)", 4)
	ctxT := w.FoxType("cTx")
	params, tsrParams, tsr := w.Field(ctxT, "params"), w.Field(ctxT, "tsrParams"), w.Field(ctxT, "tsr")
	if params == nil || tsrParams == nil || tsr == nil {
		r.Unrecognised("%s: context fields params/tsrParams/tsr not found", id)
		return
	}
	isTrunc := func(u *ssa.UnOp) bool { // (*c.params)[:0] or [:n] reslice stored back: not a read of the content
		refs := u.Referrers()
		if refs == nil || len(*refs) == 0 {
			return false
		}
		for _, ref := range *refs {
			sl, ok := ref.(*ssa.Slice)
			if !ok || sl.X != ssa.Value(u) || sl.Low != nil {
				return false
			}
			if z, ok := constInt(sl.High); !ok || z != 0 {
				return false
			}
		}
		return true
	}
	for _, fn := range w.FoxFuncs() {
		if isTestHelper(w, fn) {
			continue
		}
		// the matcher: functions that store a non-empty slice into one of the buffers
		type read struct {
			u    *ssa.UnOp
			f    *types.Var
			base ssa.Value
		}
		var reads []read
		writer := false
		eachInstr(fn, func(in ssa.Instruction) {
			switch x := in.(type) {
			case *ssa.Store:
				if ptr, ok := x.Addr.(*ssa.UnOp); ok && ptr.Op == token.MUL {
					if _, f, ok := fieldOfAddr(ptr.X); ok && (f == params || f == tsrParams) {
						if sl, ok := x.Val.(*ssa.Slice); ok {
							if z, ok := constInt(sl.High); ok && z == 0 {
								return
							}
						}
						writer = true
					}
				}
			case *ssa.UnOp:
				if x.Op != token.MUL {
					return
				}
				ptr, ok := x.X.(*ssa.UnOp)
				if !ok || ptr.Op != token.MUL {
					return
				}
				if base, f, ok := fieldOfAddr(ptr.X); ok && (f == params || f == tsrParams) && !isTrunc(x) {
					reads = append(reads, read{x, f, base})
				}
			}
		})
		if writer || len(reads) == 0 {
			continue
		}
		r.Analysed(FuncName(fn))
		for _, rd := range reads {
			want := rd.f == tsrParams
			ok := false
			for _, ft := range factsAtBlock(rd.u.Block()) {
				if b2, ff, isLoad := loadedField(ft.Cond); isLoad && ff == tsr && ft.Val == want && sameExpr(seeThrough(b2), seeThrough(rd.base)) {
					ok = true
				}
			}
			ru.Check("read of "+rd.f.Name()+" in "+FuncName(fn), w.InstrPos(rd.u), fmt.Sprintf("dominated by tsr == %v of the same context", want), ok,
				orDefault(map[bool]string{true: "guarded"}[ok], "no dominating test of the context's tsr flag: the other buffer may be the one describing this request"))
		}
	}
}

// checkC12MemoInvalidation: a lazily filled memo (the parsed query) is computed from another field of the context (the
// request). Whoever assigns that source field makes the memo describe something else; it has to clear the memo in the
// same function. (C12.1 checks the memo is nil when a pooled context is handed out; this is the in-request half.)
func checkC12MemoInvalidation(w *World, r *Report, cf *CtxFlow) {
	ru := r.Rule("C12.7", "memo invalidation: every function that assigns the context field a lazily filled memo is computed from (cTx.req for the cached query) also assigns nil to the memo of the same context", 3)
	// memo -> source field, read from the filling method: the stored value derives from a load of another field of the receiver
	type dep struct{ memo, src *types.Var }
	var deps []dep
	for _, m := range w.MethodsOf("cTx") {
		if len(m.Params) == 0 {
			continue
		}
		recv := ssa.Value(m.Params[0])
		tested := map[*types.Var]bool{}
		eachInstr(m, func(in ssa.Instruction) {
			if iff, ok := in.(*ssa.If); ok {
				if bo, ok := iff.Cond.(*ssa.BinOp); ok && isNilConst(bo.Y) {
					if base, f, ok := loadedField(bo.X); ok && stripIface(seeThrough(base)) == recv {
						tested[f] = true
					}
				}
			}
		})
		eachInstr(m, func(in ssa.Instruction) {
			st, ok := in.(*ssa.Store)
			if !ok || isNilConst(st.Val) {
				return
			}
			base, f, ok := fieldOfAddr(st.Addr)
			if !ok || !tested[f] || stripIface(seeThrough(base)) != recv {
				return
			}
			// walk the operands of the stored value back to loads of receiver fields
			seen := map[ssa.Value]bool{}
			var walk func(v ssa.Value, d int)
			walk = func(v ssa.Value, d int) {
				if v == nil || seen[v] || d > 8 {
					return
				}
				seen[v] = true
				if b2, f2, ok := loadedField(v); ok && stripIface(seeThrough(b2)) == recv && f2 != f {
					dup := false
					for _, x := range deps {
						if x.memo == f && x.src == f2 {
							dup = true
						}
					}
					if !dup {
						deps = append(deps, dep{f, f2})
					}
					return
				}
				if in2, ok := v.(ssa.Instruction); ok {
					for _, op := range in2.Operands(nil) {
						if op != nil && *op != nil {
							walk(*op, d+1)
						}
					}
				}
			}
			walk(st.Val, 0)
		})
	}
	if len(deps) == 0 {
		r.Unrecognised("C12.7: no memo field with a source field found")
		return
	}
	for _, d := range deps {
		for _, fn := range w.FoxFuncs() {
			if isTestHelper(w, fn) {
				continue
			}
			eachInstr(fn, func(in ssa.Instruction) {
				st, ok := in.(*ssa.Store)
				if !ok {
					return
				}
				base, f, ok := fieldOfAddr(st.Addr)
				if !ok || f != d.src || !cf.isCtxPtr(base.Type()) {
					return
				}
				if a, isAlloc := seeThrough(base).(*ssa.Alloc); isAlloc && a.Parent() == fn {
					// a struct under construction (Clone): the memo of the new struct starts as written there; C12.3/C12.1 cover it
					return
				}
				cleared := false
				eachInstr(fn, func(in2 ssa.Instruction) {
					st2, ok := in2.(*ssa.Store)
					if !ok || !isNilConst(st2.Val) {
						return
					}
					b2, f2, ok := fieldOfAddr(st2.Addr)
					if ok && f2 == d.memo && sameExpr(seeThrough(b2), seeThrough(base)) && (instrDominates(st, st2) || instrDominates(st2, st)) {
						cleared = true
					}
				})
				// or through a helper handed the same context, which clears the memo on all its paths (cp.inherit(c))
				eachInstr(fn, func(in2 ssa.Instruction) {
					site, ok := in2.(ssa.CallInstruction)
					if !ok || cleared {
						return
					}
					cal := staticCallee(site)
					if cal == nil || len(cal.Blocks) == 0 || !w.InModule(cal) || !(instrDominates(st, in2) || instrDominates(in2, st)) {
						return
					}
					for k, a := range callArgs(site) {
						if k >= len(cal.Params) || !sameExpr(seeThrough(a), seeThrough(base)) {
							continue
						}
						eachInstr(cal, func(in3 ssa.Instruction) {
							st3, ok := in3.(*ssa.Store)
							if !ok || !isNilConst(st3.Val) {
								return
							}
							b3, f3, ok := fieldOfAddr(st3.Addr)
							if !ok || f3 != d.memo || seeThrough(b3) != ssa.Value(cal.Params[k]) {
								return
							}
							domAll := true
							eachInstr(cal, func(in4 ssa.Instruction) {
								if rt, ok := in4.(*ssa.Return); ok && !instrDominates(st3, rt) {
									domAll = false
								}
							})
							if domAll {
								cleared = true
							}
						})
					}
				})
				ru.Check("assignment of cTx."+d.src.Name()+" in "+FuncName(fn), w.InstrPos(st), "the same function sets cTx."+d.memo.Name()+" = nil on that context", cleared,
					orDefault(map[bool]string{true: "memo cleared"}[cleared], "the memo computed from the previous "+d.src.Name()+" stays in place: later reads return values of the old "+d.src.Name()))
			})
		}
	}
}
