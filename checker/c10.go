package main

import (
	"fmt"
	"go/ast"
	"go/constant"
	"go/token"
	"sort"
	"strconv"
	"strings"

	"golang.org/x/tools/go/cfg"
	"golang.org/x/tools/go/ssa"
)

func init() { register("C10", checkC10) }

func checkC10(w *World, r *Report) {
	r.Explanation = "Structure of pattern validation: every path that reaches the tree mutators passes through the validator applied to the very pattern that is inserted/updated/removed, on its nil-error branch " +
		"(NewRoute for Handle/Update, parseRoute for Delete; HandleRoute/UpdateRoute take routes that only NewRoute can build); inside the validator's scanning loop no byte of the pattern is stepped over " +
		"without having been read on that path (a validator for a grammar without don't-care positions cannot accept exactly the grammar otherwise: this is what caught '/*xname}'); every increment of the " +
		"wildcard count is followed, before the loop continues, by the comparison with the configured maximum; the success return is reachable only when the scanner is back in its default state (no unclosed " +
		"'{' or '*{'); the parameter-name length limit is tested in both wildcard states. Equality of the accepted language with the documented grammar is not decided."
	r.NotDecided = []string{"equality of the accepted language with the grammar (hand-written state machine: needs symbolic execution or proof)", "routability round-trip of accepted patterns", "crash-freedom on arbitrary bytes (index arithmetic)"}
	r.Assumptions = []string{"Route values are only produced by NewRoute (C03.4); a zero Route built by user code is outside the contract"}
	checkC10MustValidate(w, r)
	checkC10Scanner(w, r)
	checkC10HostAlphabet(w, r)
	// "every accepted pattern is routable": the matcher compares the pattern's host bytes with the request host as it is,
	// apart from the port and one trailing dot (rule C09.2, repeated here); any other rewriting of the host (case folding)
	// makes accepted patterns unreachable
	checkC09StripAs(w, r, "C10.8")
}

func checkC10MustValidate(w *World, r *Report) {
	ru := r.Rule("C10.1", "validation on every registration and deletion path: the tree mutators are called only from the Txn entry points; Handle/Update insert the route returned by NewRoute on its nil-error branch; Delete removes the pattern it just validated with parseRoute; NewRoute stores the pattern it validated", 4)
	inner := w.FoxType("tXn")
	allowed := map[string]string{"insert": "Handle HandleRoute", "update": "Update UpdateRoute", "remove": "Delete", "truncate": "Truncate"}
	newRoute := w.Method("Router", "NewRoute")
	parse := w.Method("Router", "parseRoute")
	errNilFact := func(b *ssa.BasicBlock, call *ssa.Call) bool {
		for _, f := range factsAtBlock(b) {
			bo, ok := f.Cond.(*ssa.BinOp)
			if !ok || !isNilConst(bo.Y) {
				continue
			}
			ex, ok := bo.X.(*ssa.Extract)
			if !ok || ex.Tuple != ssa.Value(call) || !isErrorType(ex.Type()) {
				continue
			}
			if (bo.Op == token.EQL && f.Val) || (bo.Op == token.NEQ && !f.Val) {
				return true
			}
		}
		return false
	}
	for _, fn := range w.FoxFuncs() {
		if isTestHelper(w, fn) {
			continue
		}
		eachInstr(fn, func(in ssa.Instruction) {
			c, ok := in.(*ssa.Call)
			if !ok {
				return
			}
			obj := calleeObj(c)
			if obj == nil || recvNamed(obj) != inner {
				return
			}
			callers, isMut := allowed[obj.Name()]
			if !isMut {
				return
			}
			recvOK := fn.Signature.Recv() != nil && isNamed(fn.Signature.Recv().Type(), modulePath, "Txn") && strings.Contains(" "+callers+" ", " "+fn.Name()+" ")
			construct := "call of tXn." + obj.Name() + " in " + FuncName(fn)
			if !recvOK {
				ru.Fail(construct, w.Pos(c.Pos()), "mutators are called only from Txn."+strings.ReplaceAll(callers, " ", "/"), "unexpected caller")
				return
			}
			switch fn.Name() {
			case "Handle", "Update":
				arg := c.Call.Args[2]
				ex, ok := arg.(*ssa.Extract)
				okk, why := false, "the route argument is "+valStr(arg)
				if ok {
					if nc, ok := ex.Tuple.(*ssa.Call); ok && nc.Call.StaticCallee() == newRoute && ex.Index == 0 {
						patOK := nc.Call.Args[1] == ssa.Value(fn.Params[2])
						okk = errNilFact(c.Block(), nc) && patOK
						why = fmt.Sprintf("route from NewRoute(pattern,…), nilErrorBranch=%v samePattern=%v", errNilFact(c.Block(), nc), patOK)
					}
				}
				ru.Check(construct, w.Pos(c.Pos()), "inserts/updates the route NewRoute returned for this pattern, only when NewRoute succeeded", okk, why)
			case "HandleRoute", "UpdateRoute":
				arg := c.Call.Args[2]
				nonNil := false
				for _, f := range factsAtBlock(c.Block()) {
					if bo, ok := f.Cond.(*ssa.BinOp); ok && bo.X == arg && isNilConst(bo.Y) && ((bo.Op == token.EQL && !f.Val) || (bo.Op == token.NEQ && f.Val)) {
						nonNil = true
					}
				}
				ru.Check(construct, w.Pos(c.Pos()), "the caller's route (built by NewRoute) is non-nil", arg == ssa.Value(fn.Params[2]) && nonNil, fmt.Sprintf("nonNil=%v", nonNil))
			case "Delete":
				var pc *ssa.Call
				eachInstr(fn, func(x ssa.Instruction) {
					if cc, ok := x.(*ssa.Call); ok && cc.Call.StaticCallee() == parse {
						pc = cc
					}
				})
				okk := pc != nil && pc.Call.Args[1] == ssa.Value(fn.Params[2]) && c.Call.Args[2] == ssa.Value(fn.Params[2]) && errNilFact(c.Block(), pc)
				ru.Check(construct, w.Pos(c.Pos()), "removes the pattern it validated with parseRoute, on the nil-error branch", okk, fmt.Sprint(okk))
			default:
				ru.Pass(construct, w.Pos(c.Pos()), "no pattern involved", "truncate")
			}
		})
	}
	// NewRoute itself
	var pc *ssa.Call
	eachInstr(newRoute, func(x ssa.Instruction) {
		if cc, ok := x.(*ssa.Call); ok && cc.Call.StaticCallee() == parse {
			pc = cc
		}
	})
	okNR, why := false, "NewRoute does not call parseRoute"
	if pc != nil {
		why = "pattern not stored / not guarded"
		eachInstr(newRoute, func(x ssa.Instruction) {
			st, ok := x.(*ssa.Store)
			if !ok {
				return
			}
			if _, f, ok := fieldOfAddr(st.Addr); ok && f.Name() == "pattern" && isNamed(derefType(st.Addr.(*ssa.FieldAddr).X.Type()), modulePath, "Route") {
				okNR = st.Val == ssa.Value(newRoute.Params[1]) && pc.Call.Args[1] == ssa.Value(newRoute.Params[1]) && errNilFact(st.Block(), pc)
				why = fmt.Sprintf("stores the validated pattern on the nil-error branch: %v", okNR)
			}
		})
	}
	ru.Check("NewRoute", w.Pos(newRoute.Pos()), "the route carries the pattern that parseRoute accepted", okNR, why)
}

// ---- scanner rules (syntax-level CFG of parseRoute) -------------------------------------------------------------

type scanState struct {
	reached   bool
	top       bool
	offset    int
	inspected map[int]bool
}

func (s scanState) clone() scanState {
	n := scanState{reached: s.reached, top: s.top, offset: s.offset, inspected: map[int]bool{}}
	for k := range s.inspected {
		n.inspected[k] = true
	}
	return n
}

func meetScan(a, b scanState) scanState {
	if !a.reached {
		return b.clone()
	}
	if !b.reached {
		return a.clone()
	}
	if a.top || b.top || a.offset != b.offset {
		return scanState{reached: true, top: true, inspected: map[int]bool{}}
	}
	out := scanState{reached: true, offset: a.offset, inspected: map[int]bool{}}
	for k := range a.inspected {
		if b.inspected[k] {
			out.inspected[k] = true
		}
	}
	return out
}

func equalScan(a, b scanState) bool {
	if a.reached != b.reached || a.top != b.top || a.offset != b.offset || len(a.inspected) != len(b.inspected) {
		return false
	}
	for k := range a.inspected {
		if !b.inspected[k] {
			return false
		}
	}
	return true
}

func checkC10Scanner(w *World, r *Report) {
	af := w.astFuncOf(modulePath, "Router.parseRoute")
	// locate the scanning loop: for i < len(url)
	var loop *ast.ForStmt
	ast.Inspect(af.decl.Body, func(n ast.Node) bool {
		if fs, ok := n.(*ast.ForStmt); ok && loop == nil && fs.Cond != nil {
			if x, y, ok := isCmp(fs.Cond, token.LSS); ok && strings.HasPrefix(y, "len(") {
				loop = fs
				_ = x
			}
		}
		return true
	})
	if loop == nil {
		anchorFail("the scanning loop of parseRoute")
	}
	iv, _, _ := isCmp(loop.Cond, token.LSS)
	sv := strings.TrimSuffix(strings.TrimPrefix(exprStr(loop.Cond.(*ast.BinaryExpr).Y), "len("), ")")

	// index expressions s[i+k] read inside node n, as offsets relative to i
	readsOf := func(n ast.Node) []int {
		var out []int
		ast.Inspect(n, func(m ast.Node) bool {
			ie, ok := m.(*ast.IndexExpr)
			if !ok || exprStr(ie.X) != sv {
				return true
			}
			idx := exprStr(ie.Index)
			switch {
			case idx == iv:
				out = append(out, 0)
			case strings.HasPrefix(idx, iv+"+"):
				var k int
				if _, err := fmt.Sscan(idx[len(iv)+1:], &k); err == nil {
					out = append(out, k)
				}
			case strings.HasPrefix(idx, iv+"-"):
				var k int
				if _, err := fmt.Sscan(idx[len(iv)+1:], &k); err == nil {
					out = append(out, -k)
				}
			}
			return true
		})
		return out
	}
	var loopHead *cfg.Block
	for _, b := range af.g.Blocks {
		if b.Live && b.Kind == cfg.KindForLoop && b.Stmt == ast.Stmt(loop) {
			loopHead = b
		}
	}
	if loopHead == nil {
		anchorFail("loop head block of parseRoute")
	}
	inBody := func(n ast.Node) bool { return n.Pos() >= loop.Body.Pos() && n.End() <= loop.Body.End() }

	ru := r.Rule("C10.2", "no byte of the pattern is consumed uninspected: within one iteration of the validator's scanning loop, every advance of the cursor steps only over bytes that were read (url[i+k] in a condition or assignment) on that path", 2)
	type finding struct {
		pos token.Pos
		ok  bool
		why string
	}
	var advances []finding
	transfer := func(n ast.Node, s scanState, rec bool) scanState {
		if s.top || !inBody(n) {
			return s
		}
		step := 0
		switch x := n.(type) {
		case *ast.IncDecStmt:
			if exprStr(x.X) == iv && x.Tok == token.INC {
				step = 1
			}
		case *ast.AssignStmt:
			if len(x.Lhs) == 1 && exprStr(x.Lhs[0]) == iv {
				if x.Tok == token.ADD_ASSIGN {
					fmt.Sscan(exprStr(x.Rhs[0]), &step)
				} else {
					s.top = true
					return s
				}
			}
		}
		for _, k := range readsOf(n) {
			s.inspected[s.offset+k] = true
		}
		if step > 0 {
			okAll := true
			var missing []string
			for d := 0; d < step; d++ {
				if !s.inspected[s.offset+d] {
					okAll = false
					missing = append(missing, fmt.Sprintf("%s[%s%+d]", sv, iv, s.offset+d))
				}
			}
			if rec {
				advances = append(advances, finding{n.Pos(), okAll, strings.Join(missing, ", ")})
			}
			s.offset += step
		}
		return s
	}
	// path-set dataflow: the states reaching a block are kept apart (the loop body is acyclic once every iteration
	// restarts at the loop head), so a branch that advanced the cursor is not blurred with one that did not
	key := func(s scanState) string {
		ks := make([]int, 0, len(s.inspected))
		for k := range s.inspected {
			ks = append(ks, k)
		}
		sort.Ints(ks)
		return fmt.Sprint(s.top, s.offset, ks)
	}
	in := map[*cfg.Block]map[string]scanState{}
	add := func(b *cfg.Block, s scanState) bool {
		if in[b] == nil {
			in[b] = map[string]scanState{}
		}
		k := key(s)
		if _, ok := in[b][k]; ok {
			return false
		}
		in[b][k] = s
		return true
	}
	work := []*cfg.Block{loopHead}
	add(loopHead, scanState{reached: true, inspected: map[int]bool{}})
	for len(work) > 0 && len(work) < 100000 {
		b := work[0]
		work = work[1:]
		for _, s0 := range in[b] {
			o := s0.clone()
			for _, n := range b.Nodes {
				o = transfer(n, o, false)
			}
			for _, sc := range b.Succs {
				if !sc.Live || sc == loopHead {
					continue // the next iteration starts afresh
				}
				if add(sc, o.clone()) {
					work = append(work, sc)
				}
			}
		}
	}
	seenAdv := map[token.Pos]*finding{}
	for _, b := range af.g.Blocks {
		if !b.Live {
			continue
		}
		for _, s0 := range in[b] {
			s := s0.clone()
			before := len(advances)
			for _, n := range b.Nodes {
				s = transfer(n, s, true)
			}
			// merge findings of the same advance over all states: it fails if it fails in any state
			for _, f := range advances[before:] {
				f := f
				if old, ok := seenAdv[f.pos]; ok {
					if !f.ok {
						old.ok, old.why = false, f.why
					}
				} else {
					seenAdv[f.pos] = &f
				}
			}
			advances = advances[:before]
		}
	}
	for _, f := range seenAdv {
		advances = append(advances, *f)
	}
	sort.Slice(advances, func(i, j int) bool { return advances[i].pos < advances[j].pos })
	for _, a := range advances {
		why := "every byte stepped over was read first"
		if !a.ok {
			why = "skips " + a.why + " without looking at it"
		}
		ru.Check("cursor advance in parseRoute", w.Pos(a.pos), "the bytes stepped over were read on this path", a.ok, why)
	}
	if len(advances) < 3 {
		r.Unrecognised("C10.2: only %d cursor advances found in the scanning loop", len(advances))
	}

	// ---- C10.3: count check after each increment of the wildcard counter
	ru3 := r.Rule("C10.3", "limits are enforced: after every increment of the wildcard counter the loop does not continue (or return success) without comparing the counter with the configured maximum; the parameter-name length is compared with the configured maximum in both wildcard states", 2)
	isMaxCheck := func(e ast.Expr) bool {
		s := exprStr(e)
		return strings.Contains(s, "paramCnt") && strings.Contains(s, "maxParams")
	}
	var incs []ast.Node
	for _, b := range af.g.Blocks {
		if !b.Live {
			continue
		}
		for _, n := range b.Nodes {
			if x, ok := n.(*ast.IncDecStmt); ok && exprStr(x.X) == "paramCnt" {
				incs = append(incs, n)
			}
		}
	}
	for _, inc := range incs {
		b, idx := af.blockOf(inc)
		// search forward: reach the loop head or a return without passing a block whose nodes contain the check
		bad := ""
		seen := map[*cfg.Block]bool{}
		var dfs func(x *cfg.Block, from int)
		dfs = func(x *cfg.Block, from int) {
			if bad != "" {
				return
			}
			for _, n := range x.Nodes[from:] {
				if e, ok := n.(ast.Expr); ok && isMaxCheck(e) {
					return
				}
				if ret, ok := n.(*ast.ReturnStmt); ok {
					// error returns are fine
					if len(ret.Results) == 3 && exprStr(ret.Results[2]) == "nil" {
						bad = "the success return is reached without the comparison"
					}
					return
				}
			}
			for _, s := range x.Succs {
				if s == loopHead {
					bad = "the loop continues without comparing the counter with the maximum"
					return
				}
				if !seen[s] && s.Live {
					seen[s] = true
					dfs(s, 0)
				}
			}
		}
		dfs(b, idx+1)
		ru3.Check("increment of the wildcard counter", w.Pos(inc.Pos()), "followed on every path by `paramCnt > maxParams` before the next byte is scanned", bad == "", orDefault(bad, "checked"))
	}
	if len(incs) < 2 {
		ru3.Fail("increments of the wildcard counter", w.Pos(loop.Pos()), "one per wildcard kind", fmt.Sprintf("%d", len(incs)))
	}
	nKey := 0
	ast.Inspect(loop.Body, func(n ast.Node) bool {
		if be, ok := n.(*ast.BinaryExpr); ok && be.Op == token.GTR && strings.Contains(exprStr(be.Y), "maxParamKeyBytes") && strings.Contains(exprStr(be.X), "startParam") {
			nKey++
		}
		return true
	})
	ru3.Check("parameter name length", w.Pos(loop.Pos()), "compared with maxParamKeyBytes in the {param} and the *{param} state", nKey >= 2, fmt.Sprintf("%d comparison(s)", nKey))

	// ---- C10.5: the recorded start of a wildcard name is the position of its '{' (the length limit counts from there)
	ru5 := r.Rule("C10.5", "the name of a wildcard starts at its '{': wherever the validator records the start position used for the name-length limit, the byte at the cursor is known to be '{' on that path (the {param} branch tests it, the *{param} branch has rejected anything else and stepped over the '*')", 2)
	nStart := 0
	// a local `c := url[i]` taken as the first statement of the scanning loop's body names the byte at the loop-head cursor
	cursorAlias := map[string]bool{}
	ast.Inspect(af.decl.Body, func(n ast.Node) bool {
		if fs, ok := n.(*ast.ForStmt); ok && len(fs.Body.List) > 0 {
			if as, ok := fs.Body.List[0].(*ast.AssignStmt); ok && as.Tok == token.DEFINE && len(as.Lhs) == 1 && len(as.Rhs) == 1 && exprStr(as.Rhs[0]) == sv+"["+iv+"]" {
				name := exprStr(as.Lhs[0])
				cnt := 0
				ast.Inspect(af.decl.Body, func(m ast.Node) bool {
					if a2, ok := m.(*ast.AssignStmt); ok {
						for _, l := range a2.Lhs {
							if exprStr(l) == name {
								cnt++
							}
						}
					}
					return true
				})
				if cnt == 1 {
					cursorAlias[name] = true
				}
			}
		}
		return true
	})
	for _, b := range af.g.Blocks {
		if !b.Live {
			continue
		}
		for _, s0 := range in[b] {
			s := s0.clone()
			brace := map[int]bool{}
			// facts on the way to this block: url[i+k] == '{' (true) / url[i+k] != '{' (false)
			for _, f := range af.factsAt(b) {
				// the failed guard `i+k < len(url) && url[i+k] != '{'`: either the input ends or url[i+k] is '{'
				if land, ok := f.e.(*ast.BinaryExpr); ok && land.Op == token.LAND && !f.val {
					if x, y, ok := isCmp(land.X, token.LSS); ok && y == "len("+sv+")" && strings.HasPrefix(x, iv+"+") {
						if ne, ok := land.Y.(*ast.BinaryExpr); ok && ne.Op == token.NEQ && (exprStr(ne.Y) == "'{'" || exprStr(ne.Y) == "bracketDelim") && exprStr(ne.X) == sv+"["+x+"]" {
							var k int
							if _, err := fmt.Sscan(x[len(iv)+1:], &k); err == nil {
								brace[k] = true
							}
						}
					}
				}
				for _, ff := range splitFact(f) {
					be, ok := ff.e.(*ast.BinaryExpr)
					if !ok || (exprStr(be.Y) != "'{'" && exprStr(be.Y) != "bracketDelim") {
						continue
					}
					if id, isId := be.X.(*ast.Ident); isId && cursorAlias[id.Name] && ((be.Op == token.EQL && ff.val) || (be.Op == token.NEQ && !ff.val)) {
						brace[0] = true
						continue
					}
					ie, ok := be.X.(*ast.IndexExpr)
					if !ok || exprStr(ie.X) != sv {
						continue
					}
					k, okk := 0, false
					idx := exprStr(ie.Index)
					if idx == iv {
						k, okk = 0, true
					} else if strings.HasPrefix(idx, iv+"+") {
						if _, err := fmt.Sscan(idx[len(iv)+1:], &k); err == nil {
							okk = true
						}
					}
					if okk && ((be.Op == token.EQL && ff.val) || (be.Op == token.NEQ && !ff.val)) {
						brace[k] = true // relative to the cursor at the loop head
					}
				}
			}
			for _, n := range b.Nodes {
				if as, ok := n.(*ast.AssignStmt); ok && len(as.Lhs) == 1 && exprStr(as.Lhs[0]) == "startParam" && exprStr(as.Rhs[0]) == iv && inBody(n) {
					nStart++
					okk := !s.top && brace[s.offset]
					// the *{ branch: `i+1 < len && url[i+1] != '{'` returned an error, so url[i+1] == '{' holds only when i+1 < len;
					// at the end of input the pattern is rejected later (unclosed), which is fine.
					ru5.Check("startParam = "+iv, w.Pos(as.Pos()), "the cursor is on the '{' of the wildcard", okk, fmt.Sprintf("cursor offset %+d, '{' known at offsets %v", s.offset, sortedInts(brace)))
				}
				s = transfer(n, s, false)
			}
		}
	}
	if nStart < 2 {
		r.Unrecognised("C10.5: only %d assignments of startParam found", nStart)
	}

	// ---- C10.6: the "name is non-empty" flag is cleared for every wildcard
	ru6 := r.Rule("C10.6", "the non-empty-name flag is reset for every wildcard: either every return to the default state (at '}') clears inParam, or every entry into a wildcard state does; otherwise an earlier name makes `{}` / `*{}` pass", 2)
	var closes, opens []ast.Node
	closeOK, openOK := 0, 0
	type at struct {
		b *cfg.Block
		i int
	}
	var resets []at
	for _, b := range af.g.Blocks {
		if !b.Live {
			continue
		}
		for i, n := range b.Nodes {
			if as, ok := n.(*ast.AssignStmt); ok && len(as.Lhs) == 1 && exprStr(as.Lhs[0]) == "inParam" && exprStr(as.Rhs[0]) == "false" && inBody(n) {
				resets = append(resets, at{b, i})
			}
		}
	}
	dominated := func(b *cfg.Block, i int) bool {
		for _, rs := range resets {
			if (rs.b == b && rs.i < i) || (rs.b != b && af.dominates(rs.b, b)) {
				return true
			}
		}
		return false
	}
	for _, b := range af.g.Blocks {
		if !b.Live {
			continue
		}
		for i, n := range b.Nodes {
			as, ok := n.(*ast.AssignStmt)
			if !ok || len(as.Lhs) != 1 || exprStr(as.Lhs[0]) != "state" || !inBody(n) {
				continue
			}
			switch exprStr(as.Rhs[0]) {
			case "stateDefault":
				closes = append(closes, n)
				if dominated(b, i) {
					closeOK++
				}
			case "stateParam", "stateCatchAll":
				opens = append(opens, n)
				if dominated(b, i) {
					openOK++
				}
			}
		}
	}
	okFlag := (len(closes) > 0 && closeOK == len(closes)) || (len(opens) > 0 && openOK == len(opens))
	ru6.Check("inParam reset", w.Pos(loop.Pos()), "cleared at every '}' or at every wildcard opening", okFlag, fmt.Sprintf("%d/%d closings and %d/%d openings clear it", closeOK, len(closes), openOK, len(opens)))
	// and the emptiness test exists in both states
	nEmpty := 0
	ast.Inspect(loop.Body, func(n ast.Node) bool {
		if ifs, ok := n.(*ast.IfStmt); ok && exprStr(ifs.Cond) == "!inParam" {
			nEmpty++
		}
		return true
	})
	ru6.Check("empty name test", w.Pos(loop.Pos()), "`!inParam` is tested when a '}' is met in both wildcard states", nEmpty >= 2, fmt.Sprintf("%d test(s)", nEmpty))

	// ---- C10.4: success only in the default state
	ru4 := r.Rule("C10.4", "the success return is reachable only when the scanner is back in its default state: it is dominated by the failure of `state == stateParam` and `state == stateCatchAll` (an unclosed '{' or '*{' is an error)", 1)
	n := 0
	ast.Inspect(af.decl.Body, func(m ast.Node) bool {
		ret, ok := m.(*ast.ReturnStmt)
		if !ok || len(ret.Results) != 3 || exprStr(ret.Results[2]) != "nil" {
			return true
		}
		n++
		b, _ := af.blockOf(ret)
		notParam, notCatch := false, false
		if b != nil {
			for _, f := range af.factsAt(b) {
				if x, y, ok := isCmp(f.e, token.EQL); ok && !f.val && x == "state" {
					if y == "stateParam" {
						notParam = true
					}
					if y == "stateCatchAll" {
						notCatch = true
					}
				}
				if x, y, ok := isCmp(f.e, token.EQL); ok && f.val && x == "state" && y == "stateDefault" {
					notParam, notCatch = true, true
				}
			}
		}
		ru4.Check("success return of parseRoute", w.Pos(ret.Pos()), "state is neither stateParam nor stateCatchAll", notParam && notCatch, fmt.Sprintf("notInParam=%v notInCatchAll=%v", notParam, notCatch))
		return true
	})
	if n != 1 {
		ru4.Fail("success return of parseRoute", w.Pos(af.decl.Pos()), "exactly one success return", fmt.Sprintf("%d", n))
	}
	_ = ssa.Value(nil)
}

func sortedInts(m map[int]bool) []int {
	var out []int
	for k := range m {
		out = append(out, k)
	}
	sort.Ints(out)
	return out
}

// checkC10HostAlphabet: the static bytes of a hostname are classified by a tagless switch over one byte. The switch only
// compares that byte with constants, so it can be evaluated for all 256 values: the bytes that do not end in the
// rejecting clause are the accepted alphabet, which the documented grammar (LDH hostnames) fixes to letters, digits, '-'
// and the label separator '.'.
func checkC10HostAlphabet(w *World, r *Report) {
	ru := r.Rule("C10.7", "hostname alphabet: evaluating the byte classification of the validator's hostname branch for all 256 byte values, the bytes that are not rejected outright are exactly the letters, the digits, '-' and '.' (LDH rule)", 1)
	af := w.astFuncOf(modulePath, "Router.parseRoute")
	info := af.pkg.TypesInfo
	var sw *ast.SwitchStmt
	byteVar := ""
	ast.Inspect(af.decl.Body, func(n ast.Node) bool {
		s, ok := n.(*ast.SwitchStmt)
		if !ok || s.Tag != nil || s.Init != nil {
			return true
		}
		// every case expression mentions the same single identifier, of type byte
		names := map[string]int{}
		ncase := 0
		for _, cl := range s.Body.List {
			for _, e := range cl.(*ast.CaseClause).List {
				ncase++
				seen := map[string]bool{}
				ast.Inspect(e, func(m ast.Node) bool {
					if id, ok := m.(*ast.Ident); ok {
						if tv, ok := info.Types[id]; ok && tv.Value == nil && tv.Type != nil && (tv.Type.String() == "uint8" || tv.Type.String() == "byte") {
							seen[id.Name] = true
						}
					}
					return true
				})
				for k := range seen {
					names[k]++
				}
			}
		}
		for k, c := range names {
			if c == ncase && ncase >= 3 {
				// must be the hostname branch: mentions '.' and '-'
				txt := ""
				for _, cl := range s.Body.List {
					for _, e := range cl.(*ast.CaseClause).List {
						txt += exprStr(e) + ";"
					}
				}
				if strings.Contains(txt, "'-'") && (strings.Contains(txt, "'.'") || strings.Contains(txt, "dotDelim")) {
					sw, byteVar = s, k
				}
			}
		}
		return true
	})
	if sw == nil {
		r.Unrecognised("C10.7: the byte classification of the hostname branch was not found in parseRoute")
		return
	}
	var num func(e ast.Expr, b int64) (int64, bool)
	num = func(e ast.Expr, b int64) (int64, bool) {
		if p, ok := e.(*ast.ParenExpr); ok {
			return num(p.X, b)
		}
		if id, ok := e.(*ast.Ident); ok && id.Name == byteVar {
			return b, true
		}
		if tv, ok := info.Types[e]; ok && tv.Value != nil {
			if v, ok := constantToInt64(tv.Value); ok {
				return v, true
			}
		}
		return 0, false
	}
	var eval func(e ast.Expr, b int64) (bool, bool)
	eval = func(e ast.Expr, b int64) (bool, bool) {
		switch x := e.(type) {
		case *ast.ParenExpr:
			return eval(x.X, b)
		case *ast.UnaryExpr:
			if x.Op == token.NOT {
				v, k := eval(x.X, b)
				return !v, k
			}
		case *ast.BinaryExpr:
			switch x.Op {
			case token.LAND:
				l, lk := eval(x.X, b)
				rr, rk := eval(x.Y, b)
				return l && rr, lk && rk
			case token.LOR:
				l, lk := eval(x.X, b)
				rr, rk := eval(x.Y, b)
				return l || rr, lk && rk
			case token.LSS, token.LEQ, token.GTR, token.GEQ, token.EQL, token.NEQ:
				l, lk := num(x.X, b)
				rr, rk := num(x.Y, b)
				if !lk || !rk {
					return false, false
				}
				switch x.Op {
				case token.LSS:
					return l < rr, true
				case token.LEQ:
					return l <= rr, true
				case token.GTR:
					return l > rr, true
				case token.GEQ:
					return l >= rr, true
				case token.EQL:
					return l == rr, true
				default:
					return l != rr, true
				}
			}
		}
		return false, false
	}
	rejects := func(cl *ast.CaseClause) bool { // the clause does nothing but return an error
		if len(cl.Body) == 0 {
			return false
		}
		ret, ok := cl.Body[0].(*ast.ReturnStmt)
		return ok && len(ret.Results) > 0 && !isNilIdent(info, ret.Results[len(ret.Results)-1])
	}
	var extra, missing []string
	for b := int64(0); b < 256; b++ {
		var chosen *ast.CaseClause
		var def *ast.CaseClause
		unknown := false
		for _, st := range sw.Body.List {
			cl := st.(*ast.CaseClause)
			if cl.List == nil {
				def = cl
				continue
			}
			if chosen != nil {
				continue
			}
			for _, e := range cl.List {
				v, k := eval(e, b)
				if !k {
					unknown = true
				}
				if v && k {
					chosen = cl
				}
			}
		}
		if unknown {
			r.Unrecognised("C10.7: a case of the hostname byte classification at %s is not a comparison of the byte with constants", w.Pos(sw.Pos()))
			return
		}
		if chosen == nil {
			chosen = def
		}
		accepted := chosen != nil && !rejects(chosen)
		want := (b >= 'a' && b <= 'z') || (b >= 'A' && b <= 'Z') || (b >= '0' && b <= '9') || b == '-' || b == '.'
		if accepted && !want {
			extra = append(extra, strconv.QuoteRune(rune(b)))
		}
		if !accepted && want {
			missing = append(missing, strconv.QuoteRune(rune(b)))
		}
	}
	why := ""
	if len(extra) > 0 {
		why += "accepted although not LDH: " + strings.Join(extra, " ") + " "
	}
	if len(missing) > 0 {
		why += "rejected although LDH: " + strings.Join(missing, " ")
	}
	ru.Check("hostname byte classification in parseRoute", w.Pos(sw.Pos()), "accepted static bytes = [A-Za-z0-9-.]", why == "", orDefault(strings.TrimSpace(why), "64 bytes accepted, 192 rejected"))
}

func constantToInt64(v interface{ String() string }) (int64, bool) {
	if cv, ok := v.(constant.Value); ok {
		if cv.Kind() == constant.Int {
			return constant.Int64Val(cv)
		}
	}
	return 0, false
}
