package main

import (
	"bufio"
	"bytes"
	"fmt"
	"go/ast"
	"go/token"
	"go/types"
	"os"
	"os/exec"
	"path/filepath"
	"regexp"
	"sort"
	"strconv"
	"strings"

	"golang.org/x/tools/go/ssa"
)

func init() { register("C16", checkC16) }

// hotRegion computes the code that runs when a request is routed to a matching route: the blocks of ServeHTTP from
// which a route-chain call is still reachable, and every module function reachable from them through static calls.
type hotRegion struct {
	serve     *ssa.Function
	hotBlocks map[*ssa.BasicBlock]bool
	funcs     map[*ssa.Function]bool // whole functions
}

func computeHotRegion(w *World, d *dispatchInfo) *hotRegion {
	h := &hotRegion{serve: d.fn, hotBlocks: map[*ssa.BasicBlock]bool{}, funcs: map[*ssa.Function]bool{}}
	for _, b := range d.fn.Blocks {
		reach := blockReach(b, true)
		for _, c := range d.routeCalls {
			if reach[c.Block()] {
				h.hotBlocks[b] = true
			}
		}
	}
	var visit func(fn *ssa.Function)
	visit = func(fn *ssa.Function) {
		if h.funcs[fn] || !w.InModule(fn) || fn.Blocks == nil {
			return
		}
		h.funcs[fn] = true
		eachInstr(fn, func(in ssa.Instruction) {
			if site, ok := in.(ssa.CallInstruction); ok {
				if c := site.Common().StaticCallee(); c != nil {
					visit(c)
				}
			}
		})
	}
	for b := range h.hotBlocks {
		for _, in := range b.Instrs {
			if site, ok := in.(ssa.CallInstruction); ok {
				if c := site.Common().StaticCallee(); c != nil {
					visit(c)
				}
			}
		}
	}
	return h
}

type escDiag struct {
	file string
	line int
	msg  string
}

var reDiag = regexp.MustCompile(`^(\S+\.go):(\d+):(\d+): (.*)$`)

// compilerEscapes runs the repository's own compiler (`go` resolves to the toolchain pinned in go.mod) with -m on the
// given packages and returns the heap-allocation diagnostics. Nothing is executed: these are compile-time facts.
func compilerEscapes(repo string, pkgs ...string) ([]escDiag, string, error) {
	goBin := "/usr/bin/go"
	if _, err := os.Stat(goBin); err != nil {
		goBin = "go"
	}
	var env []string
	for _, e := range os.Environ() {
		if strings.HasPrefix(e, "GOTOOLCHAIN=") || strings.HasPrefix(e, "GOSUMDB=") || strings.HasPrefix(e, "GOFLAGS=") || strings.HasPrefix(e, "PATH=") {
			continue
		}
		env = append(env, e)
	}
	path := os.Getenv("PATH")
	path = strings.TrimPrefix(path, "/opt/veriftools/go1.26.8/bin:")
	env = append(env, "PATH="+path, "GOFLAGS=-mod=mod", "GOPROXY=off", "GOWORK=off")
	ver, _ := exec.Command(goBin, "version").Output()
	args := append([]string{"build", "-gcflags=-m"}, pkgs...)
	cmd := exec.Command(goBin, args...)
	cmd.Dir = repo
	cmd.Env = env
	var out bytes.Buffer
	cmd.Stdout, cmd.Stderr = &out, &out
	err := cmd.Run()
	var diags []escDiag
	sc := bufio.NewScanner(&out)
	sc.Buffer(make([]byte, 1<<20), 1<<22)
	for sc.Scan() {
		m := reDiag.FindStringSubmatch(sc.Text())
		if m == nil {
			continue
		}
		if !(strings.Contains(m[4], "escapes to heap") || strings.Contains(m[4], "moved to heap")) {
			continue
		}
		ln, _ := strconv.Atoi(m[2])
		diags = append(diags, escDiag{filepath.Clean(m[1]), ln, m[4]})
	}
	tool := strings.TrimSpace(string(ver))
	// the toolchain actually used for the build
	tv := exec.Command(goBin, "env", "GOVERSION")
	tv.Dir, tv.Env = repo, env
	if o, e := tv.Output(); e == nil {
		tool = strings.TrimSpace(string(o))
	}
	if err != nil && len(diags) == 0 {
		return nil, tool, fmt.Errorf("go build -gcflags=-m failed: %v: %s", err, firstLine(out.String()))
	}
	return diags, tool, nil
}

func checkC16(w *World, r *Report) {
	r.Explanation = "Allocation sites, not counts: the hot region (the blocks of ServeHTTP from which a route chain can still be called, plus every module function they reach: context and recorder reset, tree and " +
		"root lookup, host normalisation, both matchers and their helpers) is checked against the heap-allocation diagnostics of the repository's own compiler (go build -gcflags=-m: 'escapes to heap' / 'moved to " +
		"heap'); only boxed string constants (panic messages) and the inlined slices.Grow of copyWithResize are accepted there. An SSA scan of the same region rejects allocating constructs the escape analysis does " +
		"not report as such (defer inside a loop, go statements, maps/channels, closures with captures, non-constant string concatenation and string/[]byte conversions, calls of allocating helpers), and every " +
		"append must extend one of the context's pooled buffers in place and store the result back (so a buffer grown once stays grown). Buffers are sized from the tree: every successful insert records the " +
		"route's parameter count and depth, commit carries them over, allocateContext sizes params and tsrParams alike."
	r.NotDecided = []string{"the number of allocations for a given route set and request (capacity versus actual pushes)", "sync.Pool behaviour under GC", "allocations inside the standard library functions called (net.SplitHostPort, strings.IndexByte ...)"}
	r.Assumptions = []string{"the compiler's escape analysis diagnostics are complete for 'escapes to heap'/'moved to heap'", "handler and ResponseWriter supplied by the user do not allocate (property's precondition)"}
	d := analyseDispatch(w)
	hot := computeHotRegion(w, d)
	var names []string
	for fn := range hot.funcs {
		names = append(names, FuncName(fn))
	}
	sort.Strings(names)
	r.Analysed(names...)
	r.Analysed(FuncName(hot.serve) + " (hot blocks)")
	r.Extra["hot_region_functions"] = names

	checkC16Escapes(w, r, hot)
	checkC16Constructs(w, r, hot)
	checkC16Provisioning(w, r)
	checkContextOwnerAs(w, r, newProto(w), "C16.4")
}

// funcLineRanges maps source lines to the hot region.
func (h *hotRegion) hotLines(w *World) map[string]map[int]string {
	out := map[string]map[int]string{}
	add := func(file string, line int, who string) {
		if out[file] == nil {
			out[file] = map[int]string{}
		}
		out[file][line] = who
	}
	for fn := range h.funcs {
		decl := w.Decl(fn)
		if decl == nil {
			continue
		}
		s, e := w.Fset.Position(decl.Pos()), w.Fset.Position(decl.End())
		rel, _ := filepath.Rel(w.RepoDir, s.Filename)
		for l := s.Line; l <= e.Line; l++ {
			add(rel, l, FuncName(fn))
		}
	}
	for b := range h.hotBlocks {
		for _, in := range b.Instrs {
			if in.Pos().IsValid() {
				p := w.Fset.Position(in.Pos())
				rel, _ := filepath.Rel(w.RepoDir, p.Filename)
				add(rel, p.Line, FuncName(h.serve))
			}
		}
	}
	return out
}

func checkC16Escapes(w *World, r *Report, hot *hotRegion) {
	ru := r.Rule("C16.1", "the compiler reports no heap allocation in the hot region: every 'escapes to heap' / 'moved to heap' diagnostic of `go build -gcflags=-m` whose position lies in the hot region is a boxed string constant (static data) or the slices.Grow inlined from a copyWithResize call (grows only when the trailing-slash buffer is shorter than the parameter buffer, which allocateContext rules out)", 1)
	diags, tool, err := compilerEscapes(w.RepoDir, ".", "./internal/netutil")
	if err != nil {
		anchorFail("compiler oracle unavailable: %v", err)
	}
	r.Extra["compiler"] = tool
	lines := hot.hotLines(w)
	// call sites of copyWithResize (by syntax, so the exemption follows the code instead of line numbers)
	growSites := map[string]map[int]bool{}
	for _, f := range w.Fox.Syntax {
		ast.Inspect(f, func(n ast.Node) bool {
			if c, ok := n.(*ast.CallExpr); ok {
				if id, ok := c.Fun.(*ast.Ident); ok && id.Name == "copyWithResize" {
					p := w.Fset.Position(c.Pos())
					rel, _ := filepath.Rel(w.RepoDir, p.Filename)
					if growSites[rel] == nil {
						growSites[rel] = map[int]bool{}
					}
					growSites[rel][p.Line] = true
				}
			}
			return true
		})
	}
	nhot := 0
	for _, dg := range diags {
		who, isHot := lines[dg.file][dg.line]
		if !isHot {
			// netutil diagnostics carry package-relative paths
			who, isHot = lines[filepath.Join("internal/netutil", dg.file)][dg.line]
			if isHot {
				dg.file = filepath.Join("internal/netutil", dg.file)
			}
		}
		if !isHot {
			continue
		}
		nhot++
		pos := fmt.Sprintf("%s:%d", dg.file, dg.line)
		switch {
		case strings.HasPrefix(dg.msg, `"`):
			ru.Pass("diagnostic in "+who, pos, "boxed string constant (no allocation)", dg.msg)
		case (growSites[dg.file][dg.line] || strings.HasPrefix(who, "copyWithResize")) && strings.HasPrefix(dg.msg, "make("):
			ru.Pass("diagnostic in "+who, pos, "slices.Grow inlined from copyWithResize (never grows in steady state, C16.3)", dg.msg)
		default:
			ru.Fail("diagnostic in "+who, pos, "no heap allocation in the hot region", "compiler: "+dg.msg)
		}
	}
	ru.Check("compiler diagnostics read", "-", "the compiler produced diagnostics for the package (oracle alive)", len(diags) > 20, fmt.Sprintf("%d allocation diagnostics in the build, %d in the hot region, toolchain %s", len(diags), nhot, tool))
}

var allocatingStd = map[string]map[string]bool{
	"fmt":     {"Sprintf": true, "Sprint": true, "Sprintln": true, "Errorf": true, "Fprintf": true, "Fprint": true, "Fprintln": true, "Printf": true, "Println": true},
	"strings": {"Split": true, "SplitN": true, "Join": true, "Repeat": true, "Fields": true, "ToLower": true, "ToUpper": true, "Replace": true, "ReplaceAll": true, "Title": true, "Map": true, "NewReplacer": true, "NewReader": true},
	"strconv": {"Itoa": true, "Quote": true, "FormatInt": true, "FormatUint": true, "FormatFloat": true},
	"errors":  {"New": true, "Join": true},
	"bytes":   {"Split": true, "Join": true, "NewBuffer": true, "NewBufferString": true, "NewReader": true},
	"slices":  {"Clone": true, "Collect": true, "Sorted": true, "AppendSeq": true},
	"maps":    {"Clone": true, "Keys": true, "Values": true},
	"net/url": {"Parse": true, "ParseQuery": true},
	// the parsers of package net build a *net.AddrError / *net.ParseError for every input they reject: a request Host such
	// as "[::1]" (no port) costs one allocation per request
	"net": {"SplitHostPort": true, "ParseCIDR": true, "ResolveTCPAddr": true, "LookupHost": true},
	"net/http": {"Error": true, "CanonicalHeaderKey": true},
	"log":     {"Printf": true, "Println": true, "Print": true},
	"regexp":  {"MustCompile": true, "Compile": true},
	"context": {"WithValue": true, "WithCancel": true, "WithTimeout": true},
	"time":    {"Now": false},
}

func checkC16Constructs(w *World, r *Report, hot *hotRegion) {
	ru := r.Rule("C16.2", "no allocating construct in the hot region that the escape diagnostics do not name: no defer inside a loop, no go statement, map/channel creation, closure with captured variables, non-constant string concatenation, string/[]byte conversion, boxing of non-pointer values, or call of an allocating standard helper; every append extends a pooled buffer of the context in place and its result is stored back into that buffer", 5)
	so := newSliceOwn(w, func(*ssa.Function) bool { return true })
	type unit struct {
		fn     *ssa.Function
		blocks []*ssa.BasicBlock
	}
	var units []unit
	var fns []*ssa.Function
	for fn := range hot.funcs {
		fns = append(fns, fn)
	}
	sort.Slice(fns, func(i, j int) bool { return fns[i].Pos() < fns[j].Pos() })
	for _, fn := range fns {
		units = append(units, unit{fn, fn.Blocks})
	}
	var hb []*ssa.BasicBlock
	for _, b := range hot.serve.Blocks {
		if hot.hotBlocks[b] {
			hb = append(hb, b)
		}
	}
	units = append(units, unit{hot.serve, hb})
	nfind := 0
	for _, u := range units {
		var problems []string
		cold := func(b *ssa.BasicBlock) bool {
			// blocks ending in panic are not part of serving a request
			if len(b.Instrs) > 0 {
				if _, ok := b.Instrs[len(b.Instrs)-1].(*ssa.Panic); ok {
					return true
				}
			}
			return false
		}
		for _, b := range u.blocks {
			if cold(b) {
				continue
			}
			inLoop := blockReach(b, false)[b]
			for _, in := range b.Instrs {
				at := " at " + w.InstrPos(in)
				switch x := in.(type) {
				case *ssa.Defer:
					if inLoop {
						problems = append(problems, "defer inside a loop (its record is heap allocated)"+at)
					}
				case *ssa.Go:
					problems = append(problems, "go statement"+at)
				case *ssa.MakeMap:
					problems = append(problems, "map creation"+at)
				case *ssa.MakeChan:
					problems = append(problems, "channel creation"+at)
				case *ssa.MakeClosure:
					if len(x.Bindings) > 0 {
						problems = append(problems, "closure capturing variables"+at)
					}
				case *ssa.MakeSlice:
					problems = append(problems, "make([]T) "+at)
				case *ssa.BinOp:
					if x.Op == token.ADD && isStringT(x.Type()) {
						_, c1 := x.X.(*ssa.Const)
						_, c2 := x.Y.(*ssa.Const)
						if !(c1 && c2) {
							problems = append(problems, "string concatenation"+at)
						}
					}
				case *ssa.Convert:
					from, to := x.X.Type().Underlying(), x.Type().Underlying()
					if (isStringT(from) && isByteSlice(to)) || (isByteSlice(from) && isStringT(to)) {
						problems = append(problems, "string/[]byte conversion"+at)
					}
				case *ssa.MakeInterface:
					if _, isConst := x.X.(*ssa.Const); isConst {
						break
					}
					switch x.X.Type().Underlying().(type) {
					case *types.Pointer, *types.Signature, *types.Map, *types.Chan, *types.Interface:
					default:
						if in.Pos().IsValid() {
							problems = append(problems, "boxing of a "+x.X.Type().String()+" value"+at)
						}
					}
				case *ssa.Call:
					if bi, ok := x.Call.Value.(*ssa.Builtin); ok {
						if bi.Name() == "append" {
							base := x.Call.Args[0]
							k, addr, isCell := so.baseCell(base)
							okApp := false
							if isCell && k.field != nil && isNamed(fieldOwnerType(w, k.field), modulePath, "cTx") {
								if cok, _ := so.cellOwned(k); cok && so.flowsBack(x, k, addr, map[ssa.Value]bool{}) {
									okApp = true
								}
							}
							if !okApp {
								problems = append(problems, "append that is not an in-place extension of a pooled context buffer stored back into it ("+valStr(base)+")"+at)
							}
						}
						continue
					}
					if obj := calleeObj(x); obj != nil && obj.Pkg() != nil {
						if fs := allocatingStd[obj.Pkg().Path()]; fs != nil && fs[obj.Name()] && recvNamed(obj) == nil {
							problems = append(problems, "call of "+obj.Pkg().Name()+"."+obj.Name()+at)
						}
					}
				}
			}
		}
		nfind++
		name := FuncName(u.fn)
		if u.fn == hot.serve {
			name += " (hot blocks)"
		}
		ru.Check("constructs in "+name, w.Pos(u.fn.Pos()), "no allocating construct", len(problems) == 0, orDefault(strings.Join(problems, "; "), "none"))
	}
}

func isStringT(t types.Type) bool {
	b, ok := t.Underlying().(*types.Basic)
	return ok && b.Info()&types.IsString != 0
}

func isByteSlice(t types.Type) bool {
	s, ok := t.Underlying().(*types.Slice)
	if !ok {
		return false
	}
	b, ok := s.Elem().Underlying().(*types.Basic)
	return ok && b.Kind() == types.Byte
}

// fieldOwnerType returns the named struct type declaring f (searching the fox package scope).
func fieldOwnerType(w *World, f *types.Var) types.Type {
	sc := w.Fox.Types.Scope()
	for _, n := range sc.Names() {
		if tn, ok := sc.Lookup(n).(*types.TypeName); ok {
			if st, ok := tn.Type().Underlying().(*types.Struct); ok {
				for i := 0; i < st.NumFields(); i++ {
					if st.Field(i) == f {
						return tn.Type()
					}
				}
			}
		}
	}
	return types.Typ[types.Invalid]
}

func checkC16Provisioning(w *World, r *Report) {
	ru := r.Rule("C16.3", "buffers are provisioned from the tree: every success path of tXn.insert records the route's parameter count (updateMaxParams(route.psLen)) and, where it builds new nodes, the depth; commit and txn carry maxParams and depth over; allocateContext sizes params and tsrParams with the same capacity (maxParams) and the skip stack from depth; the context pools are only ever given allocateContext of their own tree", 3)
	inner := w.FoxType("tXn")
	insert := w.Method("tXn", "insert")
	ump, umd := w.Method("tXn", "updateMaxParams"), w.Method("tXn", "updateMaxDepth")
	newNode, fromRef := w.Func("newNode"), w.Func("newNodeFromRef")
	// path-set: (paramsRecorded, depthRecorded, builtNode)
	type st struct{ p, d, n bool }
	states := map[*ssa.BasicBlock]map[st]bool{insert.Blocks[0]: {st{}: true}}
	work := []*ssa.BasicBlock{insert.Blocks[0]}
	bad := ""
	nsucc := 0
	for len(work) > 0 {
		b := work[0]
		work = work[1:]
		for s0 := range states[b] {
			s := s0
			for _, in := range b.Instrs {
				if c, ok := in.(*ssa.Call); ok {
					switch c.Call.StaticCallee() {
					case ump:
						if _, f, ok := loadedField(c.Call.Args[1]); ok && f.Name() == "psLen" {
							s.p = true
						}
					case umd:
						s.d = true
					case newNode:
						s.n = true
					case fromRef:
					default:
						// a helper on the same transaction that records the parameter count on all its paths (t.grow(route))
						if g := c.Call.StaticCallee(); g != nil && g != insert && len(g.Blocks) > 0 && g.Pkg == insert.Pkg && len(c.Call.Args) > 0 && c.Call.Args[0] == ssa.Value(insert.Params[0]) {
							eachInstr(g, func(in2 ssa.Instruction) {
								c2, ok := in2.(*ssa.Call)
								if !ok || c2.Call.StaticCallee() != ump {
									return
								}
								if _, f, ok := loadedField(c2.Call.Args[1]); !ok || f.Name() != "psLen" {
									return
								}
								domAll := true
								eachInstr(g, func(in3 ssa.Instruction) {
									if rt, ok := in3.(*ssa.Return); ok && !instrDominates(c2, rt) {
										domAll = false
									}
								})
								if domAll {
									s.p = true
								}
							})
						}
					}
				}
				if ret, ok := in.(*ssa.Return); ok && isNilConst(ret.Results[0]) {
					nsucc++
					if !s.p {
						bad = "a success return at " + w.InstrPos(ret) + " is reached without updateMaxParams(route.psLen)"
					}
					if s.n && !s.d {
						bad = "a success return at " + w.InstrPos(ret) + " builds new nodes without updateMaxDepth"
					}
				}
			}
			for _, sc := range b.Succs {
				if states[sc] == nil {
					states[sc] = map[st]bool{}
				}
				if !states[sc][s] {
					states[sc][s] = true
					work = append(work, sc)
				}
			}
		}
	}
	ru.Check("tXn.insert records parameter count and depth", w.Pos(insert.Pos()), "on every success path", bad == "" && nsucc > 0, orDefault(bad, "all success paths"))
	// updateMax* store the maximum
	for _, fn := range []*ssa.Function{ump, umd} {
		ok := false
		eachInstr(fn, func(in ssa.Instruction) {
			if st, isStore := in.(*ssa.Store); isStore && st.Val == ssa.Value(fn.Params[1]) {
				for _, f := range factsAtBlock(st.Block()) {
					if bo, isBin := f.Cond.(*ssa.BinOp); isBin && bo.Op == token.GTR && f.Val && bo.X == ssa.Value(fn.Params[1]) {
						ok = true
					}
				}
			}
		})
		ru.Check(FuncName(fn), w.Pos(fn.Pos()), "keeps the maximum (stores the argument when it is greater)", ok, fmt.Sprint(ok))
	}
	// commit / txn copy both fields
	for _, spec := range []struct{ recv, name string }{{"tXn", "commit"}, {"iTree", "txn"}, {"tXn", "clone"}} {
		fn := w.Method(spec.recv, spec.name)
		got := map[string]string{}
		eachInstr(fn, func(in ssa.Instruction) {
			if st, ok := in.(*ssa.Store); ok {
				if _, f, ok := fieldOfAddr(st.Addr); ok && (f.Name() == "maxParams" || f.Name() == "depth") {
					if _, lf, ok := loadedField(st.Val); ok {
						got[f.Name()] = lf.Name()
					}
				}
			}
		})
		ru.Check(spec.recv+"."+spec.name+" carries the sizing over", w.Pos(fn.Pos()), "maxParams and depth are copied", got["maxParams"] == "maxParams" && got["depth"] == "depth", fmt.Sprint(got))
	}
	_ = inner
	// allocateContext capacities
	alloc := w.Method("iTree", "allocateContext")
	caps := map[string]string{}
	eachInstr(alloc, func(in ssa.Instruction) {
		ms, ok := in.(*ssa.MakeSlice)
		if !ok {
			return
		}
		src := ms.Cap
		if cv, ok := src.(*ssa.Convert); ok {
			src = cv.X
		}
		fname := "?"
		if _, f, ok := loadedField(src); ok {
			fname = f.Name()
		}
		// which context field receives it: the slice is stored into a cell whose address goes to a cTx field
		if refs := ms.Referrers(); refs != nil {
			for _, ref := range *refs {
				if st, ok := ref.(*ssa.Store); ok {
					if cell, ok := st.Addr.(*ssa.Alloc); ok {
						if cr := cell.Referrers(); cr != nil {
							for _, y := range *cr {
								if st2, ok := y.(*ssa.Store); ok && st2.Val == ssa.Value(cell) {
									if _, cf, ok := fieldOfAddr(st2.Addr); ok {
										caps[cf.Name()] = fname
									}
								}
							}
						}
					}
				}
			}
		}
	})
	okCaps := caps["params"] == "maxParams" && caps["tsrParams"] == "maxParams" && caps["skipNds"] == "depth"
	ru.Check("allocateContext capacities", w.Pos(alloc.Pos()), "params and tsrParams get cap maxParams, the skip stack cap depth", okCaps, fmt.Sprint(caps))
	// copyWithResize (CloneWith copies the parameters into a pooled context with it): the destination keeps its capacity.
	// A destination clipped to the length of the source makes the next lookup on that pooled context grow the buffer.
	if cwr := w.Func("copyWithResize"); cwr != nil {
		r.Analysed(FuncName(cwr))
		nsl := 0
		eachInstr(cwr, func(in ssa.Instruction) {
			sl, ok := in.(*ssa.Slice)
			if !ok {
				return
			}
			nsl++
			keeps := sl.Max == nil
			if c, ok := sl.Max.(*ssa.Call); ok {
				if b, ok := c.Call.Value.(*ssa.Builtin); ok && b.Name() == "cap" && sameExpr(c.Call.Args[0], sl.X) {
					keeps = true
				}
			}
			ru.Check("reslice in copyWithResize", w.Pos(sl.Pos()), "the destination buffer keeps its capacity (no third index, or cap(*dst))", keeps, orDefault(map[bool]string{true: "capacity kept"}[keeps], "capacity clipped to "+valStr(sl.Max)))
		})
		if nsl == 0 {
			r.Unrecognised("C16.3: copyWithResize no longer reslices its destination")
		}
	} else {
		r.Unrecognised("C16.3: copyWithResize not found")
	}
	// pools: tree.ctx = sync.Pool{New: func() any { return tree.allocateContext() }}
	n := 0
	for _, fn := range w.FoxFuncs() {
		eachInstr(fn, func(in ssa.Instruction) {
			st, ok := in.(*ssa.Store)
			if !ok || !isNamed(st.Val.Type(), "sync", "Pool") {
				return
			}
			pb, pf, ok := fieldOfAddr(st.Addr)
			if !ok || pf.Name() != "ctx" {
				return
			}
			n++
			owner := seeThrough(pb)
			okk, why := false, "the pool literal has no New function calling allocateContext"
			if u, ok := st.Val.(*ssa.UnOp); ok {
				if lit, ok := u.X.(*ssa.Alloc); ok {
					if refs := lit.Referrers(); refs != nil {
						for _, ref := range *refs {
							fa, ok := ref.(*ssa.FieldAddr)
							if !ok {
								continue
							}
							if _, f, _ := fieldOfAddr(fa); f.Name() != "New" {
								continue
							}
							for _, y := range *fa.Referrers() {
								s2, ok := y.(*ssa.Store)
								if !ok {
									continue
								}
								mc, ok := s2.Val.(*ssa.MakeClosure)
								if !ok {
									continue
								}
								cf := mc.Fn.(*ssa.Function)
								eachInstr(cf, func(x ssa.Instruction) {
									c, ok := x.(*ssa.Call)
									if !ok || c.Call.StaticCallee() != alloc {
										return
									}
									// the receiver is a captured variable: resolve it in the enclosing function
									var recv ssa.Value
									arg := c.Call.Args[0]
									if ld, ok := arg.(*ssa.UnOp); ok {
										arg = ld.X
									}
									if fv, ok := arg.(*ssa.FreeVar); ok {
										for i, v := range cf.FreeVars {
											if v == fv {
												recv = mc.Bindings[i]
												if a, ok := recv.(*ssa.Alloc); ok {
													if sv := singleStore(a); sv != nil {
														recv = sv
													}
												}
											}
										}
									}
									okk = recv != nil && recv == owner
									why = fmt.Sprintf("allocateContext on %s, pool owned by %s", valStr(recv), valStr(owner))
								})
							}
						}
					}
				}
			}
			ru.Check("context pool in "+FuncName(fn), w.Pos(st.Pos()), "New allocates with allocateContext of the pool's own tree", okk, why)
		})
	}
	if n < 2 {
		ru.Fail("context pools", "-", "newTree and commit create the pools", fmt.Sprintf("%d", n))
	}
}
