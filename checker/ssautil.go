package main

import (
	"fmt"
	"go/constant"
	"go/token"
	"go/types"
	"sort"
	"strings"

	"golang.org/x/tools/go/ssa"
)

// ---- calls ------------------------------------------------------------------------------------------------

// staticCallee returns the statically known callee of a call instruction (function, method with known receiver
// type, or closure literal), or nil for interface and func-value calls.
func staticCallee(c ssa.CallInstruction) *ssa.Function {
	return c.Common().StaticCallee()
}

// calleeObj returns the types.Func called, also for interface method calls.
func calleeObj(c ssa.CallInstruction) *types.Func {
	cc := c.Common()
	if cc.IsInvoke() {
		return cc.Method
	}
	if fn := cc.StaticCallee(); fn != nil {
		if o := fn.Origin(); o != nil {
			fn = o
		}
		if obj, ok := fn.Object().(*types.Func); ok {
			return obj
		}
	}
	return nil
}

// isFuncNamed reports whether obj is the package-level function pkg.name.
func isFuncNamed(obj *types.Func, pkg, name string) bool {
	if obj == nil || obj.Pkg() == nil {
		return false
	}
	if obj.Pkg().Path() != pkg || obj.Name() != name {
		return false
	}
	sig := obj.Type().(*types.Signature)
	return sig.Recv() == nil
}

// recvNamed returns the named receiver type (pointer stripped) of a method object.
func recvNamed(obj *types.Func) *types.Named {
	if obj == nil {
		return nil
	}
	sig, ok := obj.Type().(*types.Signature)
	if !ok || sig.Recv() == nil {
		return nil
	}
	t := sig.Recv().Type()
	if p, ok := t.(*types.Pointer); ok {
		t = p.Elem()
	}
	t = types.Unalias(t)
	if n, ok := t.(*types.Named); ok {
		return n
	}
	return nil
}

// isMethodNamed reports whether obj is method name of type pkg.recv (generic origin compared).
func isMethodNamed(obj *types.Func, pkg, recv, name string) bool {
	if obj == nil || obj.Name() != name {
		return false
	}
	n := recvNamed(obj)
	if n == nil {
		return false
	}
	n = n.Origin()
	if n.Obj().Pkg() == nil {
		return false
	}
	return n.Obj().Pkg().Path() == pkg && n.Obj().Name() == recv
}

// callArgs returns the arguments of the call including the receiver as first element for method calls
// (both invoke mode and static method calls put the receiver first).
func callArgs(c ssa.CallInstruction) []ssa.Value {
	cc := c.Common()
	if cc.IsInvoke() {
		return append([]ssa.Value{cc.Value}, cc.Args...)
	}
	return cc.Args
}

// ---- values -----------------------------------------------------------------------------------------------

func derefType(t types.Type) types.Type {
	if p, ok := types.Unalias(t).Underlying().(*types.Pointer); ok {
		return p.Elem()
	}
	return t
}

func namedOf(t types.Type) *types.Named {
	t = types.Unalias(t)
	if p, ok := t.(*types.Pointer); ok {
		t = types.Unalias(p.Elem())
	}
	if n, ok := t.(*types.Named); ok {
		return n
	}
	return nil
}

func isNamed(t types.Type, pkg, name string) bool {
	n := namedOf(t)
	if n == nil {
		return false
	}
	n = n.Origin()
	if n.Obj().Pkg() == nil {
		return pkg == "" && n.Obj().Name() == name
	}
	return n.Obj().Pkg().Path() == pkg && n.Obj().Name() == name
}

// fieldOfAddr: if v is &base.f (FieldAddr) returns base and the field object.
func fieldOfAddr(v ssa.Value) (ssa.Value, *types.Var, bool) {
	fa, ok := v.(*ssa.FieldAddr)
	if !ok {
		return nil, nil, false
	}
	st, ok := derefType(fa.X.Type()).Underlying().(*types.Struct)
	if !ok {
		return nil, nil, false
	}
	return fa.X, st.Field(fa.Field), true
}

// loadedField: if v is a load (*&base.f) or a Field extraction base.f returns base and field.
func loadedField(v ssa.Value) (ssa.Value, *types.Var, bool) {
	switch x := v.(type) {
	case *ssa.UnOp:
		if x.Op == token.MUL {
			return fieldOfAddr(x.X)
		}
	case *ssa.Field:
		st, ok := x.X.Type().Underlying().(*types.Struct)
		if ok {
			return x.X, st.Field(x.Field), true
		}
	}
	return nil, nil, false
}

func isNilConst(v ssa.Value) bool {
	c, ok := v.(*ssa.Const)
	return ok && c.Value == nil
}

func constBool(v ssa.Value) (bool, bool) {
	c, ok := v.(*ssa.Const)
	if !ok || c.Value == nil || c.Value.Kind() != constant.Bool {
		return false, false
	}
	return constant.BoolVal(c.Value), true
}

func constInt(v ssa.Value) (int64, bool) {
	c, ok := v.(*ssa.Const)
	if !ok || c.Value == nil || c.Value.Kind() != constant.Int {
		return 0, false
	}
	n, ok := constant.Int64Val(c.Value)
	return n, ok
}

func constString(v ssa.Value) (string, bool) {
	c, ok := v.(*ssa.Const)
	if !ok || c.Value == nil || c.Value.Kind() != constant.String {
		return "", false
	}
	return constant.StringVal(c.Value), true
}

// stripConv removes value-preserving conversions (ChangeType, MakeInterface is NOT stripped).
func stripConv(v ssa.Value) ssa.Value {
	for {
		switch x := v.(type) {
		case *ssa.ChangeType:
			v = x.X
		case *ssa.ChangeInterface:
			v = x.X
		default:
			return v
		}
	}
}

// ---- dominance / facts ------------------------------------------------------------------------------------

// instrIndex returns the index of instr within its block.
func instrIndex(in ssa.Instruction) int {
	for i, x := range in.Block().Instrs {
		if x == in {
			return i
		}
	}
	return -1
}

// instrDominates reports whether a is executed before b on every path reaching b.
func instrDominates(a, b ssa.Instruction) bool {
	if a.Block() == b.Block() {
		return instrIndex(a) < instrIndex(b)
	}
	return a.Block().Dominates(b.Block())
}

// Fact is a branch condition known to hold: Cond evaluated to Val.
type Fact struct {
	Cond ssa.Value
	Val  bool
}

func (f Fact) String() string {
	if f.Val {
		return valStr(f.Cond)
	}
	return "!(" + valStr(f.Cond) + ")"
}

// edgeFact returns the fact established by taking edge pred->succ, if pred ends in a conditional branch with
// distinct successors.
func edgeFact(pred, succ *ssa.BasicBlock) (Fact, bool) {
	if len(pred.Instrs) == 0 {
		return Fact{}, false
	}
	iff, ok := pred.Instrs[len(pred.Instrs)-1].(*ssa.If)
	if !ok || pred.Succs[0] == pred.Succs[1] {
		return Fact{}, false
	}
	if succ == pred.Succs[0] {
		return normFact(Fact{iff.Cond, true}), true
	}
	if succ == pred.Succs[1] {
		return normFact(Fact{iff.Cond, false}), true
	}
	return Fact{}, false
}

// normFact strips boolean negations: !(c)==v  =>  c==!v.
func normFact(f Fact) Fact {
	for {
		u, ok := f.Cond.(*ssa.UnOp)
		if !ok || u.Op != token.NOT {
			return f
		}
		f = Fact{u.X, !f.Val}
	}
}

// factsAtBlock returns the branch facts that hold on every path reaching block b: for each dominator d of b ending
// in a conditional, if one successor s of d has d as its only predecessor and dominates b, the edge d->s lies on
// every path to b.
func factsAtBlock(b *ssa.BasicBlock) []Fact {
	var out []Fact
	for d := b; d != nil; d = d.Idom() {
		p := d.Idom()
		if p == nil {
			break
		}
		// d is reached from its idom p; the fact holds if d's sole pred is p (edge p->d dominates d).
		if len(d.Preds) == 1 && d.Preds[0] == p {
			if f, ok := edgeFact(p, d); ok {
				out = append(out, f)
			}
		}
	}
	return out
}

// factsOnEdge returns the facts that hold when control flows along pred->succ.
func factsOnEdge(pred, succ *ssa.BasicBlock) []Fact {
	out := factsAtBlock(pred)
	if f, ok := edgeFact(pred, succ); ok {
		out = append(out, f)
	}
	return out
}

func hasFact(fs []Fact, cond ssa.Value, val bool) bool {
	for _, f := range fs {
		if f.Cond == cond && f.Val == val {
			return true
		}
	}
	return false
}

// contradicts reports whether the two fact sets cannot hold together (same condition value, opposite truth).
// Conditions are compared by SSA identity and, for pure comparisons of identical operands, structurally.
func contradicts(a, b []Fact) bool {
	for _, x := range a {
		for _, y := range b {
			if x.Val != y.Val && sameCond(x.Cond, y.Cond) {
				return true
			}
		}
	}
	return false
}

func sameCond(a, b ssa.Value) bool {
	if a == b {
		return true
	}
	ba, ok1 := a.(*ssa.BinOp)
	bb, ok2 := b.(*ssa.BinOp)
	if ok1 && ok2 && ba.Op == bb.Op && ba.X == bb.X && ba.Y == bb.Y {
		return true
	}
	return false
}

// ---- post-dominators --------------------------------------------------------------------------------------

// postDom computes, for a function, the set of blocks post-dominating each block, treating Return and Panic
// blocks as exits. pd[b][x] == true means every path from b to an exit passes through x.
type postDom struct {
	fn  *ssa.Function
	set [][]bool
}

func computePostDom(fn *ssa.Function) *postDom {
	n := len(fn.Blocks)
	pd := &postDom{fn: fn, set: make([][]bool, n)}
	isExit := func(b *ssa.BasicBlock) bool { return len(b.Succs) == 0 }
	for i := range pd.set {
		pd.set[i] = make([]bool, n)
		if isExit(fn.Blocks[i]) {
			pd.set[i][i] = true
		} else {
			for j := range pd.set[i] {
				pd.set[i][j] = true
			}
		}
	}
	changed := true
	for changed {
		changed = false
		for i := n - 1; i >= 0; i-- {
			b := fn.Blocks[i]
			if isExit(b) {
				continue
			}
			nw := make([]bool, n)
			for j := range nw {
				nw[j] = true
			}
			for _, s := range b.Succs {
				for j := range nw {
					nw[j] = nw[j] && pd.set[s.Index][j]
				}
			}
			nw[i] = true
			for j := range nw {
				if nw[j] != pd.set[i][j] {
					changed = true
				}
			}
			pd.set[i] = nw
		}
	}
	return pd
}

func (pd *postDom) PostDominates(x, b *ssa.BasicBlock) bool { return pd.set[b.Index][x.Index] }

// ---- reachability inside a function -----------------------------------------------------------------------

// blockReach returns the set of blocks reachable from `from` (inclusive when includeSelf).
func blockReach(from *ssa.BasicBlock, includeSelf bool) map[*ssa.BasicBlock]bool {
	seen := map[*ssa.BasicBlock]bool{}
	var stack []*ssa.BasicBlock
	if includeSelf {
		stack = append(stack, from)
	} else {
		stack = append(stack, from.Succs...)
	}
	for len(stack) > 0 {
		b := stack[len(stack)-1]
		stack = stack[:len(stack)-1]
		if seen[b] {
			continue
		}
		seen[b] = true
		stack = append(stack, b.Succs...)
	}
	return seen
}

// instrReachableFrom reports whether b can execute after a on some path.
func instrReachableFrom(a, b ssa.Instruction) bool {
	if a.Block() == b.Block() && instrIndex(a) < instrIndex(b) {
		return true
	}
	return blockReach(a.Block(), false)[b.Block()]
}

// ---- printing ---------------------------------------------------------------------------------------------

func valStr(v ssa.Value) string {
	if v == nil {
		return "<nil>"
	}
	switch x := v.(type) {
	case *ssa.Const:
		return x.String()
	case *ssa.Parameter:
		return x.Name()
	case *ssa.BinOp:
		return valStr(x.X) + " " + x.Op.String() + " " + valStr(x.Y)
	case *ssa.UnOp:
		if x.Op == token.MUL {
			return "*" + valStr(x.X)
		}
		return x.Op.String() + valStr(x.X)
	case *ssa.FieldAddr:
		_, f, _ := fieldOfAddr(x)
		return "&" + valStr(x.X) + "." + f.Name()
	case *ssa.Field:
		_, f, _ := loadedField(x)
		return valStr(x.X) + "." + f.Name()
	case *ssa.IndexAddr:
		return "&" + valStr(x.X) + "[" + valStr(x.Index) + "]"
	case *ssa.Call:
		if obj := calleeObj(x); obj != nil {
			return obj.Name() + "(…)"
		}
		if b, ok := x.Call.Value.(*ssa.Builtin); ok {
			args := make([]string, len(x.Call.Args))
			for i, a := range x.Call.Args {
				args[i] = valStr(a)
			}
			return b.Name() + "(" + strings.Join(args, ", ") + ")"
		}
		return "call " + valStr(x.Call.Value)
	case *ssa.Phi:
		if x.Comment != "" {
			return x.Comment
		}
		return x.Name()
	case *ssa.Extract:
		return valStr(x.Tuple) + "#" + fmt.Sprint(x.Index)
	case *ssa.FreeVar:
		return x.Name()
	case *ssa.Global:
		return x.Name()
	case *ssa.Function:
		return FuncName(x)
	case *ssa.Alloc:
		if x.Comment != "" {
			return x.Comment
		}
		return x.Name()
	case *ssa.MakeInterface:
		return "iface(" + valStr(x.X) + ")"
	case *ssa.ChangeType:
		return valStr(x.X)
	case *ssa.Slice:
		s := valStr(x.X) + "["
		if x.Low != nil {
			s += valStr(x.Low)
		}
		s += ":"
		if x.High != nil {
			s += valStr(x.High)
		}
		return s + "]"
	}
	return v.Name()
}

func sortedKeys[V any](m map[string]V) []string {
	out := make([]string, 0, len(m))
	for k := range m {
		out = append(out, k)
	}
	sort.Strings(out)
	return out
}

// eachInstr calls f for every instruction of fn (not descending into anonymous functions).
func eachInstr(fn *ssa.Function, f func(ssa.Instruction)) {
	for _, b := range fn.Blocks {
		for _, in := range b.Instrs {
			f(in)
		}
	}
}

// withAnon returns fn followed by all anonymous functions nested in it (transitively).
func withAnon(fn *ssa.Function) []*ssa.Function {
	out := []*ssa.Function{fn}
	for _, a := range fn.AnonFuncs {
		out = append(out, withAnon(a)...)
	}
	return out
}

// ---- single-assignment cells --------------------------------------------------------------------------------

// singleStore returns the only value ever stored into local cell a (go/ssa spills variables captured by closures
// and struct parameters into Allocs), or nil when the cell is assigned more than once (including from closures).
func singleStore(a *ssa.Alloc) ssa.Value {
	var val ssa.Value
	n := 0
	var scan func(addr ssa.Value, fn *ssa.Function)
	scan = func(addr ssa.Value, fn *ssa.Function) {
		refs := addr.Referrers()
		if refs == nil {
			n = 99
			return
		}
		for _, ref := range *refs {
			switch x := ref.(type) {
			case *ssa.Store:
				if x.Addr == addr {
					n++
					val = x.Val
				}
			case *ssa.MakeClosure:
				cf, ok := x.Fn.(*ssa.Function)
				if !ok {
					n = 99
					continue
				}
				for i, b := range x.Bindings {
					if b == addr && i < len(cf.FreeVars) {
						scan(cf.FreeVars[i], cf)
					}
				}
			}
		}
	}
	scan(a, a.Parent())
	if n == 1 {
		return val
	}
	return nil
}

// seeThrough resolves loads of single-assignment local cells to the value they hold.
func seeThrough(v ssa.Value) ssa.Value {
	for i := 0; i < 8; i++ {
		u, ok := v.(*ssa.UnOp)
		if !ok || u.Op != token.MUL {
			return v
		}
		var cell *ssa.Alloc
		switch x := u.X.(type) {
		case *ssa.Alloc:
			cell = x
		case *ssa.FreeVar:
			cell = rootAlloc(x)
		}
		if cell == nil {
			return v
		}
		s := singleStore(cell)
		if s == nil {
			return v
		}
		v = s
	}
	return v
}

// logicalField is loadedField that sees through spilled struct values: for `*(&cell.f)` where cell is a local holding
// exactly one struct value X it reports (X, f).
func logicalField(v ssa.Value) (ssa.Value, *types.Var, bool) {
	base, f, ok := loadedField(v)
	if !ok {
		return nil, nil, false
	}
	if a, isAlloc := base.(*ssa.Alloc); isAlloc {
		if s := singleStore(a); s != nil {
			return s, f, true
		}
	}
	return seeThrough(base), f, true
}

// ---- call sites of module functions --------------------------------------------------------------------------

// staticCallSites returns every static call of fn inside the module, and whether fn is also used as a value
// (address taken), in which case its callers are not all known.
func staticCallSites(w *World, fn *ssa.Function) (sites []ssa.CallInstruction, valueUse bool) {
	for _, g := range w.ModuleFuncs() {
		eachInstr(g, func(in ssa.Instruction) {
			site, isCall := in.(ssa.CallInstruction)
			if isCall && site.Common().StaticCallee() == fn {
				sites = append(sites, site)
			}
			for _, op := range in.Operands(nil) {
				if *op == ssa.Value(fn) {
					if isCall && site.Common().Value == ssa.Value(fn) {
						continue
					}
					valueUse = true
				}
			}
		})
	}
	return
}

// holdsAtEveryCall reports whether pred holds at every call site of the unexported helper fn (directly, or because the
// calling function is itself such a helper whose call sites all satisfy pred). Used to let a guard protect code that a
// refactoring moved into a small helper.
func holdsAtEveryCall(w *World, fn *ssa.Function, pred func(caller *ssa.Function, site ssa.CallInstruction) bool, depth int) bool {
	if depth > 4 {
		return false
	}
	if obj := fn.Object(); obj == nil || obj.Exported() {
		return false
	}
	sites, valueUse := staticCallSites(w, fn)
	if valueUse || len(sites) == 0 {
		return false
	}
	for _, s := range sites {
		caller := s.Parent()
		if pred(caller, s) {
			continue
		}
		if !holdsAtEveryCall(w, caller, pred, depth+1) {
			return false
		}
	}
	return true
}
