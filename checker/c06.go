package main

import (
	"fmt"
	"go/token"
	"go/types"
	"sort"

	"golang.org/x/tools/go/ssa"
)

func init() { register("C06", checkC06) }

// readEntryPoints enumerates the read entry points of the public API from the type-checked program.
func readEntryPoints(w *World) (entries []*ssa.Function, binds map[*ssa.Function]binding, names []string) {
	binds = map[*ssa.Function]binding{}
	add := func(fn *ssa.Function) {
		if fn == nil {
			return
		}
		for _, e := range entries {
			if e == fn {
				return
			}
		}
		entries = append(entries, fn)
	}
	for _, m := range []string{"ServeHTTP", "Lookup", "Reverse", "Has", "Route", "Len", "Iter", "View", "Stats", "NewRoute", "HandleNoRoute"} {
		add(w.Method("Router", m))
	}
	// Router.Txn(false): a read-only transaction
	txn := w.Method("Router", "Txn")
	add(txn)
	binds[txn] = binding{1: false}
	for _, m := range []string{"Methods", "Routes", "Reverse", "Prefix", "All"} {
		add(w.Method("Iter", m))
	}
	for _, m := range []string{"Has", "Route", "Reverse", "Lookup", "Iter", "Len", "Snapshot"} {
		add(w.Method("Txn", m))
	}
	// every method of the pooled context and of Route and of the recorder: they run inside request handling
	for _, t := range []string{"cTx", "Route", "recorder", "Params"} {
		for _, fn := range w.MethodsOf(t) {
			add(fn)
		}
	}
	// module-provided handlers, middleware and resolvers run on the request path too: every module function or
	// closure whose signature is that of HandlerFunc, and every ClientIP method in the module.
	hf := w.FoxType("HandlerFunc").Underlying().(*types.Signature)
	for _, fn := range w.ModuleFuncs() {
		if w.InPkg(fn, modulePath+"/signals") {
			continue
		}
		sig := fn.Signature
		if sig.Recv() == nil && len(fn.FreeVars) >= 0 && types.Identical(stripRecv(sig), hf) {
			add(fn)
		}
		if fn.Name() == "ClientIP" && sig.Recv() != nil {
			add(fn)
		}
	}
	for _, e := range entries {
		n := FuncName(e)
		if b := binds[e]; b != nil {
			n += " [" + b.key() + "]"
		}
		names = append(names, n)
	}
	sort.Strings(names)
	return
}

func stripRecv(sig *types.Signature) *types.Signature {
	return types.NewSignatureType(nil, nil, nil, sig.Params(), sig.Results(), sig.Variadic())
}

// forbiddenAcquire classifies a callee as a blocking acquire.
func forbiddenAcquire(obj *types.Func) (string, bool) {
	if obj == nil || obj.Pkg() == nil {
		return "", false
	}
	type mk struct{ pkg, recv, name string }
	for _, m := range []mk{
		{"sync", "Mutex", "Lock"}, {"sync", "Mutex", "TryLock"},
		{"sync", "RWMutex", "Lock"}, {"sync", "RWMutex", "RLock"}, {"sync", "RWMutex", "TryLock"}, {"sync", "RWMutex", "TryRLock"},
		{"sync", "Cond", "Wait"}, {"sync", "WaitGroup", "Wait"}, {"sync", "Once", "Do"}, {"sync", "Locker", "Lock"},
	} {
		if isMethodNamed(obj, m.pkg, m.recv, m.name) {
			return fmt.Sprintf("(%s.%s).%s", m.pkg, m.recv, m.name), true
		}
	}
	if isFuncNamed(obj, "time", "Sleep") {
		return "time.Sleep", true
	}
	if isFuncNamed(obj, "sync", "OnceFunc") || isFuncNamed(obj, "sync", "OnceValue") || isFuncNamed(obj, "sync", "OnceValues") {
		return "sync." + obj.Name(), true
	}
	return "", false
}

// lockOwner describes whose lock is acquired: the struct type holding the mutex the receiver address points into.
func lockOwner(site ssa.CallInstruction) (owner string, field *types.Var) {
	args := callArgs(site)
	if len(args) == 0 {
		return "?", nil
	}
	if base, f, ok := fieldOfAddr(args[0]); ok {
		if n := namedOf(base.Type()); n != nil {
			return n.Obj().Pkg().Name() + "." + n.Obj().Name(), f
		}
	}
	return "?", nil
}

func checkC06(w *World, r *Report) {
	r.Explanation = "Reachability over the resolved call graph: from every read entry point of the API (enumerated from the type-checked " +
		"program) no call path inside the module reaches an acquire of a lock, a condition wait, a channel operation or a sleep. " +
		"Calls are resolved through type information (static callees, CHA for interface and function-value calls; VTA cross-check in the thorough tier); " +
		"boolean parameters passed as constants are propagated so that txnWith(write=false) does not inherit the writer-only Lock. " +
		"This decides the static half of the property ('never acquire the writer lock', named as an observation point by the property); " +
		"it does not decide scheduling behaviour."
	r.NotDecided = []string{"progress under a parked writer as observed at run time", "blocking inside the standard library or user handlers"}
	r.Assumptions = []string{
		"user handlers, middleware, resolvers and response writers are the boundary of the analysis and are not followed",
		"standard-library functions are not descended into; only direct calls from module code to blocking primitives are considered",
		"no reflection/unsafe/linkname call targets (checked: none in the module)",
	}
	muField := newProto(w).Mu

	cg := w.CHA()
	entries, binds, names := readEntryPoints(w)
	r.Extra["entry_points"] = names

	ru := r.Rule("C06.1", "no call path from a read entry point reaches a blocking acquire (Mutex/RWMutex lock, Cond/WaitGroup wait, Once, channel send/receive/select, time.Sleep) or takes the address of the Router writer lock", 20)
	ru.Idiom("acquire control-dependent on a boolean parameter that the read path passes as constant false (txnWith(write=false))",
		"sync.Pool Get/Put (non-blocking with respect to writers)",
		"the mutex embedded in internal/slogpretty.lockedWriter: serialises log lines of the optional Logger/Recovery middleware and is never held by a writer")

	type viol struct {
		st   *reachState
		in   ssa.Instruction
		what string
	}
	// explore runs the reachability from the given entries and returns, per entry, the findings with call chains.
	type finding struct {
		viol
		chain []string
	}
	explore := func(cg *CallGraph, entries []*ssa.Function, binds map[*ssa.Function]binding) (*Reach, [][]finding, int) {
		rc := newReach(w, cg)
		viols := map[*reachState][]viol{}
		ncalls := 0
		roots := rc.Run(entries, binds,
			func(st *reachState, in ssa.Instruction) {
				switch x := in.(type) {
				case *ssa.Send:
					viols[st] = append(viols[st], viol{st, in, "channel send"})
				case *ssa.Select:
					viols[st] = append(viols[st], viol{st, in, "select"})
				case *ssa.UnOp:
					if x.Op == token.ARROW {
						viols[st] = append(viols[st], viol{st, in, "channel receive"})
					}
				case *ssa.FieldAddr:
					if _, f, ok := fieldOfAddr(x); ok && f == muField && !onlyMutexReceiver(x) {
						viols[st] = append(viols[st], viol{st, in, "address of the Router writer lock escapes"})
					}
				}
			},
			func(st *reachState, site ssa.CallInstruction, callee *ssa.Function) {
				ncalls++
				what, bad := forbiddenAcquire(calleeObjOf(callee))
				if !bad {
					return
				}
				owner, _ := lockOwner(site)
				if owner == "slogpretty.lockedWriter" {
					return
				}
				viols[st] = append(viols[st], viol{st, site, what + " on " + owner})
			})
		out := make([][]finding, len(roots))
		for i, root := range roots {
			order, chain := rc.From(root)
			for _, s := range order {
				for _, v := range viols[s] {
					out[i] = append(out[i], finding{v, chain(s)})
				}
			}
		}
		return rc, out, ncalls
	}

	rc, found, ncalls := explore(cg, entries, binds)
	for i, e := range entries {
		name := FuncName(e)
		if b := binds[e]; b != nil {
			name += "[" + b.key() + "]"
		}
		if len(found[i]) > 0 {
			for _, v := range found[i] {
				ru.Fail("entry "+name, w.Pos(v.in.Pos()), "no blocking acquire reachable from this read entry point", v.what+" in "+FuncName(v.st.fn), v.chain...)
			}
			continue
		}
		ru.Pass("entry "+name, w.Pos(e.Pos()), "no blocking acquire reachable from this read entry point", "explored module-internal call graph: none found")
	}
	reached := map[string]bool{}
	for _, st := range rc.States {
		reached[FuncName(st.fn)] = true
	}
	r.Analysed(sortedKeys(reached)...)
	r.Extra["reachable_states"] = len(rc.States)
	r.Extra["call_sites_resolved"] = ncalls
	r.Extra["boundary_calls_not_followed"] = rc.Boundary
	r.Extra["call_graph"] = cg.kind

	// positive control: the same machinery must find the writer lock from the write entry points.
	ctl := r.Rule("C06.1-control", "positive control: from every write entry point the analysis does reach the Router lock acquire (a rule expecting zero matches must be shown able to match)", 3)
	var wentries []*ssa.Function
	for _, m := range []string{"Handle", "HandleRoute", "Update", "UpdateRoute", "Delete", "Updates"} {
		wentries = append(wentries, w.Method("Router", m))
	}
	txn := w.Method("Router", "Txn")
	wentries = append(wentries, txn)
	{
		_, wf, _ := explore(cg, wentries, map[*ssa.Function]binding{txn: {1: true}})
		for i, e := range wentries {
			ok := false
			for _, v := range wf[i] {
				if v.what == "(sync.Mutex).Lock on fox.Router" {
					ok = true
				}
			}
			ctl.Check("write entry "+FuncName(e), w.Pos(e.Pos()), "the Router lock acquire is found on the write path", ok, map[bool]string{true: "Lock reached", false: "Lock NOT reached: the reachability analysis is blind"}[ok])
		}
	}

	// C06.2: read-only transactions never touch the lock.
	checkC06ReadOnlyTxn(w, r, muField)

	// C06.3 writers wait only for writers: between Lock and Unlock no other acquire.
	ru3 := r.Rule("C06.3", "functions that run while the writer lock is held (reachable from the write methods of Txn) perform no other blocking acquire", 3)
	var tmethods []*ssa.Function
	for _, m := range []string{"Handle", "HandleRoute", "Update", "UpdateRoute", "Delete", "Truncate", "Commit", "Abort"} {
		tmethods = append(tmethods, w.Method("Txn", m))
	}
	_, tv, _ := explore(cg, tmethods, nil)
	for i, e := range tmethods {
		if vs := tv[i]; len(vs) > 0 {
			for _, v := range vs {
				ru3.Fail("Txn."+e.Name(), w.Pos(v.in.Pos()), "no blocking acquire while the writer lock is held", v.what+" in "+FuncName(v.st.fn), v.chain...)
			}
			continue
		}
		ru3.Pass("Txn."+e.Name(), w.Pos(e.Pos()), "no blocking acquire while the writer lock is held", "none reachable")
	}

	if r.Tier == "thorough" {
		vcg := w.VTA()
		ruv := r.Rule("C06.1-vta", "cross-check: the VTA-refined call graph gives the same verdict for every read entry point", 20)
		_, vv, _ := explore(vcg, entries, binds)
		for i, e := range entries {
			same := (len(vv[i]) > 0) == (len(found[i]) > 0)
			ruv.Check("entry "+FuncName(e), w.Pos(e.Pos()), "CHA and VTA agree", same, fmt.Sprintf("cha=%d vta=%d findings", len(found[i]), len(vv[i])))
		}
	}
}

func checkC06ReadOnlyTxn(w *World, r *Report, muField *types.Var) {
	ru := r.Rule("C06.2", "a read-only transaction never touches the writer lock: Txn.write is only ever set from txnWith's parameter, every Lock/Unlock of the Router lock is guarded by it", 2)
	txnT := w.FoxType("Txn")
	writeField := w.Field(txnT, "write")
	txnWith := w.Method("Router", "txnWith")

	// (a) who writes Txn.write
	nstores := 0
	for _, fn := range w.FoxFuncs() {
		if isTestHelper(w, fn) {
			continue
		}
		eachInstr(fn, func(in ssa.Instruction) {
			st, ok := in.(*ssa.Store)
			if !ok {
				return
			}
			_, f, ok := fieldOfAddr(st.Addr)
			if !ok || f != writeField {
				return
			}
			nstores++
			okk := false
			why := "stored value " + valStr(st.Val)
			if fn == txnWith {
				if p, isParam := st.Val.(*ssa.Parameter); isParam && p == fn.Params[1] {
					okk = true
					why = "initialised from the write parameter that also guards the Lock"
				}
			}
			if v, isConst := constBool(st.Val); isConst && !v {
				okk, why = true, "constant false (read-only)"
			}
			ru.Check("store Txn.write in "+FuncName(fn), w.Pos(st.Pos()), "Txn.write is set only from txnWith's write parameter (or to false)", okk, why)
		})
	}
	if nstores == 0 {
		ru.Fail("store Txn.write", "-", "Txn.write is initialised in txnWith", "no store found")
	}
	// (b) every acquire/release of the Router lock is guarded
	for _, fn := range w.FoxFuncs() {
		eachInstr(fn, func(in ssa.Instruction) {
			site, ok := in.(ssa.CallInstruction)
			if !ok {
				return
			}
			obj := calleeObj(site)
			if !(isMethodNamed(obj, "sync", "Mutex", "Lock") || isMethodNamed(obj, "sync", "Mutex", "Unlock") || isMethodNamed(obj, "sync", "Mutex", "TryLock")) {
				return
			}
			_, f := lockOwner(site)
			if f != muField {
				return
			}
			facts := factsAtBlock(in.Block())
			guarded := false
			how := ""
			for _, ft := range facts {
				if p, ok := ft.Cond.(*ssa.Parameter); ok && fn == txnWith && p == fn.Params[1] && ft.Val {
					guarded, how = true, "control-dependent on parameter write == true"
				}
				if _, fld, ok := loadedField(ft.Cond); ok && fld == writeField && ft.Val {
					guarded, how = true, "dominated by the test txn.write == true"
				}
			}
			if !guarded {
				// a helper private to guarded callers
				writeGuarded := func(caller *ssa.Function, s ssa.CallInstruction) bool {
					for _, ft := range factsAtBlock(s.Block()) {
						if _, fld, ok := loadedField(ft.Cond); ok && fld == writeField && ft.Val {
							return true
						}
					}
					return false
				}
				if holdsAtEveryCall(w, fn, writeGuarded, 0) {
					guarded, how = true, "helper whose every call site is dominated by txn.write == true"
				}
			}
			ru.Check(obj.Name()+" of Router lock in "+FuncName(fn), w.Pos(in.Pos()), "Lock/Unlock of the writer lock happens only for write transactions", guarded, orDefault(how, "not guarded by the write flag"))
		})
	}
}

// onlyMutexReceiver: the address of the lock field is used only as receiver of sync.Mutex methods (those calls
// are judged on their own).
func onlyMutexReceiver(fa *ssa.FieldAddr) bool {
	refs := fa.Referrers()
	if refs == nil {
		return false
	}
	for _, ref := range *refs {
		site, ok := ref.(ssa.CallInstruction)
		if !ok {
			return false
		}
		obj := calleeObj(site)
		if recvNamed(obj) == nil || !isNamed(recvNamed(obj), "sync", "Mutex") {
			return false
		}
		args := callArgs(site)
		if len(args) == 0 || args[0] != ssa.Value(fa) {
			return false
		}
		for _, a := range args[1:] {
			if a == ssa.Value(fa) {
				return false
			}
		}
	}
	return true
}

// isTestHelper: functions of helpers.go (exported test scaffolding compiled into the package).
func isTestHelper(w *World, fn *ssa.Function) bool {
	p := w.Fset.Position(fn.Pos())
	return len(p.Filename) > 10 && p.Filename[len(p.Filename)-len("helpers.go"):] == "helpers.go"
}
