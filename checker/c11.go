package main

import (
	"fmt"
	"go/token"
	"go/types"
	"sort"
	"strings"

	"golang.org/x/tools/go/ssa"
)

func init() { register("C11", checkC11) }

// dispatchInfo collects the constructs of Router.ServeHTTP shared by the C08, C11, C12 and C13 rules.
type dispatchInfo struct {
	fn         *ssa.Function
	ctx        ssa.Value
	ctxDef     ssa.Instruction
	mainLook   *ssa.Call // the non-lazy lookup
	lazyLooks  []*ssa.Call
	lazySite   map[*ssa.Call]*ssa.Call // a lazy lookup that sits in a helper called from ServeHTTP -> that call
	lazySiteAt []*ssa.Call             // aligned with lazyLooks: the call in ServeHTTP that stands for the lookup (nil: in ServeHTTP itself); one helper may be called for both loops
	// handler call sites
	routeCalls   []*ssa.Call // through Route.hall
	specialCalls map[*types.Var][]*ssa.Call
	otherCalls   []*ssa.Call          // dynamic calls receiving the context through some other value
	scopeOfField map[*types.Var]int64 // from New: Router field -> scope constant used when wrapping it
	baseOfField  map[*types.Var]string
	state        map[ssa.Instruction]ctxState
	cf           *CtxFlow
}

// specialHandlerTable reads from New the pairs (Router field, scope constant): r.F = applyMiddleware(K, r.mws, h).
func specialHandlerTable(w *World) (map[*types.Var]int64, map[*types.Var]ssa.Value) {
	newFn := w.Func("New")
	apply := w.Func("applyMiddleware")
	router := w.FoxType("Router")
	scope := map[*types.Var]int64{}
	base := map[*types.Var]ssa.Value{}
	eachInstr(newFn, func(in ssa.Instruction) {
		st, ok := in.(*ssa.Store)
		if !ok {
			return
		}
		b, f, ok := fieldOfAddr(st.Addr)
		if !ok || namedOf(b.Type()) != router {
			return
		}
		c, ok := st.Val.(*ssa.Call)
		if !ok || c.Call.StaticCallee() != apply {
			return
		}
		if k, ok := constInt(c.Call.Args[0]); ok {
			scope[f] = k
			base[f] = c.Call.Args[2]
		}
	})
	return scope, base
}

func analyseDispatch(w *World) *dispatchInfo {
	p := newProto(w)
	d := &dispatchInfo{fn: w.Method("Router", "ServeHTTP"), specialCalls: map[*types.Var][]*ssa.Call{}, state: map[ssa.Instruction]ctxState{}}
	d.cf = newCtxFlow(w)
	vals, defs := d.cf.acquisitions(p, d.fn)
	if len(vals) != 1 {
		anchorFail("ServeHTTP acquires exactly one pooled context (found %d)", len(vals))
	}
	d.ctx, d.ctxDef = vals[0], defs[0]
	d.scopeOfField, _ = specialHandlerTable(w)
	route := w.FoxType("Route")
	hall := w.Field(route, "hall")
	isCtx := func(v ssa.Value) bool { return stripIface(seeThrough(stripIface(v))) == d.ctx }
	lookupFn := w.Method("iTree", "lookup")
	eachInstr(d.fn, func(in ssa.Instruction) {
		c, ok := in.(*ssa.Call)
		if !ok {
			return
		}
		if c.Call.StaticCallee() == lookupFn {
			// the main lookup is the first one (it dominates the others); the others feed the Allow loops
			if d.mainLook == nil {
				d.mainLook = c
			} else if instrDominates(c, d.mainLook) {
				d.lazyLooks = append(d.lazyLooks, d.mainLook)
				d.mainLook = c
			} else {
				d.lazyLooks = append(d.lazyLooks, c)
			}
			return
		}
		if c.Call.StaticCallee() != nil || c.Call.IsInvoke() {
			return
		}
		if _, isBuiltin := c.Call.Value.(*ssa.Builtin); isBuiltin {
			return
		}
		passes := false
		for _, a := range c.Call.Args {
			if isCtx(a) {
				passes = true
			}
		}
		if !passes {
			return
		}
		if _, f, ok := loadedField(c.Call.Value); ok {
			if f == hall {
				d.routeCalls = append(d.routeCalls, c)
				return
			}
			if _, isSpecial := d.scopeOfField[f]; isSpecial {
				d.specialCalls[f] = append(d.specialCalls[f], c)
				return
			}
		}
		d.otherCalls = append(d.otherCalls, c)
	})
	if d.mainLook == nil {
		anchorFail("the non-lazy lookup of ServeHTTP")
	}
	// a handler dispatch moved into a helper (helper(tree, c, route, tsr) calling route.hall(c)) is not followed by the
	// dispatch rules: they would need the context state at the helper's entry. No verdict rather than a wrong one.
	eachInstr(d.fn, func(in ssa.Instruction) {
		site, ok := in.(*ssa.Call)
		if !ok || site.Call.StaticCallee() == nil {
			return
		}
		h := site.Call.StaticCallee()
		if !w.InModule(h) || len(h.Blocks) == 0 {
			return
		}
		passes := false
		for _, a := range site.Call.Args {
			if isCtx(a) {
				passes = true
			}
		}
		if !passes {
			return
		}
		eachInstr(h, func(in2 ssa.Instruction) {
			c2, ok := in2.(*ssa.Call)
			if !ok || c2.Call.StaticCallee() != nil || c2.Call.IsInvoke() {
				return
			}
			if _, f, ok := loadedField(c2.Call.Value); ok {
				_, isSpecial := d.scopeOfField[f]
				if f == hall || isSpecial {
					anchorFail("handler dispatch inside ServeHTTP (the call through %s sits in helper %s, which the dispatch rules do not follow)", f.Name(), h.Name())
				}
			}
		})
	})
	// Allow loops moved into a helper of the module: the lazy lookup is found there, the call in ServeHTTP stands for it
	d.lazySite = map[*ssa.Call]*ssa.Call{}
	eachInstr(d.fn, func(in ssa.Instruction) {
		site, ok := in.(*ssa.Call)
		if !ok || site.Call.StaticCallee() == nil || site.Call.StaticCallee() == lookupFn {
			return
		}
		h := site.Call.StaticCallee()
		if !w.InModule(h) || len(h.Blocks) == 0 {
			return
		}
		eachInstr(h, func(in2 ssa.Instruction) {
			c2, ok := in2.(*ssa.Call)
			if !ok || c2.Call.StaticCallee() != lookupFn {
				return
			}
			if lz, isConst := constBool(c2.Call.Args[len(c2.Call.Args)-1]); isConst && lz {
				for len(d.lazySiteAt) < len(d.lazyLooks) {
					d.lazySiteAt = append(d.lazySiteAt, nil)
				}
				d.lazyLooks = append(d.lazyLooks, c2)
				d.lazySiteAt = append(d.lazySiteAt, site)
				d.lazySite[c2] = site
			}
		})
	})
	for len(d.lazySiteAt) < len(d.lazyLooks) {
		d.lazySiteAt = append(d.lazySiteAt, nil)
	}
	d.cf.Run(d.fn, d.ctx, d.ctxDef, func(in ssa.Instruction, st ctxState) { d.state[in] = st.clone() })
	return d
}

func scopeName(w *World, k int64) string {
	sc := w.Fox.Types.Scope()
	for _, n := range sc.Names() {
		if c, ok := sc.Lookup(n).(*types.Const); ok && isNamed(c.Type(), modulePath, "HandlerScope") {
			if v, ok := constantInt64(c); ok && v == k {
				return n
			}
		}
	}
	return fmt.Sprint(k)
}

func constantInt64(c *types.Const) (int64, bool) {
	if c.Val() == nil {
		return 0, false
	}
	s := c.Val().ExactString()
	var v int64
	_, err := fmt.Sscan(s, &v)
	return v, err == nil
}

func checkC11(w *World, r *Report) {
	r.Explanation = "Dispatch structure of Router.ServeHTTP, decided on every path by a forward must-dataflow that follows the pooled context through the function " +
		"(callee effects from summaries; lookup(..., lazy=true) is shown to keep scrubbed fields scrubbed): before each call of a special handler (no-route, no-method, " +
		"auto-OPTIONS, redirect) the context's params are truncated to zero, route is nil and tsr false, and its scope is the constant the same handler was wrapped with in New " +
		"(the two tables are extracted from the code and compared, no names involved); the OPTIONS and 405 branches are gated by their option flags and request method; " +
		"both Allow loops range over all roots, call the shared matcher lazily on the request's host/path, accept under the same predicate, the 405 loop excludes exactly the " +
		"request method, and the Allow header is set before the handler runs. Which methods are listed inherits the matcher (C01) and is not decided."
	r.NotDecided = []string{"that the methods listed in Allow are exactly those that would serve the request (inherits the matcher)", "status codes and bodies written by user-supplied special handlers"}
	r.Assumptions = []string{"handlers only observe the context through the Context interface"}
	d := analyseDispatch(w)
	r.Analysed(FuncName(d.fn))

	checkScrubRule(w, r, d, "C11.1")
	fields := make([]*types.Var, 0, len(d.scopeOfField))
	for f := range d.scopeOfField {
		fields = append(fields, f)
	}
	sort.Slice(fields, func(i, j int) bool { return fields[i].Name() < fields[j].Name() })

	// ---- C11.2 (also C13.2)
	checkScopePairing(w, r, d, "C11.2")

	// ---- C11.3
	ru3 := r.Rule("C11.3", "option gates: the auto-OPTIONS handler is called only under Method == OPTIONS and the handleOptions flag, the no-method handler only under the handleMethodNotAllowed flag; both only when at least one method was collected", 1)
	router := w.FoxType("Router")
	flagFor := map[string]string{"autoOptions": "handleOptions", "noMethod": "handleMethodNotAllowed"}
	for _, f := range fields {
		flag, ok := flagFor[f.Name()]
		if !ok {
			continue
		}
		flagVar := w.Field(router, flag)
		for _, c := range d.specialCalls[f] {
			facts := factsAtBlock(c.Block())
			hasFlag, hasMethod, hasLen := false, f.Name() != "autoOptions", false
			methodDependent := ""
			for _, ft := range facts {
				if bo, ok := ft.Cond.(*ssa.BinOp); ok && f.Name() == "noMethod" {
					for _, side := range []ssa.Value{bo.X, bo.Y} {
						if _, fld, ok := loadedField(side); ok && fld.Name() == "Method" && fld.Pkg() != nil && fld.Pkg().Path() == "net/http" {
							methodDependent = fmt.Sprintf("the call is reached only when (%s) is %v [%s]", bo.String(), ft.Val, w.Pos(bo.Pos()))
						}
					}
				}
				if _, fld, ok := loadedField(ft.Cond); ok && fld == flagVar && ft.Val {
					hasFlag = true
				}
				if bo, ok := ft.Cond.(*ssa.BinOp); ok {
					if s, ok := constString(bo.Y); ok && s == "OPTIONS" && ((bo.Op == token.EQL && ft.Val) || (bo.Op == token.NEQ && !ft.Val)) {
						if _, fld, ok := loadedField(bo.X); ok && fld.Name() == "Method" {
							hasMethod = true
						}
					}
					// allow != "" where allow is the result of a helper that builds the list
					if sv, isS := constString(bo.Y); isS && sv == "" && ((bo.Op == token.NEQ && ft.Val) || (bo.Op == token.EQL && !ft.Val)) {
						if _, isCall := bo.X.(*ssa.Call); isCall {
							hasLen = true
						}
					}
					// sb.Len() > 0
					if cl, ok := bo.X.(*ssa.Call); ok && bo.Op == token.GTR && ft.Val {
						if obj := calleeObj(cl); obj != nil && obj.Name() == "Len" {
							if z, ok := constInt(bo.Y); ok && z == 0 {
								hasLen = true
							}
						}
					}
				}
			}
			ru3.Check("gate of Router."+f.Name(), w.Pos(c.Pos()), "call dominated by its option flag (and Method == OPTIONS for the options handler) and by a non-empty method list", hasFlag && hasMethod && hasLen,
				fmt.Sprintf("flag %s=%v methodIsOPTIONS=%v nonEmptyAllow=%v", flag, hasFlag, hasMethod, hasLen))
			if f.Name() == "noMethod" {
				ru3.Check("method independence of Router.noMethod", w.Pos(c.Pos()), "the 405 branch is not conditioned on the request method: an OPTIONS request falls through to it when automatic OPTIONS replies are off", methodDependent == "",
					orDefault(methodDependent, "no dominating test of Request.Method"))
			}
		}
	}

	// ---- C11.4
	checkAllowLoops(w, r, d)
}

// checkScrubRule is rule C11.1; it also runs under C19 and C20, whose resolver selection (Context.ClientIP uses the
// router-wide resolver in every handler other than a route's) relies on special handlers seeing no route.
func checkScrubRule(w *World, r *Report, d *dispatchInfo, id string) {
	cf := d.cf
	// ---- C11.1
	ru := r.Rule(id, "scrub before every special handler: on every path to a call of Router.noRoute/noMethod/autoOptions/tsrRedirect the context's params are truncated to 0, route is nil and tsr is false, with no later write that could undo it", 2)
	ru.Idiom("*c.params = (*c.params)[:0]; c.route = nil; c.tsr = false", "intervening lookup(..., c, true): lazy lookups only reslice params and clear tsr")
	fields := make([]*types.Var, 0, len(d.scopeOfField))
	for f := range d.scopeOfField {
		fields = append(fields, f)
	}
	sort.Slice(fields, func(i, j int) bool { return fields[i].Name() < fields[j].Name() })
	for _, f := range fields {
		calls := d.specialCalls[f]
		if len(calls) == 0 {
			ru.Fail("call of Router."+f.Name(), w.Pos(d.fn.Pos()), "every special handler wrapped in New is dispatched by ServeHTTP", "no call through this field in ServeHTTP")
			continue
		}
		for _, c := range calls {
			st := d.state[c]
			okk := st.f[cf.field("params")].kind == kScrub && st.f[cf.field("route")].kind == kScrub && st.f[cf.field("tsr")].kind == kScrub
			ru.Check("call of Router."+f.Name(), w.Pos(c.Pos()), "params empty, route nil, tsr false at the call", okk, cf.describe(st, "params", "route", "tsr"))
		}
	}
	for _, c := range d.otherCalls {
		ru.Fail("handler call through "+valStr(c.Call.Value), w.Pos(c.Pos()), "the context is only handed to the route chain or to a special handler prepared in New", "unclassified handler call receiving the request context")
	}

}

// checkScopePairing: the scope constant stored into the context before each special handler call equals the scope the
// handler was wrapped with in New; route handlers run under the RouteHandler scope set by reset.
func checkScopePairing(w *World, r *Report, d *dispatchInfo, id string) {
	ru := r.Rule(id, "scope pairing: the table (handler field -> scope constant) read from New (r.F = applyMiddleware(K, ...)) equals the table read from ServeHTTP (constant held by c.scope at the call of r.F); the route chain runs under the scope set by reset (RouteHandler); the four special handlers are all wrapped", 3)
	cf := d.cf
	if len(d.scopeOfField) < 4 {
		ru.Fail("special handlers wrapped in New", w.Pos(w.Func("New").Pos()), "no-route, no-method, redirect and auto-OPTIONS handlers are wrapped with their scope", fmt.Sprintf("only %d handler fields are assigned applyMiddleware(K, ...)", len(d.scopeOfField)))
	}
	seenScope := map[int64]string{}
	fields := make([]*types.Var, 0, len(d.scopeOfField))
	for f := range d.scopeOfField {
		fields = append(fields, f)
	}
	sort.Slice(fields, func(i, j int) bool { return fields[i].Name() < fields[j].Name() })
	for _, f := range fields {
		k := d.scopeOfField[f]
		if prev, dup := seenScope[k]; dup {
			ru.Fail("scope of Router."+f.Name()+" in New", w.Pos(w.Func("New").Pos()), "each special handler has its own scope", "same scope constant as "+prev)
		}
		seenScope[k] = f.Name()
		for _, c := range d.specialCalls[f] {
			sv := d.state[c].f[cf.field("scope")]
			okk := sv.kind == kConst && sv.k == k
			ru.Check("scope at call of Router."+f.Name(), w.Pos(c.Pos()), "c.scope holds the scope this handler was wrapped with ("+scopeName(w, k)+")", okk, "c.scope is "+sv.String()+" ("+scopeName(w, sv.k)+")")
		}
	}
	rh, ok := w.Fox.Types.Scope().Lookup("RouteHandler").(*types.Const)
	if !ok {
		anchorFail("constant RouteHandler")
	}
	rhv, _ := constantInt64(rh)
	for _, c := range d.routeCalls {
		sv := d.state[c].f[cf.field("scope")]
		ru.Check("scope at route handler call", w.Pos(c.Pos()), "the route chain runs under RouteHandler", sv.kind == kConst && sv.k == rhv, "c.scope is "+sv.String())
	}
	if len(d.routeCalls) == 0 {
		ru.Fail("route handler calls", w.Pos(d.fn.Pos()), "ServeHTTP invokes the route chain", "none found")
	}
}

// checkAllowLoops verifies the two Allow-building loops.
func checkAllowLoops(w *World, r *Report, d *dispatchInfo) {
	ru := r.Rule("C11.4", "Allow loops: each lazy lookup uses the loop root's key, the request host and the very path value of the main lookup; a method is appended only when the lookup matched and (no trailing-slash action is needed, or the route ignores trailing slashes and the method is not CONNECT — the conditions under which ServeHTTP would serve it); the 405 loop skips exactly the request method; the Allow header is set before the special handler runs", 3)
	if len(d.lazyLooks) != 2 {
		// the loops may have been moved out of ServeHTTP; this rule only knows them there
		r.Unrecognised("C11.4: %d lazy lookups found in ServeHTTP (one per Allow loop expected: OPTIONS and 405)", len(d.lazyLooks))
	}
	route := w.FoxType("Route")
	ignoreF := w.Field(route, "ignoreTrailingSlash")
	mainArgs := d.mainLook.Call.Args
	var sigs []string
	for i, c := range d.lazyLooks {
		a := c.Call.Args
		name := fmt.Sprintf("lazy lookup #%d", i+1)
		site := d.lazySiteAt[i] // nil: the loop is in ServeHTTP itself
		subst := func(v ssa.Value) ssa.Value {
			if site == nil {
				return v
			}
			if p, ok := stripIface(v).(*ssa.Parameter); ok && p.Parent() == c.Parent() {
				if k := paramIndex(c.Parent(), p); k >= 0 && k < len(site.Call.Args) {
					return site.Call.Args[k]
				}
			}
			return v
		}
		// args: tree, method, host, path, ctx, lazy
		okTree := subst(a[0]) == mainArgs[0]
		okPath := subst(a[3]) == mainArgs[3]
		okHost := sameExpr(a[2], mainArgs[2]) || sameExpr(subst(a[2]), mainArgs[2])
		if !okHost && site != nil {
			// r.Host of the request parameter the helper was handed
			b1, f1, ok1 := loadedField(a[2])
			b2, f2, ok2 := loadedField(mainArgs[2])
			okHost = ok1 && ok2 && f1 == f2 && subst(b1) == b2
		}
		okCtx := stripIface(subst(a[4])) == d.ctx
		_, kf, isKey := loadedField(a[1])
		okKey := isKey && kf.Name() == "key"
		lz, isConst := constBool(a[len(a)-1])
		okLazy := isConst && lz
		// the loop: the block of the lookup is inside a cycle
		inLoop := blockReach(c.Block(), false)[c.Block()]
		ru.Check(name+" arguments", w.Pos(c.Pos()), "same tree, host, path and context as the main lookup; method taken from the root being visited; inside the loop over all roots",
			okTree && okPath && okHost && okCtx && okKey && inLoop && okLazy, fmt.Sprintf("tree=%v host=%v path=%v ctx=%v methodFromRootKey=%v inLoop=%v lazy=%v", okTree, okHost, okPath, okCtx, okKey, inLoop, okLazy))

		// acceptance predicate: every path from the lookup to the WriteString of the key satisfies n!=nil && (!tsr || ignore)
		var nVal, tsrVal ssa.Value
		if refs := c.Referrers(); refs != nil {
			for _, ref := range *refs {
				if ex, ok := ref.(*ssa.Extract); ok {
					if ex.Index == 0 {
						nVal = ex
					} else {
						tsrVal = ex
					}
				}
			}
		}
		accept := acceptBlocks(c)
		if len(accept) == 0 || nVal == nil || tsrVal == nil {
			ru.Fail(name+" acceptance", w.Pos(c.Pos()), "the method is appended to the Allow list under the acceptance predicate", "no append of the root key found after the lookup")
			continue
		}
		bad, badConnect := "", ""
		npaths := 0
		for _, ab := range accept {
			for _, path := range pathsBetween(c.Block(), ab, 64) {
				npaths++
				nn, noTsr, ign, notConnect := false, false, false, false
				for j := 0; j+1 < len(path); j++ {
					if f, ok := edgeFact(path[j], path[j+1]); ok {
						if bo, ok := f.Cond.(*ssa.BinOp); ok && bo.X == nVal && isNilConst(bo.Y) {
							if (bo.Op == token.NEQ && f.Val) || (bo.Op == token.EQL && !f.Val) {
								nn = true
							}
						}
						if f.Cond == tsrVal && !f.Val {
							noTsr = true
						}
						if _, fld, ok := loadedField(f.Cond); ok && fld == ignoreF && f.Val {
							ign = true
						}
						// the visited method is not CONNECT (the serving branch never takes a trailing-slash action for CONNECT)
						if bo, ok := f.Cond.(*ssa.BinOp); ok {
							for _, pr := range [][2]ssa.Value{{bo.X, bo.Y}, {bo.Y, bo.X}} {
								if s, ok := constString(pr[1]); ok && s == "CONNECT" {
									if _, kf2, ok := loadedField(pr[0]); ok && kf2.Name() == "key" && ((bo.Op == token.NEQ && f.Val) || (bo.Op == token.EQL && !f.Val)) {
										notConnect = true
									}
								}
							}
						}
					}
				}
				if !(nn && (noTsr || ign)) {
					bad = fmt.Sprintf("a path appends the method with n!=nil=%v !tsr=%v ignoreTrailingSlash=%v", nn, noTsr, ign)
				}
				if nn && !noTsr && ign && !notConnect {
					badConnect = "a method matched only through an ignored trailing slash is appended without testing that it is not CONNECT: ServeHTTP never takes a trailing-slash action for CONNECT, so CONNECT is advertised for a path it does not serve"
				}
			}
		}
		sigs = append(sigs, fmt.Sprintf("%d", npaths))
		ru.Check(name+" acceptance", w.Pos(c.Pos()), "appended only if n != nil && (!tsr || route.ignoreTrailingSlash)", bad == "" && npaths > 0, orDefault(bad, fmt.Sprintf("%d accepting path(s), all under the predicate", npaths)))
		if npaths > 0 {
			ru.Check(name+" CONNECT exclusion", w.Pos(c.Pos()), "a method accepted through an ignored trailing slash is not CONNECT (sibling of the serving branch, which refuses trailing-slash actions for CONNECT)", badConnect == "", orDefault(badConnect, "tested"))
		}

		// method exclusion
		excl := false
		for _, f := range factsAtBlock(c.Block()) {
			if bo, ok := f.Cond.(*ssa.BinOp); ok {
				_, xf, okx := loadedField(subst(bo.X))
				_, yf, oky := loadedField(subst(bo.Y))
				if okx && oky && ((xf.Name() == "key" && yf.Name() == "Method") || (xf.Name() == "Method" && yf.Name() == "key")) {
					if (bo.Op == token.NEQ && f.Val) || (bo.Op == token.EQL && !f.Val) {
						excl = true
					}
				}
			}
		}
		// which handler does this loop feed?
		feeds := ""
		for f, calls := range d.specialCalls {
			for _, hc := range calls {
				from := c.Block()
				if site != nil {
					from = site.Block()
				}
				if blockReach(from, true)[hc.Block()] && f.Name() != "noRoute" {
					// the nearest one: the handler whose call block is dominated by the loop's function region; pick by gate flag
					if f.Name() == "noMethod" && excl || f.Name() == "autoOptions" && !excl {
						feeds = f.Name()
					}
				}
			}
		}
		want := map[string]bool{"noMethod": true, "autoOptions": false}
		okx := feeds != "" && want[feeds] == excl
		ru.Check(name+" method exclusion", w.Pos(c.Pos()), "the 405 loop skips the request's own method, the OPTIONS loop does not", okx, fmt.Sprintf("feeds=%s excludesRequestMethod=%v", orDefault(feeds, "?"), excl))
	}
	_ = strings.Join(sigs, " ")
	// Allow header set before the handler
	for f, calls := range d.specialCalls {
		if f.Name() != "noMethod" && f.Name() != "autoOptions" {
			continue
		}
		for _, hc := range calls {
			found := false
			eachInstr(d.fn, func(in ssa.Instruction) {
				c, ok := in.(*ssa.Call)
				if !ok || !isMethodNamed(calleeObj(c), "net/http", "Header", "Set") {
					return
				}
				if k, ok := constString(c.Call.Args[1]); ok && k == "Allow" && instrDominates(c, hc) {
					found = true
				}
			})
			ru.Check("Allow header before Router."+f.Name(), w.Pos(hc.Pos()), "Header().Set(\"Allow\", ...) dominates the handler call", found, map[bool]string{true: "set before the call", false: "no dominating Set of the Allow header"}[found])
		}
	}
}

// acceptBlocks: blocks after lookup call c (before the loop repeats) that append the visited root's key to the builder.
func acceptBlocks(c *ssa.Call) []*ssa.BasicBlock {
	fn := c.Parent()
	var out []*ssa.BasicBlock
	reach := blockReach(c.Block(), false)
	for _, b := range fn.Blocks {
		if !reach[b] || !c.Block().Dominates(b) {
			continue
		}
		for _, in := range b.Instrs {
			call, ok := in.(*ssa.Call)
			if !ok {
				continue
			}
			if isMethodNamed(calleeObj(call), "strings", "Builder", "WriteString") {
				if _, f, ok := loadedField(call.Call.Args[1]); ok && f.Name() == "key" {
					out = append(out, b)
				}
				continue
			}
			// a helper of the module that is handed the root's key and writes its string parameter to a builder
			if callee := call.Call.StaticCallee(); callee != nil && len(callee.Blocks) > 0 && callee.Pkg == fn.Pkg {
				for i, a := range call.Call.Args {
					if _, f, ok := loadedField(a); ok && f.Name() == "key" && i < len(callee.Params) {
						writes := false
						eachInstr(callee, func(in2 ssa.Instruction) {
							if c2, ok := in2.(*ssa.Call); ok && isMethodNamed(calleeObj(c2), "strings", "Builder", "WriteString") && c2.Call.Args[1] == ssa.Value(callee.Params[i]) {
								writes = true
							}
						})
						if writes {
							out = append(out, b)
						}
					}
				}
			}
		}
	}
	return out
}

// pathsBetween enumerates the acyclic paths from block a to block b (bounded).
func pathsBetween(a, b *ssa.BasicBlock, limit int) [][]*ssa.BasicBlock {
	var out [][]*ssa.BasicBlock
	var cur []*ssa.BasicBlock
	on := map[*ssa.BasicBlock]bool{}
	var dfs func(x *ssa.BasicBlock)
	dfs = func(x *ssa.BasicBlock) {
		if len(out) >= limit {
			return
		}
		cur = append(cur, x)
		on[x] = true
		if x == b && len(cur) > 1 {
			out = append(out, append([]*ssa.BasicBlock(nil), cur...))
		} else {
			for _, s := range x.Succs {
				if !on[s] || (s == b && s != a) {
					if s == a {
						continue
					}
					dfs(s)
				}
			}
		}
		on[x] = false
		cur = cur[:len(cur)-1]
	}
	dfs(a)
	return out
}
