package main

import (
	"fmt"
	"go/token"
	"go/types"
	"strings"

	"golang.org/x/tools/go/ssa"
)

// Slice ownership for append: an append whose first argument may have spare capacity writes into the backing
// array of that argument. That is harmless only when the array belongs exclusively to the variable being
// extended. A *cell* is a place holding a slice: a struct field (all objects of the type together), the pointee
// of a pointer-typed struct field, or a local/captured variable. A cell is *owned* when every value ever stored
// into it is fresh (make, literal, nil, clone), clipped (cap == len, so any append reallocates), or derived from
// the cell itself (self-append, reslice). A cell initialised from another object's slice without copy or clip
// (Route.mws <- Router.mws) is shared, and an append on it may scribble over the other object's array.

type cellKey struct {
	field *types.Var // struct field cell
	deref bool       // the pointee of a pointer-typed field
	local *ssa.Alloc // local / captured variable cell
	param *ssa.Parameter // the pointee of a *[]T parameter: stands for the cells the callers pass
}

var theWorld *World

func (k cellKey) String() string {
	if k.local != nil {
		return "variable " + k.local.Comment
	}
	if k.param != nil {
		return "*" + k.param.Name() + " of " + FuncName(k.param.Parent())
	}
	s := "field " + k.field.Name()
	if theWorld != nil {
		s = "field " + theWorld.FieldOwner(k.field)
	}
	if k.deref {
		s = "*(" + s + ")"
	}
	return s
}

type sliceOwn struct {
	w        *World
	inScope  func(*ssa.Function) bool
	stores   map[cellKey][]*ssa.Store
	cellMemo map[cellKey]int // 0 unknown, 1 in progress (optimistic), 2 owned, 3 shared
	cellWhy  map[cellKey]string
	funcMemo map[*ssa.Function]int
}

func newSliceOwn(w *World, inScope func(*ssa.Function) bool) *sliceOwn {
	theWorld = w
	so := &sliceOwn{w: w, inScope: inScope, stores: map[cellKey][]*ssa.Store{}, cellMemo: map[cellKey]int{}, cellWhy: map[cellKey]string{}, funcMemo: map[*ssa.Function]int{}}
	for _, fn := range w.ModuleFuncs() {
		eachInstr(fn, func(in ssa.Instruction) {
			st, ok := in.(*ssa.Store)
			if !ok {
				return
			}
			if k, ok := so.cellOfAddr(st.Addr); ok {
				so.stores[k] = append(so.stores[k], st)
			}
		})
	}
	return so
}

func isSliceType(t types.Type) bool {
	_, ok := types.Unalias(t).Underlying().(*types.Slice)
	return ok
}

// rootAlloc resolves a local address (Alloc, or a FreeVar bound to one in an enclosing function) to its Alloc.
func rootAlloc(v ssa.Value) *ssa.Alloc {
	switch x := v.(type) {
	case *ssa.Alloc:
		return x
	case *ssa.FreeVar:
		fn := x.Parent()
		parent := fn.Parent()
		if parent == nil {
			return nil
		}
		idx := -1
		for i, fv := range fn.FreeVars {
			if fv == x {
				idx = i
			}
		}
		var out *ssa.Alloc
		eachInstr(parent, func(in ssa.Instruction) {
			if mc, ok := in.(*ssa.MakeClosure); ok && mc.Fn == ssa.Value(fn) && idx >= 0 && idx < len(mc.Bindings) {
				out = rootAlloc(mc.Bindings[idx])
			}
		})
		return out
	}
	return nil
}

// cellOfAddr maps an address to the cell it denotes, if it holds a slice.
func (so *sliceOwn) cellOfAddr(addr ssa.Value) (cellKey, bool) {
	pt, ok := types.Unalias(addr.Type()).Underlying().(*types.Pointer)
	if !ok || !isSliceType(pt.Elem()) {
		return cellKey{}, false
	}
	if _, f, ok := fieldOfAddr(addr); ok {
		return cellKey{field: f}, true
	}
	if _, f, ok := loadedField(addr); ok { // addr itself was loaded from a pointer-typed field
		return cellKey{field: f, deref: true}, true
	}
	if a := rootAlloc(addr); a != nil {
		return cellKey{local: a}, true
	}
	if p, ok := seeThrough(addr).(*ssa.Parameter); ok {
		return cellKey{param: p}, true
	}
	return cellKey{}, false
}

// cellOfLoad: v is a load from a cell; also returns the address loaded from (identifies the object).
func (so *sliceOwn) cellOfLoad(v ssa.Value) (cellKey, ssa.Value, bool) {
	u, ok := v.(*ssa.UnOp)
	if !ok || u.Op != token.MUL {
		return cellKey{}, nil, false
	}
	k, ok := so.cellOfAddr(u.X)
	return k, u.X, ok
}

// sameObject: two addresses of the same cell kind denote the cell of the same object.
func sameObject(a, b ssa.Value) bool {
	if sameExpr(a, b) {
		return true
	}
	ra, rb := rootAlloc(a), rootAlloc(b)
	return ra != nil && ra == rb
}

// selfRef is the cell (and the object holding it) a stored value may legitimately be derived from.
type selfRef struct {
	key  cellKey
	addr ssa.Value
}

// sameExpr: structural equality of two pure SSA expressions (go/ssa performs no CSE).
func sameExpr(a, b ssa.Value) bool {
	if a == b {
		return true
	}
	switch x := a.(type) {
	case *ssa.Const:
		y, ok := b.(*ssa.Const)
		return ok && x.Value != nil && y.Value != nil && x.Value.ExactString() == y.Value.ExactString()
	case *ssa.UnOp:
		y, ok := b.(*ssa.UnOp)
		return ok && x.Op == y.Op && sameExpr(x.X, y.X)
	case *ssa.FieldAddr:
		y, ok := b.(*ssa.FieldAddr)
		return ok && x.Field == y.Field && sameExpr(x.X, y.X)
	case *ssa.Field:
		y, ok := b.(*ssa.Field)
		return ok && x.Field == y.Field && sameExpr(x.X, y.X)
	case *ssa.IndexAddr:
		y, ok := b.(*ssa.IndexAddr)
		return ok && sameExpr(x.X, y.X) && sameExpr(x.Index, y.Index)
	case *ssa.BinOp:
		y, ok := b.(*ssa.BinOp)
		return ok && x.Op == y.Op && sameExpr(x.X, y.X) && sameExpr(x.Y, y.Y)
	case *ssa.Slice:
		y, ok := b.(*ssa.Slice)
		if !ok || !sameExpr(x.X, y.X) {
			return false
		}
		eq := func(p, q ssa.Value) bool { return (p == nil && q == nil) || (p != nil && q != nil && sameExpr(p, q)) }
		return eq(x.Low, y.Low) && eq(x.High, y.High) && eq(x.Max, y.Max)
	case *ssa.Call:
		y, ok := b.(*ssa.Call)
		if !ok {
			return false
		}
		bx, ok1 := x.Call.Value.(*ssa.Builtin)
		by, ok2 := y.Call.Value.(*ssa.Builtin)
		if ok1 && ok2 && bx.Name() == by.Name() && (bx.Name() == "len" || bx.Name() == "cap") {
			return sameExpr(x.Call.Args[0], y.Call.Args[0])
		}
	}
	return false
}

// owned decides whether slice value v exclusively owns its backing array (or cannot be written in place by an
// append: cap == len). self is the cell currently being judged (values derived from it count as owned).
func (so *sliceOwn) owned(v ssa.Value, self *selfRef, seen map[ssa.Value]bool) (bool, string) {
	if seen[v] {
		return true, "" // cycle: optimistic, the non-cyclic inputs decide
	}
	seen[v] = true
	switch x := v.(type) {
	case *ssa.Const:
		return true, ""
	case *ssa.MakeSlice:
		return true, ""
	case *ssa.ChangeType:
		return so.owned(x.X, self, seen)
	case *ssa.Slice:
		// slice of a local array (composite literal) is fresh
		if a, ok := x.X.(*ssa.Alloc); ok {
			if _, isArr := derefType(a.Type()).Underlying().(*types.Array); isArr {
				return true, ""
			}
		}
		// full slice expression with cap == len: appends reallocate, nothing is written in place
		if x.Max != nil && x.High != nil && sameExpr(x.Max, x.High) {
			if c, ok := x.High.(*ssa.Call); ok {
				if b, ok := c.Call.Value.(*ssa.Builtin); ok && b.Name() == "len" && sameExpr(c.Call.Args[0], x.X) {
					return true, ""
				}
			}
		}
		return so.owned(x.X, self, seen)
	case *ssa.Phi:
		for _, e := range x.Edges {
			if ok, why := so.owned(e, self, seen); !ok {
				return false, why
			}
		}
		return true, ""
	case *ssa.Call:
		if b, ok := x.Call.Value.(*ssa.Builtin); ok {
			if b.Name() == "append" {
				return so.owned(x.Call.Args[0], self, seen)
			}
			return false, "result of builtin " + b.Name()
		}
		callee := x.Call.StaticCallee()
		if callee == nil {
			return false, "result of a dynamic call"
		}
		obj := calleeObjOf(callee)
		if isFuncNamed(obj, "slices", "Clone") || isFuncNamed(obj, "slices", "Clip") || isFuncNamed(obj, "bytes", "Clone") {
			return true, ""
		}
		if isFuncNamed(obj, "slices", "Grow") || isFuncNamed(obj, "slices", "AppendSeq") ||
			(obj != nil && obj.Pkg() != nil && obj.Pkg().Path() == "strconv" && strings.HasPrefix(obj.Name(), "Append")) {
			// append-like standard functions return their first argument, possibly regrown
			return so.owned(x.Call.Args[0], self, seen)
		}
		if so.w.InModule(callee) && callee.Blocks != nil {
			return so.funcReturnsOwned(callee)
		}
		return false, "result of " + FuncName(callee)
	case *ssa.UnOp:
		if k, addr, ok := so.cellOfLoad(x); ok {
			if self != nil && k == self.key && sameObject(addr, self.addr) {
				return true, "" // derived from the very cell being assigned (self-append, reslice)
			}
			return false, "an alias of " + k.String() + " (" + valStr(x) + ")"
		}
		return false, "loaded from " + valStr(x.X)
	case *ssa.Extract:
		return false, "component of a multi-value result"
	case *ssa.Parameter:
		return false, "parameter " + x.Name() + " (caller's slice)"
	}
	return false, fmt.Sprintf("%T %s", v, valStr(v))
}

func (so *sliceOwn) funcReturnsOwned(fn *ssa.Function) (bool, string) {
	switch so.funcMemo[fn] {
	case 1, 2:
		return true, ""
	case 3:
		return false, "result of " + FuncName(fn) + " may alias"
	}
	so.funcMemo[fn] = 1
	ok, why := true, ""
	eachInstr(fn, func(in ssa.Instruction) {
		ret, isRet := in.(*ssa.Return)
		if !isRet || !ok {
			return
		}
		for _, res := range ret.Results {
			if isSliceType(res.Type()) {
				if o, y := so.owned(res, nil, map[ssa.Value]bool{}); !o {
					ok, why = false, FuncName(fn)+" returns "+y
				}
			}
		}
	})
	if ok {
		so.funcMemo[fn] = 2
	} else {
		so.funcMemo[fn] = 3
	}
	return ok, why
}

// cellOwned: every value stored into the cell is owned or derived from the cell itself.
func (so *sliceOwn) cellOwned(k cellKey) (bool, string) {
	switch so.cellMemo[k] {
	case 1, 2:
		return true, ""
	case 3:
		return false, so.cellWhy[k]
	}
	so.cellMemo[k] = 1
	for _, st := range so.stores[k] {
		if ok, why := so.owned(st.Val, &selfRef{k, st.Addr}, map[ssa.Value]bool{}); !ok {
			so.cellMemo[k] = 3
			so.cellWhy[k] = fmt.Sprintf("%s is initialised at %s from %s without copy or capacity clip", k, so.w.Pos(st.Pos()), why)
			return false, so.cellWhy[k]
		}
	}
	// a pointer parameter stands for the cells its callers pass: each must be a cell, and owned
	if k.param != nil {
		if why := so.paramCellCallers(k.param); why != "" {
			so.cellMemo[k] = 3
			so.cellWhy[k] = why
			return false, why
		}
	}
	// whole-struct copies alias every slice field of the struct
	if k.field != nil {
		if why := so.structCopyAliases(k.field); why != "" {
			so.cellMemo[k] = 3
			so.cellWhy[k] = why
			return false, why
		}
	}
	so.cellMemo[k] = 2
	return true, ""
}

// structCopyAliases looks for stores of whole struct values (x := *p) of the struct type owning field f.
func (so *sliceOwn) structCopyAliases(f *types.Var) string {
	found := ""
	for _, fn := range so.w.ModuleFuncs() {
		eachInstr(fn, func(in ssa.Instruction) {
			st, ok := in.(*ssa.Store)
			if !ok || found != "" {
				return
			}
			s, ok := types.Unalias(st.Val.Type()).Underlying().(*types.Struct)
			if !ok {
				return
			}
			has := false
			for i := 0; i < s.NumFields(); i++ {
				if s.Field(i) == f {
					has = true
				}
			}
			if !has {
				return
			}
			if _, isConst := st.Val.(*ssa.Const); isConst {
				return
			}
			// a load of a local composite literal under construction is not a copy of a shared object
			if u, ok := st.Val.(*ssa.UnOp); ok && u.Op == token.MUL {
				if a, ok := u.X.(*ssa.Alloc); ok && !a.Heap {
					return
				}
			}
			found = fmt.Sprintf("a whole %s value is copied at %s, aliasing its slice field %s", namedOf(st.Val.Type()), so.w.Pos(st.Pos()), f.Name())
		})
	}
	return found
}

// checkAppendAliasing is rule C13.1 (reported as C05.6 under the concurrency property): no append of the fox and
// clientip packages extends a slice whose backing array may be shared with another object.
func checkAppendAliasing(w *World, r *Report, id string) {
	ru := r.Rule(id, "no append onto an aliased slice: the first argument of every append (packages fox and clientip) is fresh, clipped to cap == len, or loaded from a cell (field or variable) that is only ever assigned fresh, clipped or self-derived values", 20)
	ru.Idiom("make / composite literal / nil", "slices.Clone, slices.Clip", "x[:len(x):len(x)]", "self-append x = append(x, ...) and reslice x = x[:k] on an owned cell", "append([]T{...}, x...)")
	inScope := func(fn *ssa.Function) bool {
		return (w.InPkg(fn, modulePath) || w.InPkg(fn, modulePath+"/clientip")) && !isTestHelper(w, fn)
	}
	so := newSliceOwn(w, inScope)
	for _, fn := range w.ModuleFuncs() {
		if !inScope(fn) {
			continue
		}
		eachInstr(fn, func(in ssa.Instruction) {
			c, ok := in.(*ssa.Call)
			if !ok {
				return
			}
			b, ok := c.Call.Value.(*ssa.Builtin)
			if !ok || b.Name() != "append" {
				return
			}
			base := c.Call.Args[0]
			okk, why := so.owned(base, nil, map[ssa.Value]bool{})
			desc := "the slice being extended exclusively owns its backing array (or has no spare capacity)"
			how := "fresh: " + strings.TrimSpace(valStr(base))
			if !okk {
				// extending a cell in place: the cell must be owned and the result must go back into it
				if k, addr, isCell := so.baseCell(base); isCell {
					if cok, cwhy := so.cellOwned(k); !cok {
						why = cwhy
					} else if !so.flowsBack(c, k, addr, map[ssa.Value]bool{}) {
						why = "the result of extending " + k.String() + " is not stored back into it: another variable aliases its spare capacity"
					} else {
						okk, how = true, "self-append on owned "+k.String()
					}
				}
			}
			if !okk {
				how = "append may write into a backing array shared with another object: " + why
			}
			ru.Check("append in "+FuncName(fn), w.Pos(c.Pos()), desc, okk, how)
		})
	}
}

// baseCell: the append base is (a reslice or an append chain of) a load of a cell.
func (so *sliceOwn) baseCell(v ssa.Value) (cellKey, ssa.Value, bool) {
	for i := 0; i < 16; i++ {
		switch x := v.(type) {
		case *ssa.ChangeType:
			v = x.X
			continue
		case *ssa.Slice:
			v = x.X
			continue
		case *ssa.Call:
			if b, ok := x.Call.Value.(*ssa.Builtin); ok && b.Name() == "append" {
				v = x.Call.Args[0]
				continue
			}
		}
		break
	}
	return so.cellOfLoad(v)
}

// flowsBack: the value v (an append result) reaches a store into cell k of the same object, possibly through
// further appends, reslices and phis.
func (so *sliceOwn) flowsBack(v ssa.Value, k cellKey, addr ssa.Value, seen map[ssa.Value]bool) bool {
	if seen[v] {
		return false
	}
	seen[v] = true
	refs := v.Referrers()
	if refs == nil {
		return false
	}
	for _, ref := range *refs {
		switch x := ref.(type) {
		case *ssa.Store:
			if x.Val == v {
				if kk, ok := so.cellOfAddr(x.Addr); ok && kk == k && sameObject(x.Addr, addr) {
					return true
				}
			}
		case *ssa.Call:
			if b, ok := x.Call.Value.(*ssa.Builtin); ok && b.Name() == "append" && x.Call.Args[0] == v {
				if so.flowsBack(x, k, addr, seen) {
					return true
				}
			}
		case *ssa.Slice:
			if x.X == v && so.flowsBack(x, k, addr, seen) {
				return true
			}
		case *ssa.Phi:
			if so.flowsBack(x, k, addr, seen) {
				return true
			}
		case *ssa.ChangeType:
			if so.flowsBack(x, k, addr, seen) {
				return true
			}
		}
	}
	return false
}

// paramCellCallers checks the callers of a function that extends a slice through a pointer parameter: the function
// must only be called statically, and every argument must be the address of a cell that is itself owned.
func (so *sliceOwn) paramCellCallers(p *ssa.Parameter) string {
	fn := p.Parent()
	idx := paramIndex(fn, p)
	why := ""
	ncalls := 0
	for _, caller := range so.w.ModuleFuncs() {
		eachInstr(caller, func(in ssa.Instruction) {
			if why != "" {
				return
			}
			if c, ok := in.(ssa.CallInstruction); ok && c.Common().StaticCallee() == fn {
				ncalls++
				args := c.Common().Args
				if idx < 0 || idx >= len(args) {
					why = "call of " + FuncName(fn) + " at " + so.w.Pos(in.Pos()) + " not understood"
					return
				}
				k, ok := so.cellOfAddr(args[idx])
				if !ok {
					why = "call of " + FuncName(fn) + " at " + so.w.Pos(in.Pos()) + " passes " + valStr(args[idx]) + ", which is not the address of a slice cell"
					return
				}
				if ok2, w2 := so.cellOwned(k); !ok2 {
					why = w2
				}
				return
			}
			// the function used as a value: unknown callers
			for _, op := range in.Operands(nil) {
				if op != nil && *op == ssa.Value(fn) {
					if c, isCall := in.(ssa.CallInstruction); !isCall || c.Common().Value != ssa.Value(fn) {
						why = FuncName(fn) + " is used as a value at " + so.w.Pos(in.Pos()) + ": its callers are not known"
					}
				}
			}
		})
	}
	if why == "" && ncalls == 0 {
		why = FuncName(fn) + " has no static caller"
	}
	return why
}
