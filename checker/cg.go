package main

import (
	"fmt"
	"go/token"
	"go/types"
	"sort"
	"strings"

	"golang.org/x/tools/go/callgraph"
	"golang.org/x/tools/go/callgraph/cha"
	"golang.org/x/tools/go/callgraph/vta"
	"golang.org/x/tools/go/ssa"
)

// CallGraph wraps a whole-program call graph (CHA, optionally refined by VTA) and answers "which functions can
// this call site invoke".
type CallGraph struct {
	w    *World
	g    *callgraph.Graph
	kind string
}

func (w *World) CHA() *CallGraph {
	return &CallGraph{w: w, g: cha.CallGraph(w.Prog), kind: "cha"}
}

func (w *World) VTA() *CallGraph {
	return &CallGraph{w: w, g: vta.CallGraph(w.allFuncs, cha.CallGraph(w.Prog)), kind: "vta"}
}

// targets returns the possible callees of site (executed inside fn).
func (cg *CallGraph) targets(fn *ssa.Function, site ssa.CallInstruction) []*ssa.Function {
	if c := site.Common().StaticCallee(); c != nil {
		return []*ssa.Function{c}
	}
	n := cg.g.Nodes[fn]
	if n == nil {
		return nil
	}
	var out []*ssa.Function
	seen := map[*ssa.Function]bool{}
	for _, e := range n.Out {
		if e.Site == site && !seen[e.Callee.Func] {
			seen[e.Callee.Func] = true
			out = append(out, e.Callee.Func)
		}
	}
	sort.Slice(out, func(i, j int) bool { return out[i].String() < out[j].String() })
	return out
}

// ---- context-sensitive reachability on constant boolean parameters ---------------------------------------

// binding maps parameter index -> known constant boolean value.
type binding map[int]bool

func (b binding) key() string {
	if len(b) == 0 {
		return ""
	}
	idx := make([]int, 0, len(b))
	for i := range b {
		idx = append(idx, i)
	}
	sort.Ints(idx)
	var sb strings.Builder
	for _, i := range idx {
		fmt.Fprintf(&sb, "%d=%v,", i, b[i])
	}
	return sb.String()
}

// liveSuccs returns the successors of b that can be taken when the bound parameters have the given constant
// values: a conditional branch on a bound parameter (possibly negated) is followed only along the matching edge.
func liveSuccs(fn *ssa.Function, bind binding, b *ssa.BasicBlock) []*ssa.BasicBlock {
	if len(bind) > 0 && len(b.Instrs) > 0 {
		if iff, ok := b.Instrs[len(b.Instrs)-1].(*ssa.If); ok {
			f := normFact(Fact{iff.Cond, true})
			for i, p := range fn.Params {
				if f.Cond == ssa.Value(p) {
					if v, bound := bind[i]; bound {
						if v == f.Val {
							return b.Succs[:1]
						}
						return b.Succs[1:2]
					}
				}
			}
		}
	}
	return b.Succs
}

// liveBlocks returns the blocks of fn that can execute under the binding.
func liveBlocks(fn *ssa.Function, bind binding) map[*ssa.BasicBlock]bool {
	live := map[*ssa.BasicBlock]bool{}
	if len(fn.Blocks) == 0 {
		return live
	}
	var stack = []*ssa.BasicBlock{fn.Blocks[0]}
	for len(stack) > 0 {
		b := stack[len(stack)-1]
		stack = stack[:len(stack)-1]
		if live[b] {
			continue
		}
		live[b] = true
		stack = append(stack, liveSuccs(fn, bind, b)...)
	}
	// recover block (if any) is live when the function has defers
	if fn.Recover != nil {
		for _, s := range blockReachList(fn.Recover) {
			live[s] = true
		}
	}
	return live
}

func blockReachList(from *ssa.BasicBlock) []*ssa.BasicBlock {
	var out []*ssa.BasicBlock
	for b := range blockReach(from, true) {
		out = append(out, b)
	}
	return out
}

// bindArgs computes the callee binding for a call made inside caller (under caller's binding).
func bindArgs(caller *ssa.Function, callerBind binding, site ssa.CallInstruction, callee *ssa.Function) binding {
	args := site.Common().Args
	if site.Common().IsInvoke() {
		args = append([]ssa.Value{site.Common().Value}, args...)
	}
	if len(args) != len(callee.Params) {
		return nil
	}
	pidx := map[ssa.Value]int{}
	for i, p := range caller.Params {
		pidx[p] = i
	}
	var out binding
	for i, a := range args {
		if bt, ok := callee.Params[i].Type().Underlying().(*types.Basic); !ok || bt.Kind() != types.Bool {
			continue
		}
		if v, ok := constBool(a); ok {
			if out == nil {
				out = binding{}
			}
			out[i] = v
			continue
		}
		if j, ok := pidx[a]; ok {
			if v, ok := callerBind[j]; ok {
				if out == nil {
					out = binding{}
				}
				out[i] = v
			}
		}
	}
	return out
}

// reachState is one node of the context-sensitive reachability graph: a function under a parameter binding.
type reachState struct {
	fn    *ssa.Function
	bind  binding
	succs []reachEdge
	index int
}

type reachEdge struct {
	to   *reachState
	site ssa.Instruction
}

func (s *reachState) name() string {
	line := FuncName(s.fn)
	if k := s.bind.key(); k != "" {
		line += " [" + k + "]"
	}
	return line
}

// boundaryFuncType reports whether a dynamic call through a value of type t leaves the module (user supplied
// code): exported function types of the module API and net/http handler funcs.
func boundaryFuncType(t types.Type) (string, bool) {
	n := namedOf(t)
	if n == nil {
		return "", false
	}
	if _, ok := n.Underlying().(*types.Signature); !ok {
		return "", false
	}
	if n.Obj().Exported() {
		return n.Obj().Name(), true
	}
	return "", false
}

// Reach explores the module-internal call graph from the given entry points and records it as a graph of
// (function, binding) states. visit is called once per live instruction of every reached state; callTarget once
// per resolved callee of each live call site.
type Reach struct {
	w        *World
	cg       *CallGraph
	States   []*reachState
	byKey    map[string]*reachState
	Boundary map[string]int
	poolNew  []*ssa.Function
}

func newReach(w *World, cg *CallGraph) *Reach {
	r := &Reach{w: w, cg: cg, byKey: map[string]*reachState{}, Boundary: map[string]int{}}
	// closures stored as sync.Pool.New: reached from (*sync.Pool).Get
	for _, fn := range w.ModuleFuncs() {
		eachInstr(fn, func(in ssa.Instruction) {
			st, ok := in.(*ssa.Store)
			if !ok {
				return
			}
			base, fld, ok := fieldOfAddr(st.Addr)
			if !ok || fld.Name() != "New" || !isNamed(base.Type(), "sync", "Pool") {
				return
			}
			switch v := st.Val.(type) {
			case *ssa.MakeClosure:
				r.poolNew = append(r.poolNew, v.Fn.(*ssa.Function))
			case *ssa.Function:
				r.poolNew = append(r.poolNew, v)
			}
		})
	}
	return r
}

func (r *Reach) state(q *[]*reachState, fn *ssa.Function, bind binding) *reachState {
	k := fmt.Sprintf("%p|%s", fn, bind.key())
	if st := r.byKey[k]; st != nil {
		return st
	}
	st := &reachState{fn: fn, bind: bind, index: len(r.States)}
	r.byKey[k] = st
	r.States = append(r.States, st)
	*q = append(*q, st)
	return st
}

// Run explores from entries and returns the entry states (same order).
func (r *Reach) Run(entries []*ssa.Function, entryBind map[*ssa.Function]binding,
	visit func(st *reachState, in ssa.Instruction),
	callTarget func(st *reachState, site ssa.CallInstruction, callee *ssa.Function)) []*reachState {
	var q []*reachState
	var roots []*reachState
	for _, e := range entries {
		roots = append(roots, r.state(&q, e, entryBind[e]))
	}
	for len(q) > 0 {
		st := q[0]
		q = q[1:]
		fn := st.fn
		live := liveBlocks(fn, st.bind)
		for _, b := range fn.Blocks {
			if !live[b] {
				continue
			}
			for _, in := range b.Instrs {
				if visit != nil {
					visit(st, in)
				}
				if mc, ok := in.(*ssa.MakeClosure); ok {
					// a closure created on the path may run on the path (returned iterators, deferred literals)
					if cf, ok := mc.Fn.(*ssa.Function); ok && r.w.InModule(cf) {
						st.succs = append(st.succs, reachEdge{r.state(&q, cf, nil), in})
					}
				}
				site, ok := in.(ssa.CallInstruction)
				if !ok {
					continue
				}
				cc := site.Common()
				if cc.StaticCallee() == nil && !cc.IsInvoke() {
					if _, isBuiltin := cc.Value.(*ssa.Builtin); isBuiltin {
						continue
					}
					// call through a function value
					if name, ok := boundaryFuncType(cc.Value.Type()); ok {
						r.Boundary["func value of exported type "+name]++
						continue
					}
					if isCallerSupplied(cc.Value) {
						r.Boundary["callback supplied by the caller ("+cc.Value.Type().String()+")"]++
						continue
					}
				}
				for _, callee := range r.cg.targets(fn, site) {
					if callTarget != nil {
						callTarget(st, site, callee)
					}
					if obj := calleeObjOf(callee); isMethodNamed(obj, "sync", "Pool", "Get") {
						for _, pn := range r.poolNew {
							st.succs = append(st.succs, reachEdge{r.state(&q, pn, nil), in})
						}
					}
					if !r.w.InModule(callee) || callee.Blocks == nil {
						continue
					}
					if cc.StaticCallee() == nil && cc.IsInvoke() {
						r.Boundary["interface method "+cc.Method.Name()+" (module implementations followed)"]++
					}
					st.succs = append(st.succs, reachEdge{r.state(&q, callee, bindArgs(fn, st.bind, site, callee)), in})
				}
			}
		}
	}
	return roots
}

// From returns every state reachable from root together with a discovery chain (for diagnostics).
func (r *Reach) From(root *reachState) (order []*reachState, chain func(*reachState) []string) {
	parent := map[*reachState]*reachState{}
	via := map[*reachState]ssa.Instruction{}
	seen := map[*reachState]bool{root: true}
	q := []*reachState{root}
	for len(q) > 0 {
		s := q[0]
		q = q[1:]
		order = append(order, s)
		for _, e := range s.succs {
			if !seen[e.to] {
				seen[e.to] = true
				parent[e.to] = s
				via[e.to] = e.site
				q = append(q, e.to)
			}
		}
	}
	chain = func(s *reachState) []string {
		var rev []string
		for x := s; x != nil; x = parent[x] {
			line := x.name()
			if in := via[x]; in != nil {
				line += "  (called at " + r.w.Pos(in.Pos()) + ")"
			}
			rev = append(rev, line)
		}
		for i, j := 0, len(rev)-1; i < j; i, j = i+1, j-1 {
			rev[i], rev[j] = rev[j], rev[i]
		}
		return rev
	}
	return
}

func calleeObjOf(fn *ssa.Function) *types.Func {
	if fn == nil {
		return nil
	}
	if o := fn.Origin(); o != nil {
		fn = o
	}
	obj, _ := fn.Object().(*types.Func)
	return obj
}

// isCallerSupplied: the called value is a parameter or a captured variable holding a parameter of an enclosing
// function (yield callbacks, fn func(*Txn) error, ...).
func isCallerSupplied(v ssa.Value) bool {
	switch x := v.(type) {
	case *ssa.Parameter:
		return true
	case *ssa.FreeVar:
		return true
	case *ssa.UnOp:
		if x.Op == token.MUL {
			if _, ok := x.X.(*ssa.FreeVar); ok {
				return true
			}
		}
	}
	return false
}
