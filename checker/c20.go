package main

import (
	"fmt"
	"go/token"
	"math"
	"sort"
	"strings"

	"golang.org/x/tools/go/ssa"
)

func init() { register("C20", checkC20) }

// loggerClosure returns the per-request closure of LoggerWithHandler (func(c Context)).
func loggerClosure(w *World) *ssa.Function {
	outer := w.Func("LoggerWithHandler")
	var inner *ssa.Function
	for _, a := range withAnon(outer) {
		if a.Parent() != nil && a.Parent().Parent() == outer {
			inner = a
		}
	}
	if inner == nil {
		anchorFail("the request closure of LoggerWithHandler")
	}
	return inner
}

func isNextCall(c *ssa.Call) bool {
	if c.Call.StaticCallee() != nil || c.Call.IsInvoke() {
		return false
	}
	v := c.Call.Value
	if u, ok := v.(*ssa.UnOp); ok && u.Op == token.MUL {
		v = u.X
	}
	fv, ok := v.(*ssa.FreeVar)
	return ok && fv.Name() == "next"
}

func isSlogEmit(c *ssa.Call) bool {
	obj := calleeObj(c)
	if obj == nil || recvNamed(obj) == nil || !isNamed(recvNamed(obj), "log/slog", "Logger") {
		return false
	}
	switch obj.Name() {
	case "LogAttrs", "Log", "Info", "Debug", "Warn", "Error", "InfoContext", "DebugContext", "WarnContext", "ErrorContext":
		return true
	}
	return false
}

func checkC20(w *World, r *Report) {
	r.Explanation = "Structure of the Logger middleware closure and of the status-to-level function: no record is emitted before the wrapped handler returns and exactly one on every path after it; the level " +
		"function uses the status only in comparisons with constants, and the interval map extracted from its guards equals 2xx->INFO, 3xx->DEBUG, 4xx->WARN, 5xx->ERROR; the Location header is read only at " +
		"DEBUG; the message is the resolver's address when it succeeds, the remote address when the error is ErrNoClientIPResolver, and the constant 'unknown' otherwise; the record carries the recorded " +
		"status, method, host and path read after the handler; the closure never recovers a panic and calls only read-only methods of the context and writer; DefaultOptions places Recovery outside Logger."
	r.NotDecided = []string{"content of the record for every handler behaviour as observed", "latency rounding", "what the slog.Handler does with the record"}
	r.Assumptions = []string{"Context and ResponseWriter accessors are side-effect free (C12/C14)"}
	fn := loggerClosure(w)
	r.Analysed(FuncName(fn))

	// ---- C20.1
	ru := r.Rule("C20.1", "one record, after the handler: the call of next dominates every log emission, and every path from entry to return passes exactly one emission", 1)
	var next *ssa.Call
	var emits []*ssa.Call
	eachInstr(fn, func(in ssa.Instruction) {
		if c, ok := in.(*ssa.Call); ok {
			if isNextCall(c) {
				next = c
			}
			if isSlogEmit(c) {
				emits = append(emits, c)
			}
		}
	})
	if next == nil {
		ru.Fail("next(c)", w.Pos(fn.Pos()), "the middleware calls the wrapped handler", "no call of next")
		return
	}
	for _, e := range emits {
		ru.Check("log emission", w.Pos(e.Pos()), "dominated by the call of next (emitted after the handler)", instrDominates(next, e), "")
	}
	// count emissions per path
	counts := map[*ssa.BasicBlock]map[int]bool{fn.Blocks[0]: {0: true}}
	work := []*ssa.BasicBlock{fn.Blocks[0]}
	bad := ""
	nret := 0
	for len(work) > 0 {
		b := work[0]
		work = work[1:]
		for n0 := range counts[b] {
			n := n0
			for _, in := range b.Instrs {
				if c, ok := in.(*ssa.Call); ok && isSlogEmit(c) && n < 2 {
					n++
				}
				if ret, ok := in.(*ssa.Return); ok {
					nret++
					if n != 1 {
						bad = fmt.Sprintf("a return at %s is reached with %d record(s) emitted", w.InstrPos(ret), n)
					}
				}
			}
			for _, s := range b.Succs {
				if counts[s] == nil {
					counts[s] = map[int]bool{}
				}
				if !counts[s][n] {
					counts[s][n] = true
					work = append(work, s)
				}
			}
		}
	}
	ru.Check("records per request", w.Pos(fn.Pos()), "exactly one emission on every path", bad == "" && nret > 0 && len(emits) > 0, orDefault(bad, fmt.Sprintf("%d emission site(s), one per path", len(emits))))

	checkC20Level(w, r, fn, emits)
	checkC20Message(w, r, fn, emits)
	checkC20Observes(w, r, fn, next, emits)
	checkC20Wiring(w, r)
	// the message is the router-wide resolver's answer in special handlers only if those see no route (rule C11.1)
	checkScrubRule(w, r, analyseDispatch(w), "C20.6")
	// "the response status actually recorded" is the status the client got only if the recorder keeps to its header
	// discipline (rules C14.2 and C14.3, repeated here)
	ri := newRecInfo(w)
	checkC14HeaderAs(w, r, ri, "C20.7")
	checkC14PathsAs(w, r, ri, "C20.8")
}

type ivl struct{ lo, hi int64 }

func checkC20Level(w *World, r *Report, logger *ssa.Function, emits []*ssa.Call) {
	ru := r.Rule("C20.2", "status -> level: the level function compares its argument only with constants; the interval map extracted from its guards is [200,300)->INFO, [300,400)->DEBUG, [400,500)->WARN, [500,600)->ERROR; the Location header is read only when the level is DEBUG; the record's level is level(recorded status)", 3)
	lv := w.Func("level")
	r.Analysed(FuncName(lv))
	param := ssa.Value(lv.Params[0])
	// the parameter is used only in comparisons with constants
	pure := true
	if refs := lv.Params[0].Referrers(); refs != nil {
		for _, ref := range *refs {
			bo, ok := ref.(*ssa.BinOp)
			if !ok {
				pure = false
				continue
			}
			if _, isC := bo.Y.(*ssa.Const); !isC || bo.X != param {
				pure = false
			}
		}
	}
	ru.Check("uses of status in level()", w.Pos(lv.Pos()), "only comparisons with constants", pure, fmt.Sprint(pure))
	// enumerate paths
	type seg struct {
		iv  ivl
		lvl int64
	}
	var segs []seg
	undecided := ""
	var walk func(b *ssa.BasicBlock, iv ivl, seen map[*ssa.BasicBlock]bool)
	walk = func(b *ssa.BasicBlock, iv ivl, seen map[*ssa.BasicBlock]bool) {
		if iv.lo > iv.hi {
			return
		}
		if len(b.Instrs) > 0 {
			if ret, ok := b.Instrs[len(b.Instrs)-1].(*ssa.Return); ok {
				k, isK := constInt(ret.Results[0])
				if !isK {
					// phi of constants: resolve through the predecessor is not needed when returns are direct
					undecided = "level() returns a non-constant at " + w.InstrPos(ret)
					return
				}
				segs = append(segs, seg{iv, k})
				return
			}
		}
		if seen[b] {
			undecided = "loop in level()"
			return
		}
		seen[b] = true
		defer delete(seen, b)
		if len(b.Succs) == 2 {
			f, ok := edgeFact(b, b.Succs[0])
			bo, isBin := f.Cond.(*ssa.BinOp)
			k, isK := int64(0), false
			if isBin {
				k, isK = constInt(bo.Y)
			}
			if !ok || !isBin || bo.X != param || !isK {
				undecided = "a branch of level() at " + w.InstrPos(b.Instrs[len(b.Instrs)-1]) + " is not a comparison of the status with a constant"
				return
			}
			tr, fl := iv, iv
			switch bo.Op {
			case token.GEQ:
				tr.lo, fl.hi = max(tr.lo, k), min(fl.hi, k-1)
			case token.GTR:
				tr.lo, fl.hi = max(tr.lo, k+1), min(fl.hi, k)
			case token.LSS:
				tr.hi, fl.lo = min(tr.hi, k-1), max(fl.lo, k)
			case token.LEQ:
				tr.hi, fl.lo = min(tr.hi, k), max(fl.lo, k+1)
			default:
				undecided = "unsupported comparison " + bo.Op.String() + " in level()"
				return
			}
			if !f.Val {
				tr, fl = fl, tr
			}
			walk(b.Succs[0], tr, seen)
			walk(b.Succs[1], fl, seen)
			return
		}
		for _, s := range b.Succs {
			walk(s, iv, seen)
		}
	}
	walk(lv.Blocks[0], ivl{math.MinInt32, math.MaxInt32}, map[*ssa.BasicBlock]bool{})
	if undecided != "" {
		ru.Fail("interval map of level()", w.Pos(lv.Pos()), "decidable by interval algebra", "UNDECIDED: "+undecided)
	} else {
		names := map[int64]string{0: "INFO", -4: "DEBUG", 4: "WARN", 8: "ERROR"}
		want := []struct {
			iv  ivl
			lvl int64
		}{{ivl{200, 299}, 0}, {ivl{300, 399}, -4}, {ivl{400, 499}, 4}, {ivl{500, 599}, 8}}
		sort.Slice(segs, func(i, j int) bool { return segs[i].iv.lo < segs[j].iv.lo })
		var desc []string
		for _, s := range segs {
			desc = append(desc, fmt.Sprintf("[%d,%d]->%s", s.iv.lo, s.iv.hi, orDefault(names[s.lvl], fmt.Sprint(s.lvl))))
		}
		for _, wt := range want {
			// every status of the class must fall in segments with the wanted level
			ok := true
			cover := wt.iv.lo
			for _, s := range segs {
				lo, hi := max(s.iv.lo, wt.iv.lo), min(s.iv.hi, wt.iv.hi)
				if lo > hi {
					continue
				}
				if s.lvl != wt.lvl {
					ok = false
				}
				if lo == cover {
					cover = hi + 1
				}
			}
			if cover <= wt.iv.hi {
				ok = false
			}
			ru.Check(fmt.Sprintf("class %d..%d", wt.iv.lo, wt.iv.hi), w.Pos(lv.Pos()), "maps to "+names[wt.lvl], ok, strings.Join(desc, " "))
		}
	}
	// level argument of each emission = level(Status())
	for _, e := range emits {
		ok := false
		for _, a := range e.Call.Args {
			if c, isCall := stripIface(a).(*ssa.Call); isCall && c.Call.StaticCallee() == lv {
				if sc, isCall := c.Call.Args[0].(*ssa.Call); isCall && sc.Common().IsInvoke() && sc.Common().Method.Name() == "Status" {
					ok = true
				}
			}
		}
		ru.Check("level of the record", w.Pos(e.Pos()), "the record's level is level(c.Writer().Status())", ok, fmt.Sprint(ok))
	}
	// Location read only under DEBUG
	eachInstr(logger, func(in ssa.Instruction) {
		c, ok := in.(*ssa.Call)
		if !ok || !isMethodNamed(calleeObj(c), "net/http", "Header", "Get") {
			return
		}
		if k, ok := constString(c.Call.Args[1]); !ok || k != "Location" {
			return
		}
		dbg := false
		for _, f := range factsAtBlock(c.Block()) {
			if bo, ok := f.Cond.(*ssa.BinOp); ok && bo.Op == token.EQL && f.Val {
				if k, ok := constInt(bo.Y); ok && k == -4 {
					dbg = true
				}
			}
		}
		ru.Check("Location attribute", w.Pos(c.Pos()), "the Location header is read only when the level is DEBUG (3xx)", dbg, fmt.Sprint(dbg))
	})
}

func checkC20Message(w *World, r *Report, fn *ssa.Function, emits []*ssa.Call) {
	ru := r.Rule("C20.3", "message fallback: the message is the resolved client IP when the resolver returns no error, the remote IP when the error is ErrNoClientIPResolver, and the constant \"unknown\" otherwise", 2)
	// the message argument of LogAttrs is args[3] (recv, ctx, level, msg, attrs...)
	for _, e := range emits {
		if len(e.Call.Args) < 4 {
			continue
		}
		// the choice is a phi in the closure, or made by the returns of a helper of the module (ipStr := clientAddr(c))
		type msgCase struct {
			facts []Fact
			val   ssa.Value
		}
		var cases []msgCase
		if msg, ok := e.Call.Args[3].(*ssa.Phi); ok {
			for i, edge := range msg.Edges {
				cases = append(cases, msgCase{factsOnEdge(msg.Block().Preds[i], msg.Block()), edge})
			}
		} else if hc, ok := e.Call.Args[3].(*ssa.Call); ok && hc.Call.StaticCallee() != nil && w.InModule(hc.Call.StaticCallee()) && len(hc.Call.StaticCallee().Blocks) > 0 {
			eachInstr(hc.Call.StaticCallee(), func(in ssa.Instruction) {
				if rt, ok := in.(*ssa.Return); ok && len(rt.Results) == 1 {
					cases = append(cases, msgCase{factsAtBlock(rt.Block()), rt.Results[0]})
				}
			})
		}
		if len(cases) == 0 {
			ru.Fail("message of the record", w.Pos(e.Pos()), "a three-way choice", "message is "+valStr(e.Call.Args[3]))
			continue
		}
		seen := map[string]bool{}
		type caseVerdict struct {
			ok   bool
			what string
		}
		verdict := map[string]caseVerdict{}
		var order []string
		for _, mc := range cases {
			facts, edge := mc.facts, mc.val
			errNil, isNoResolver, known := false, false, false
			for _, f := range facts {
				if bo, ok := f.Cond.(*ssa.BinOp); ok && isNilConst(bo.Y) && isErrorType(bo.X.Type()) {
					known = true
					errNil = (bo.Op == token.EQL && f.Val) || (bo.Op == token.NEQ && !f.Val)
				}
				if c, ok := f.Cond.(*ssa.Call); ok && isFuncNamed(calleeObj(c), "errors", "Is") {
					if isLoadOfGlobal(c.Call.Args[1], "ErrNoClientIPResolver") {
						isNoResolver = f.Val
					}
				}
			}
			what := "?"
			if s, ok := constString(edge); ok {
				what = "const:" + s
			} else if c, ok := edge.(*ssa.Call); ok && calleeObj(c) != nil && calleeObj(c).Name() == "String" {
				if src, ok := c.Call.Args[0].(*ssa.Call); ok && src.Common().IsInvoke() {
					what = "call:" + src.Common().Method.Name()
				} else if ex, ok := c.Call.Args[0].(*ssa.Extract); ok {
					if src, ok := ex.Tuple.(*ssa.Call); ok && src.Common().IsInvoke() {
						what = "call:" + src.Common().Method.Name()
					}
				}
			}
			var okk bool
			var name string
			switch {
			case known && errNil:
				name, okk = "resolver succeeded", what == "call:ClientIP"
			case isNoResolver:
				name, okk = "no resolver configured", what == "call:RemoteIP"
			default:
				name, okk = "resolution failed", what == "const:unknown"
			}
			// several edges may fall into one case: all of them must carry the right value
			if prev, dup := verdict[name]; dup {
				if prev.ok && !okk {
					verdict[name] = caseVerdict{false, what}
				}
				continue
			}
			seen[name] = true
			order = append(order, name)
			verdict[name] = caseVerdict{okk, what}
		}
		for _, name := range []string{"resolver succeeded", "no resolver configured", "resolution failed"} {
			v, present := verdict[name]
			want := map[string]string{"resolver succeeded": "ClientIP().String()", "no resolver configured": "RemoteIP().String()", "resolution failed": "\"unknown\""}[name]
			if !present {
				ru.Fail("message when "+name, w.Pos(e.Pos()), want, "this case is not distinguished: no branch of the message choice is taken under it")
				continue
			}
			ru.Check("message when "+name, w.Pos(e.Pos()), want, v.ok, v.what)
		}
		_ = order
		break // both emission sites share the same message value
	}
}

func checkC20Observes(w *World, r *Report, fn *ssa.Function, next *ssa.Call, emits []*ssa.Call) {
	ru := r.Rule("C20.4", "observes only: the closure never calls recover, calls only read-only methods of the context and its writer, reads the status after the handler, and labels the record's status/method/host/path attributes with the values of the matching accessors", 3)
	readOnly := map[string]bool{"Request": true, "Writer": true, "Status": true, "Header": true, "ClientIP": true, "RemoteIP": true, "Method": true, "Host": true, "Path": true, "Context": true, "Level": true, "String": true, "Written": true, "Size": true}
	bad := ""
	for _, g := range withAnon(fn) {
		eachInstr(g, func(in ssa.Instruction) {
			site, ok := in.(ssa.CallInstruction)
			if !ok {
				return
			}
			cc := site.Common()
			if b, ok := cc.Value.(*ssa.Builtin); ok && b.Name() == "recover" {
				bad = "recover() at " + w.Pos(in.Pos())
			}
			if cc.IsInvoke() && !readOnly[cc.Method.Name()] {
				bad = "call of " + cc.Method.Name() + " at " + w.Pos(in.Pos())
			}
			if _, isDefer := in.(*ssa.Defer); isDefer {
				bad = "defer at " + w.Pos(in.Pos()) + " (could intercept a panic passing through)"
			}
		})
	}
	ru.Check("calls of the logger closure", w.Pos(fn.Pos()), "no recover/defer, only read-only accessors of Context and ResponseWriter", bad == "", orDefault(bad, "read-only"))
	eachInstr(fn, func(in ssa.Instruction) {
		c, ok := in.(*ssa.Call)
		if ok && c.Common().IsInvoke() && (c.Common().Method.Name() == "Status" || c.Common().Method.Name() == "Header") {
			// the writer itself has to be fetched after the handler too: a handler may install another writer (SetWriter)
			why := ""
			if !instrDominates(next, c) {
				why = "read before the handler ran"
			} else if wr, isCall := c.Common().Value.(*ssa.Call); !isCall || !wr.Common().IsInvoke() || wr.Common().Method.Name() != "Writer" {
				why = "the receiver is not a fresh c.Writer()"
			} else if !instrDominates(next, wr) {
				why = "the writer was fetched at " + w.Pos(wr.Pos()) + ", before the handler ran (a handler may replace the writer)"
			}
			ru.Check("read of the "+strings.ToLower(c.Common().Method.Name())+" of the response", w.Pos(c.Pos()), "status and headers are read, after the handler returned, from the writer the context holds then", why == "", orDefault(why, "c.Writer() evaluated after next"))
		}
	})
	want := map[string]string{"status": "Status", "method": "Method", "host": "Host", "path": "Path"}
	for _, e := range emits {
		got := map[string]string{}
		// attrs are built by slog.Int / slog.String calls stored into the varargs array
		eachInstr(fn, func(in ssa.Instruction) {
			c, ok := in.(*ssa.Call)
			if !ok || !instrDominates(c, e) || c.Block() != e.Block() {
				return
			}
			obj := calleeObj(c)
			if !(isFuncNamed(obj, "log/slog", "Int") || isFuncNamed(obj, "log/slog", "String")) {
				return
			}
			key, _ := constString(c.Call.Args[0])
			if src, ok := c.Call.Args[1].(*ssa.Call); ok && src.Common().IsInvoke() {
				got[key] = src.Common().Method.Name()
			} else {
				got[key] = valStr(c.Call.Args[1])
			}
		})
		ok := true
		for k, v := range want {
			if got[k] != v {
				ok = false
			}
		}
		ru.Check("attributes of the record", w.Pos(e.Pos()), "status=Status(), method=Method(), host=Host(), path=Path()", ok, fmt.Sprint(got))
	}
}

func checkC20Wiring(w *World, r *Report) {
	ru := r.Rule("C20.5", "wiring: DefaultOptions registers Recovery (route scope) at position 0 and Logger (all scopes) at position 1 of a list prepended to the router's middleware", 1)
	def := w.Func("DefaultOptions")
	for _, e := range collectMwEntries(w) {
		if e.fn.Parent() != def {
			continue
		}
		name := "?"
		if c, ok := e.m.(*ssa.Call); ok && c.Call.StaticCallee() != nil {
			name = c.Call.StaticCallee().Name()
		}
		want := map[int64]string{0: "Recovery", 1: "Logger"}[e.index]
		ru.Check(fmt.Sprintf("DefaultOptions entry %d", e.index), w.Pos(e.pos), want+" at this position, list prepended", name == want && e.first, fmt.Sprintf("%s prepended=%v", name, e.first))
	}
}
