package main

import (
	"fmt"
	"go/token"
	"go/types"
	"sort"

	"golang.org/x/tools/go/ssa"
)

// P-OWN: ownership of radix-tree storage.
//
// A node reachable from a published root must never be written. The transaction code writes nodes and child
// arrays in place only when they are private to the running transaction. The analysis assigns every SSA value of
// type *node or []*node a level:
//
//	lvShared  (0) may be reachable from an older root
//	lvShallow (1) the node struct is private, its children array may be shared with another node
//	lvDeep    (2) node struct and children array are private (for slices: the backing array is private; nil counts)
//
// optionally symbolic in a parameter (dep k): "lvDeep when argument k is lvDeep, otherwise L". Levels of phis are the
// meet over feasible incoming edges (edges whose branch facts contradict the facts at the point of use are ignored; an
// edge on which the value is known nil contributes lvDeep; an edge taken because writable.Get(v) returned ok makes v
// lvDeep: the cache only holds deep-private nodes, rule C03.3a). Functions get summaries: the level of their results
// (per field for struct results) and requirements on their parameters (a function writing through a parameter requires
// its callers to pass private storage). Everything not recognised is lvShared: the analysis fails closed.

const (
	lvShared  = 0
	lvShallow = 1
	lvDeep    = 2
)

type level struct {
	L   int
	Dep int // parameter index the level depends on, -1 if none
}

var (
	topLevel    = level{lvDeep, -1}
	sharedLevel = level{lvShared, -1}
)

func (l level) String() string {
	s := [...]string{"shared", "private-shallow", "private"}[l.L]
	if l.Dep >= 0 {
		s += fmt.Sprintf(" (private if argument %d is)", l.Dep)
	}
	return s
}

func meet(a, b level) level {
	if a.L == lvDeep && a.Dep < 0 {
		return b
	}
	if b.L == lvDeep && b.Dep < 0 {
		return a
	}
	out := level{L: min(a.L, b.L), Dep: -1}
	switch {
	case a.Dep == b.Dep:
		out.Dep = a.Dep
	case a.L == lvDeep: // a is certainly private, b decides
		out.Dep = b.Dep
	case b.L == lvDeep:
		out.Dep = a.Dep
	}
	return out
}

type requirement struct {
	level int
	why   string // the write that needs it
	pos   token.Pos
}

type ownSummary struct {
	ret    []level          // per result (tracked results only, others top)
	fields map[string]level // struct results: level per field name
	req    map[int]requirement
}

type Own struct {
	w        *World
	nodeT    *types.Named
	lruT     *types.Named // simplelru.LRU
	sums     map[*ssa.Function]*ownSummary
	inProg   map[*ssa.Function]bool
	levels   map[*ssa.Function]map[ssa.Value]level
	sites    []ownSite // every write site found, for the inventory
	siteSeen map[ssa.Instruction]bool
}

// ownSite is one construct that writes tracked storage, with the verdict.
type ownSite struct {
	fn    *ssa.Function
	in    ssa.Instruction
	what  string // description of the write
	value ssa.Value
	need  int
	have  level
	ok    bool
	via   string // "delegated to callers via parameter k" etc.
}

func newOwn(w *World) *Own {
	o := &Own{w: w, nodeT: w.FoxType("node"), sums: map[*ssa.Function]*ownSummary{}, inProg: map[*ssa.Function]bool{},
		levels: map[*ssa.Function]map[ssa.Value]level{}, siteSeen: map[ssa.Instruction]bool{}}
	o.lruT = w.NamedType(modulePath+"/internal/simplelru", "LRU")
	return o
}

func (o *Own) isNodePtr(t types.Type) bool {
	p, ok := types.Unalias(t).Underlying().(*types.Pointer)
	return ok && namedOf(p.Elem()) == o.nodeT && !isPointer(p.Elem())
}

func (o *Own) isNodeSlice(t types.Type) bool {
	s, ok := types.Unalias(t).Underlying().(*types.Slice)
	return ok && o.isNodePtr(s.Elem())
}

func (o *Own) tracked(t types.Type) bool { return o.isNodePtr(t) || o.isNodeSlice(t) }

// nodeField: v loads field f of a node (v = *(&x.f)); returns x and field name.
func (o *Own) nodeFieldLoad(v ssa.Value) (ssa.Value, string, bool) {
	base, f, ok := loadedField(v)
	if !ok || namedOf(base.Type()) != o.nodeT {
		return nil, "", false
	}
	return base, f.Name(), true
}

func (o *Own) isLRUCall(site ssa.CallInstruction, name string) bool {
	obj := calleeObj(site)
	if obj == nil || obj.Name() != name {
		return false
	}
	n := recvNamed(obj)
	return n != nil && n.Origin() == o.lruT.Origin()
}

// ---- levels ----------------------------------------------------------------------------------------------------

// funcLevels computes the level of every tracked value of fn (iterating phis down from top to the greatest fixpoint).
func (o *Own) funcLevels(fn *ssa.Function) map[ssa.Value]level {
	if m, ok := o.levels[fn]; ok {
		return m
	}
	m := map[ssa.Value]level{}
	o.levels[fn] = m
	var vals []ssa.Value
	for _, b := range fn.Blocks {
		for _, in := range b.Instrs {
			if v, ok := in.(ssa.Value); ok && (o.tracked(v.Type()) || o.isTrackedStruct(v.Type())) {
				vals = append(vals, v)
				m[v] = topLevel
			}
		}
	}
	for iter := 0; iter < 20; iter++ {
		changed := false
		for _, v := range vals {
			nv := o.transfer(fn, v, m)
			if nv != m[v] {
				m[v] = nv
				changed = true
			}
		}
		if !changed {
			break
		}
	}
	return m
}

func (o *Own) isTrackedStruct(t types.Type) bool { return false }

// lvl returns the level of v as seen by instruction `at` (facts at that point sharpen it).
func (o *Own) lvl(fn *ssa.Function, v ssa.Value, m map[ssa.Value]level) level {
	switch x := v.(type) {
	case *ssa.Const:
		return topLevel // nil
	case *ssa.Parameter:
		for i, p := range fn.Params {
			if p == x {
				return level{lvShared, i}
			}
		}
		return sharedLevel
	case *ssa.FreeVar, *ssa.Global:
		return sharedLevel
	}
	if l, ok := m[v]; ok {
		return l
	}
	return sharedLevel
}

// lvlWithFacts sharpens the level of v with the branch facts known at the point of use: a dominating
// `writable.Get(v)` that returned ok, or v == nil; for a phi, incoming edges whose own facts contradict the facts at
// the use are infeasible for this use and are left out of the meet (the conditions involved must be computed outside
// any loop, so that the edge and the use see the same evaluation).
func (o *Own) lvlWithFacts(fn *ssa.Function, v ssa.Value, facts []Fact, m map[ssa.Value]level) level {
	for _, f := range facts {
		if o.factMakesPrivate(f, v) {
			return topLevel
		}
	}
	if phi, ok := v.(*ssa.Phi); ok && len(facts) > 0 {
		out := topLevel
		pruned := false
		for i, e := range phi.Edges {
			pred := phi.Block().Preds[i]
			ef := factsOnEdge(pred, phi.Block())
			if contradictsStable(ef, facts) {
				pruned = true
				continue
			}
			el := o.lvl(fn, e, m)
			for _, f := range ef {
				if o.factMakesPrivate(f, e) {
					el = topLevel
				}
			}
			out = meet(out, el)
		}
		if pruned {
			return out
		}
	}
	return o.lvl(fn, v, m)
}

// contradictsStable: like contradicts, restricted to conditions defined outside loops.
func contradictsStable(a, b []Fact) bool {
	for _, x := range a {
		for _, y := range b {
			if x.Val != y.Val && sameCond(x.Cond, y.Cond) {
				if in, ok := x.Cond.(ssa.Instruction); ok {
					if blk := in.Block(); blk != nil && blockReach(blk, false)[blk] {
						continue
					}
				}
				return true
			}
		}
	}
	return false
}

func (o *Own) factMakesPrivate(f Fact, v ssa.Value) bool {
	// v == nil
	if bo, ok := f.Cond.(*ssa.BinOp); ok {
		x, y := bo.X, bo.Y
		if isNilConst(x) {
			x, y = y, x
		}
		if isNilConst(y) && x == v {
			if (bo.Op == token.EQL && f.Val) || (bo.Op == token.NEQ && !f.Val) {
				return true
			}
		}
	}
	// _, ok := writable.Get(v); ok
	if ex, ok := f.Cond.(*ssa.Extract); ok && ex.Index == 1 && f.Val {
		if c, ok := ex.Tuple.(*ssa.Call); ok && o.isLRUCall(c, "Get") {
			if args := callArgs(c); len(args) == 2 && args[1] == v {
				return true
			}
		}
	}
	return false
}

func (o *Own) transfer(fn *ssa.Function, v ssa.Value, m map[ssa.Value]level) level {
	switch x := v.(type) {
	case *ssa.Alloc:
		if x.Heap && namedOf(x.Type()) == o.nodeT && o.isNodePtr(x.Type()) {
			return o.nodeAllocLevel(fn, x, m)
		}
		return sharedLevel
	case *ssa.MakeSlice:
		return topLevel
	case *ssa.ChangeType:
		return o.lvl(fn, x.X, m)
	case *ssa.Slice:
		// slicing a local array (composite literal / make lowered to array) is fresh
		if a, ok := x.X.(*ssa.Alloc); ok {
			if _, isArr := derefType(a.Type()).Underlying().(*types.Array); isArr {
				return topLevel
			}
		}
		return o.lvl(fn, x.X, m)
	case *ssa.Phi:
		out := topLevel
		useFacts := factsAtBlock(x.Block())
		_ = useFacts
		for i, e := range x.Edges {
			pred := x.Block().Preds[i]
			ef := factsOnEdge(pred, x.Block())
			el := o.lvl(fn, e, m)
			for _, f := range ef {
				if o.factMakesPrivate(f, e) {
					el = topLevel
				}
			}
			out = meet(out, el)
		}
		return out
	case *ssa.Call:
		return o.callLevel(fn, x, m, 0)
	case *ssa.Extract:
		if c, ok := x.Tuple.(*ssa.Call); ok {
			return o.callLevel(fn, c, m, x.Index)
		}
		return sharedLevel
	case *ssa.UnOp:
		if x.Op != token.MUL {
			return sharedLevel
		}
		// load of a field of a node
		if base, fname, ok := o.nodeFieldLoad(x); ok {
			if fname == "children" {
				bl := o.lvlWithFacts(fn, base, factsAtBlock(x.Block()), m)
				if bl.L == lvDeep {
					return bl
				}
				return level{lvShared, bl.Dep}
			}
			return sharedLevel
		}
		// load of a field of a struct-valued call result kept in a local (result.p, result.pp ...)
		if fa, ok := x.X.(*ssa.FieldAddr); ok {
			if a, ok := fa.X.(*ssa.Alloc); ok {
				if l, ok := o.structSlotLevel(fn, a, fa, m); ok {
					return l
				}
			}
		}
		// slot forwarding: nr[i] = new(node); nr[i].f = ...
		if ia, ok := x.X.(*ssa.IndexAddr); ok {
			if val := forwardedSlot(x, ia); val != nil {
				return o.lvl(fn, val, m)
			}
		}
		// load of a single-assignment local cell
		if s := seeThrough(x); s != ssa.Value(x) {
			return o.lvl(fn, s, m)
		}
		return sharedLevel
	}
	return sharedLevel
}

// nodeAllocLevel: the level of a freshly allocated node struct: deep when its children field is only ever assigned
// private slices.
func (o *Own) nodeAllocLevel(fn *ssa.Function, a *ssa.Alloc, m map[ssa.Value]level) level {
	out := topLevel
	refs := a.Referrers()
	if refs == nil {
		return level{lvShallow, -1}
	}
	for _, ref := range *refs {
		fa, ok := ref.(*ssa.FieldAddr)
		if !ok {
			continue
		}
		_, f, _ := fieldOfAddr(fa)
		if f.Name() != "children" {
			continue
		}
		if frefs := fa.Referrers(); frefs != nil {
			for _, fr := range *frefs {
				if st, ok := fr.(*ssa.Store); ok && st.Addr == ssa.Value(fa) {
					cl := o.lvl(fn, st.Val, m)
					if cl.L == lvDeep && cl.Dep < 0 {
						continue
					}
					out = meet(out, level{lvShallow, cl.Dep})
				}
			}
		}
	}
	return out
}

// forwardedSlot: load is *(&s[i]); if the same block earlier stores into &s[i] (same slice and index values) with no
// call or other element store of s in between, returns the stored value.
func forwardedSlot(load *ssa.UnOp, ia *ssa.IndexAddr) ssa.Value {
	b := load.Block()
	idx := instrIndex(load)
	for i := idx - 1; i >= 0; i-- {
		switch y := b.Instrs[i].(type) {
		case *ssa.Store:
			if sa, ok := y.Addr.(*ssa.IndexAddr); ok && sa.X == ia.X {
				if sa.Index == ia.Index {
					return y.Val
				}
				return nil
			}
		case ssa.CallInstruction:
			return nil
		}
	}
	return nil
}

// structSlotLevel: a local struct variable assigned exactly once from a call whose struct result has a summary
// (result := t.copyOnWriteSearch(...); result.p).
func (o *Own) structSlotLevel(fn *ssa.Function, a *ssa.Alloc, fa *ssa.FieldAddr, m map[ssa.Value]level) (level, bool) {
	refs := a.Referrers()
	if refs == nil {
		return level{}, false
	}
	var src *ssa.Call
	for _, ref := range *refs {
		switch r := ref.(type) {
		case *ssa.Store:
			if r.Addr != ssa.Value(a) {
				continue
			}
			c, ok := r.Val.(*ssa.Call)
			if !ok || src != nil {
				return level{}, false
			}
			src = c
		case *ssa.FieldAddr:
			// field stores into the local invalidate the summary
			if fr := r.Referrers(); fr != nil {
				for _, x := range *fr {
					if st, ok := x.(*ssa.Store); ok && st.Addr == ssa.Value(r) {
						return level{}, false
					}
				}
			}
		}
	}
	if src == nil {
		return level{}, false
	}
	callee := src.Call.StaticCallee()
	if callee == nil || !o.w.InModule(callee) {
		return level{}, false
	}
	sum := o.summary(callee)
	_, f, _ := fieldOfAddr(fa)
	l, ok := sum.fields[f.Name()]
	if !ok {
		return level{}, false
	}
	return o.instantiate(fn, l, src, m), true
}

// instantiate maps a callee-relative level (dep = callee parameter) to the caller's view at a call site.
func (o *Own) instantiate(fn *ssa.Function, l level, site ssa.CallInstruction, m map[ssa.Value]level) level {
	if l.Dep < 0 {
		return l
	}
	args := callArgs(site)
	if l.Dep >= len(args) {
		return level{l.L, -1}
	}
	al := o.lvlWithFacts(fn, args[l.Dep], factsAtBlock(site.Block()), m)
	if al.L == lvDeep && al.Dep < 0 {
		return topLevel
	}
	return level{l.L, al.Dep}
}

func (o *Own) callLevel(fn *ssa.Function, c *ssa.Call, m map[ssa.Value]level, result int) level {
	if b, ok := c.Call.Value.(*ssa.Builtin); ok {
		if b.Name() == "append" {
			return o.lvl(fn, c.Call.Args[0], m)
		}
		return sharedLevel
	}
	callee := c.Call.StaticCallee()
	if callee == nil {
		return sharedLevel
	}
	obj := calleeObjOf(callee)
	if isFuncNamed(obj, "slices", "Clone") {
		return topLevel
	}
	if !o.w.InModule(callee) || callee.Blocks == nil {
		return sharedLevel
	}
	sum := o.summary(callee)
	if result >= len(sum.ret) {
		return sharedLevel
	}
	return o.instantiate(fn, sum.ret[result], c, m)
}

// ---- summaries -------------------------------------------------------------------------------------------------

func (o *Own) summary(fn *ssa.Function) *ownSummary {
	if s, ok := o.sums[fn]; ok {
		return s
	}
	if o.inProg[fn] {
		// recursion: optimistic
		res := fn.Signature.Results()
		s := &ownSummary{fields: map[string]level{}, req: map[int]requirement{}}
		for i := 0; i < res.Len(); i++ {
			s.ret = append(s.ret, topLevel)
		}
		return s
	}
	o.inProg[fn] = true
	defer func() { o.inProg[fn] = false }()
	m := o.funcLevels(fn)
	res := fn.Signature.Results()
	s := &ownSummary{fields: map[string]level{}, req: map[int]requirement{}}
	for i := 0; i < res.Len(); i++ {
		s.ret = append(s.ret, topLevel)
	}
	firstRet := true
	eachInstr(fn, func(in ssa.Instruction) {
		ret, ok := in.(*ssa.Return)
		if !ok {
			return
		}
		for i, rv := range ret.Results {
			switch {
			case o.isNodePtr(rv.Type()):
				s.ret[i] = meet(s.ret[i], o.nodeValueLevel(fn, rv, factsAtBlock(ret.Block()), m))
			case o.isNodeSlice(rv.Type()):
				s.ret[i] = meet(s.ret[i], o.lvlWithFacts(fn, rv, factsAtBlock(ret.Block()), m))
			default:
				// struct result holding nodes: per-field levels from the composite literal it is loaded from
				if u, ok := rv.(*ssa.UnOp); ok && u.Op == token.MUL {
					if a, ok := u.X.(*ssa.Alloc); ok {
						fl := o.structLiteralFields(fn, a, m)
						for k, v := range fl {
							if firstRet {
								s.fields[k] = v
							} else if old, ok := s.fields[k]; ok {
								s.fields[k] = meet(old, v)
							}
						}
					}
				}
			}
		}
		firstRet = false
	})
	o.sums[fn] = s
	// requirements are collected by the write-site scan
	o.scanWrites(fn, m, s)
	return s
}

// nodeValueLevel: level of a *node value, recognising fresh allocations.
func (o *Own) nodeValueLevel(fn *ssa.Function, v ssa.Value, facts []Fact, m map[ssa.Value]level) level {
	if a, ok := v.(*ssa.Alloc); ok && a.Heap && namedOf(a.Type()) == o.nodeT {
		return o.nodeAllocLevel(fn, a, m)
	}
	return o.lvlWithFacts(fn, v, facts, m)
}

func (o *Own) structLiteralFields(fn *ssa.Function, a *ssa.Alloc, m map[ssa.Value]level) map[string]level {
	out := map[string]level{}
	refs := a.Referrers()
	if refs == nil {
		return out
	}
	for _, ref := range *refs {
		fa, ok := ref.(*ssa.FieldAddr)
		if !ok {
			continue
		}
		_, f, _ := fieldOfAddr(fa)
		if !o.tracked(f.Type()) {
			continue
		}
		l := topLevel
		n := 0
		if fr := fa.Referrers(); fr != nil {
			for _, x := range *fr {
				if st, ok := x.(*ssa.Store); ok && st.Addr == ssa.Value(fa) {
					n++
					l = meet(l, o.nodeValueLevel(fn, st.Val, factsAtBlock(st.Block()), m))
				}
			}
		}
		if n > 0 {
			out[f.Name()] = l
		}
	}
	return out
}

// ---- write sites -----------------------------------------------------------------------------------------------

var inPlaceFuncs = map[string]map[string]bool{
	"slices": {"Sort": true, "SortFunc": true, "SortStableFunc": true, "Reverse": true, "Insert": true, "Delete": true, "DeleteFunc": true, "Compact": true, "CompactFunc": true, "Replace": true},
	"sort":   {"Slice": true, "SliceStable": true, "Sort": true, "Stable": true},
}

// scanWrites finds every construct of fn that writes node storage, judges it, and records requirements on fn's
// parameters where the written storage is a parameter.
func (o *Own) scanWrites(fn *ssa.Function, m map[ssa.Value]level, s *ownSummary) {
	need := func(in ssa.Instruction, what string, v ssa.Value, needL int, have level) {
		site := ownSite{fn: fn, in: in, what: what, value: v, need: needL, have: have}
		switch {
		case have.L >= needL:
			site.ok = true
		case have.Dep >= 0:
			// delegated: callers must pass private storage
			old, exists := s.req[have.Dep]
			if !exists || old.level < needL {
				s.req[have.Dep] = requirement{needL, what, in.Pos()}
			}
			site.ok = true
			site.via = fmt.Sprintf("obligation passed to the callers: argument %d must be %s", have.Dep, level{needL, -1})
		}
		o.sites = append(o.sites, site)
	}
	for _, b := range fn.Blocks {
		facts := factsAtBlock(b)
		for _, in := range b.Instrs {
			switch x := in.(type) {
			case *ssa.Store:
				// (a) store to a field of a node
				if base, f, ok := fieldOfAddr(x.Addr); ok && namedOf(base.Type()) == o.nodeT {
					if a, isAlloc := base.(*ssa.Alloc); isAlloc && a.Heap {
						continue // initialisation of a node allocated here: its level is judged where it is used
					}
					need(in, "store to node."+f.Name(), base, lvShallow, o.nodeValueLevel(fn, base, facts, m))
					continue
				}
				// (b) store to an element of a slice
				if ia, ok := x.Addr.(*ssa.IndexAddr); ok {
					sl := ia.X
					if !isSliceType(sl.Type()) {
						continue // array
					}
					if o.isNodeSlice(sl.Type()) {
						need(in, "store to an element of a []*node", sl, lvDeep, o.sliceLevel(fn, sl, facts, m))
						continue
					}
					// element store into a non-node slice that was loaded from a node field (childKeys, params)
					root := sl
					for {
						if ss, ok := root.(*ssa.Slice); ok {
							root = ss.X
							continue
						}
						break
					}
					if _, fname, ok := o.nodeFieldLoad(root); ok {
						need(in, "store to an element of node."+fname+" (shared between a node and its clones)", sl, lvDeep, sharedLevel)
					}
				}
			case ssa.CallInstruction:
				cc := x.Common()
				args := callArgs(x)
				if bi, ok := cc.Value.(*ssa.Builtin); ok {
					switch bi.Name() {
					case "append":
						if o.isNodeSlice(args[0].Type()) {
							need(in, "append onto a []*node (may write into spare capacity)", args[0], lvDeep, o.sliceLevel(fn, args[0], facts, m))
						}
					case "copy":
						if o.isNodeSlice(args[0].Type()) {
							need(in, "copy into a []*node", args[0], lvDeep, o.sliceLevel(fn, args[0], facts, m))
						}
					case "clear":
						if o.isNodeSlice(args[0].Type()) {
							need(in, "clear of a []*node", args[0], lvDeep, o.sliceLevel(fn, args[0], facts, m))
						}
					}
					continue
				}
				obj := calleeObj(x)
				if obj != nil && obj.Pkg() != nil {
					if fs := inPlaceFuncs[obj.Pkg().Path()]; fs != nil && fs[obj.Name()] && len(args) > 0 && o.isNodeSlice(args[0].Type()) {
						need(in, obj.Pkg().Name()+"."+obj.Name()+" reorders a []*node in place", args[0], lvDeep, o.sliceLevel(fn, args[0], facts, m))
						continue
					}
				}
				if o.isLRUCall(x, "Add") && len(args) >= 2 && o.isNodePtr(args[1].Type()) {
					need(in, "writable.Add: the cache may only hold deep-private nodes", args[1], lvDeep, o.nodeValueLevel(fn, args[1], facts, m))
					continue
				}
				callee := cc.StaticCallee()
				if callee == nil || !o.w.InModule(callee) || callee.Blocks == nil || callee == fn {
					continue
				}
				cs := o.summary(callee)
				idxs := make([]int, 0, len(cs.req))
				for k := range cs.req {
					idxs = append(idxs, k)
				}
				sort.Ints(idxs)
				for _, k := range idxs {
					rq := cs.req[k]
					if k >= len(args) {
						continue
					}
					var have level
					if o.isNodePtr(args[k].Type()) {
						have = o.nodeValueLevel(fn, args[k], facts, m)
					} else {
						have = o.sliceLevel(fn, args[k], facts, m)
					}
					need(in, fmt.Sprintf("call of %s, which performs a %s on its argument %d", FuncName(callee), rq.why, k), args[k], rq.level, have)
				}
			}
		}
	}
}

// sliceLevel: level of a []*node value.
func (o *Own) sliceLevel(fn *ssa.Function, v ssa.Value, facts []Fact, m map[ssa.Value]level) level {
	return o.lvlWithFacts(fn, v, facts, m)
}

// analyseAll computes summaries (and thereby write sites) for every function of package fox.
func (o *Own) analyseAll() {
	for _, fn := range o.w.FoxFuncs() {
		o.summary(fn)
	}
}
