package main

import (
	"go/parser"
	"fmt"
	"go/ast"
	"go/token"
	"go/types"
	"sort"
	"strings"

	"golang.org/x/tools/go/ssa"
)

func init() { register("C08", checkC08) }

func checkC08(w *World, r *Report) {
	r.Explanation = "Dispatch and Location construction of trailing-slash actions (not the selection of the slash-adjusted route, which is matcher behaviour): in ServeHTTP the redirect handler is " +
		"control-dependent on the lookup's tsr flag, method != CONNECT, URL.Path != \"/\", the matched route's redirect flag and path == CleanPath(path) for the very path value given to the matcher; the " +
		"ignore-trailing-slash dispatch on the first three and the matched route's ignore flag; a direct match on !tsr && n != nil. The status passed on is 301 under Method == GET and 308 otherwise. " +
		"A string-shape abstraction of the value reaching Header.Set(\"Location\", ...) shows that it contains no part derived from the decoded URL.Path, and starts with a constant \"../\" or \"./\" or with a " +
		"segment that was tested for ':' and prefixed with \"./\" when it has one (RFC 3986 4.2), and that the query string is appended when present. Where the matchers record a trailing-slash candidate they " +
		"also save its parameters, taking them from the sub-lookup's trailing-slash copy."
	r.NotDecided = []string{"when a slash-adjusted route exists and which one is chosen (shape dependent matcher behaviour)", "that CleanPath(path) is the canonical form (C17)"}
	r.Assumptions = []string{"url.URL.EscapedPath/RawPath are valid path encodings (net/url)"}
	d := analyseDispatch(w)
	checkC08Guards(w, r, d)
	checkC08Status(w, r)
	checkC08Location(w, r)
	checkC08TsrParams(w, r)
	checkC08ParentPairing(w, r)
	checkC08OneSlashApart(w, r)
	checkC08CaseAnalysis(w, r)
	checkTsrParamsRebuilt(w, r, "C08.9")
}

func checkC08Guards(w *World, r *Report, d *dispatchInfo) {
	ru := r.Rule("C08.1", "guard sets in ServeHTTP: redirect only under tsr && method != CONNECT && URL.Path != \"/\" && route.redirectTrailingSlash && path == CleanPath(path); ignored trailing slash only under tsr && method != CONNECT && URL.Path != \"/\" && route.ignoreTrailingSlash; direct match only under !tsr && n != nil; the flags are those of the node returned by the main lookup", 2)
	var nVal, tsrVal ssa.Value
	if refs := d.mainLook.Referrers(); refs != nil {
		for _, ref := range *refs {
			if ex, ok := ref.(*ssa.Extract); ok {
				if ex.Index == 0 {
					nVal = ex
				} else {
					tsrVal = ex
				}
			}
		}
	}
	pathArg := d.mainLook.Call.Args[3]
	type gs struct{ tsr, notTsr, nNonNil, notConnect, notRoot, redirectFlag, ignoreFlag, clean bool }
	guards := func(b *ssa.BasicBlock) gs {
		var g gs
		for _, f := range factsAtBlock(b) {
			if f.Cond == tsrVal {
				if f.Val {
					g.tsr = true
				} else {
					g.notTsr = true
				}
			}
			if bo, ok := f.Cond.(*ssa.BinOp); ok {
				if bo.X == nVal && isNilConst(bo.Y) && ((bo.Op == token.NEQ && f.Val) || (bo.Op == token.EQL && !f.Val)) {
					g.nNonNil = true
				}
				if s, ok := constString(bo.Y); ok {
					_, fld, isLoad := loadedField(bo.X)
					neq := (bo.Op == token.NEQ && f.Val) || (bo.Op == token.EQL && !f.Val)
					if isLoad && fld.Name() == "Method" && s == "CONNECT" && neq {
						g.notConnect = true
					}
					if isLoad && fld.Name() == "Path" && s == "/" && neq {
						g.notRoot = true
					}
				}
				if bo.Op == token.EQL && f.Val {
					// path == CleanPath(path)
					for _, pr := range [][2]ssa.Value{{bo.X, bo.Y}, {bo.Y, bo.X}} {
						x, y := pr[0], pr[1]
						if c, ok := y.(*ssa.Call); ok && c.Call.StaticCallee() != nil && c.Call.StaticCallee().Name() == "CleanPath" && c.Call.Args[0] == pathArg && x == pathArg {
							g.clean = true
						}
					}
				}
			}
			if rb, fld, ok := loadedField(f.Cond); ok && f.Val {
				// flag of n.route
				if nb, nf, ok := loadedField(rb); ok && nf.Name() == "route" && nb == nVal {
					if fld.Name() == "redirectTrailingSlash" {
						g.redirectFlag = true
					}
					if fld.Name() == "ignoreTrailingSlash" {
						g.ignoreFlag = true
					}
				}
			}
		}
		return g
	}
	for f, calls := range d.specialCalls {
		if f.Name() != "tsrRedirect" {
			continue
		}
		for _, c := range calls {
			g := guards(c.Block())
			ru.Check("redirect dispatch", w.Pos(c.Pos()), "tsr, not CONNECT, not the root path, route redirects, path already clean", g.tsr && g.notConnect && g.notRoot && g.redirectFlag && g.clean,
				fmt.Sprintf("tsr=%v notCONNECT=%v pathNotRoot=%v routeRedirectFlag=%v pathIsClean=%v", g.tsr, g.notConnect, g.notRoot, g.redirectFlag, g.clean))
		}
	}
	nIgnore, nDirect := 0, 0
	for _, c := range d.routeCalls {
		g := guards(c.Block())
		// the route whose chain is called must be n.route
		rb, _, _ := loadedField(c.Call.Value)
		nb, nf, ok := loadedField(rb)
		ofN := ok && nf.Name() == "route" && nb == nVal
		if g.tsr {
			nIgnore++
			ru.Check("ignored trailing slash dispatch", w.Pos(c.Pos()), "tsr, not CONNECT, not the root path, route ignores trailing slashes; the matched route's chain", g.notConnect && g.notRoot && g.ignoreFlag && ofN,
				fmt.Sprintf("notCONNECT=%v pathNotRoot=%v routeIgnoreFlag=%v matchedRoute=%v", g.notConnect, g.notRoot, g.ignoreFlag, ofN))
		} else {
			nDirect++
			ru.Check("direct match dispatch", w.Pos(c.Pos()), "!tsr and n != nil; the matched route's chain", g.notTsr && g.nNonNil && ofN, fmt.Sprintf("notTsr=%v nNonNil=%v matchedRoute=%v", g.notTsr, g.nNonNil, ofN))
		}
	}
	if nIgnore != 1 || nDirect != 1 {
		ru.Fail("route dispatch sites", w.Pos(d.fn.Pos()), "one direct-match site and one ignored-trailing-slash site", fmt.Sprintf("direct=%d ignore=%d", nDirect, nIgnore))
	}
}

func checkC08Status(w *World, r *Report) {
	ru := r.Rule("C08.2", "status selection: the redirect handler passes 301 when the method is GET and 308 otherwise", 1)
	fn := w.Func("defaultRedirectTrailingSlashHandler")
	local := w.Func("localRedirect")
	n := 0
	eachInstr(fn, func(in ssa.Instruction) {
		c, ok := in.(*ssa.Call)
		if !ok || c.Call.StaticCallee() != local {
			return
		}
		n++
		code := c.Call.Args[3]
		phi, ok := code.(*ssa.Phi)
		if !ok {
			ru.Fail("status of the redirect", w.Pos(c.Pos()), "301 for GET, 308 otherwise", "status is "+valStr(code))
			return
		}
		got := map[int64]string{}
		for i, e := range phi.Edges {
			k, _ := constInt(e)
			cond := "otherwise"
			for _, f := range factsOnEdge(phi.Block().Preds[i], phi.Block()) {
				if bo, ok := f.Cond.(*ssa.BinOp); ok {
					if s, ok := constString(bo.Y); ok && s == "GET" {
						isGet := (bo.Op == token.EQL && f.Val) || (bo.Op == token.NEQ && !f.Val)
						cond = map[bool]string{true: "GET", false: "not GET"}[isGet]
					}
				}
			}
			got[k] = cond
		}
		ok2 := len(got) == 2 && (got[301] == "GET" || got[308] == "not GET") && got[301] != "not GET" && got[308] != "GET"
		_, has301 := got[301]
		_, has308 := got[308]
		ru.Check("status of the redirect", w.Pos(c.Pos()), "301 for GET, 308 otherwise", ok2 && has301 && has308, fmt.Sprint(got))
	})
	if n == 0 {
		ru.Fail("status of the redirect", w.Pos(fn.Pos()), "the redirect handler calls localRedirect", "no call")
	}
}

// ---- C08.3 / C08.4: string shapes ---------------------------------------------------------------------------

type strPart struct {
	kind string // const | escaped | raw | query | unknown
	text string
	src  ssa.Value
}

type strAlt struct {
	parts []strPart
	facts []Fact
}

// shapes expands a string-valued SSA value into its alternatives (phis) of concatenated parts.
func shapes(v ssa.Value, depth int) []strAlt {
	if depth > 12 {
		return []strAlt{{parts: []strPart{{kind: "unknown", text: "too deep"}}}}
	}
	one := func(p strPart) []strAlt { return []strAlt{{parts: []strPart{p}}} }
	switch x := v.(type) {
	case *ssa.Const:
		s, _ := constString(x)
		return one(strPart{kind: "const", text: s})
	case *ssa.BinOp:
		if x.Op == token.ADD {
			var out []strAlt
			for _, a := range shapes(x.X, depth+1) {
				for _, b := range shapes(x.Y, depth+1) {
					out = append(out, strAlt{parts: append(append([]strPart{}, a.parts...), b.parts...), facts: append(append([]Fact{}, a.facts...), b.facts...)})
				}
			}
			return out
		}
	case *ssa.Phi:
		var out []strAlt
		for i, e := range x.Edges {
			ef := factsOnEdge(x.Block().Preds[i], x.Block())
			for _, a := range shapes(e, depth+1) {
				a.facts = append(append([]Fact{}, a.facts...), ef...)
				out = append(out, a)
			}
		}
		return out
	case *ssa.Call:
		obj := calleeObj(x)
		switch {
		case isFuncNamed(obj, "path", "Base"), obj != nil && obj.Name() == "FixTrailingSlash":
			// keep the encoding class of the argument (a suffix/prefix of it)
			var out []strAlt
			for _, a := range shapes(x.Call.Args[0], depth+1) {
				kind := "const"
				for _, p := range a.parts {
					if p.kind != "const" {
						kind = p.kind
					}
					if p.kind == "raw" {
						kind = "raw"
						break
					}
				}
				out = append(out, strAlt{parts: []strPart{{kind: kind, text: obj.Name() + "(…)", src: x}}, facts: a.facts})
			}
			return out
		case isMethodNamed(obj, "net/url", "URL", "EscapedPath"):
			// EscapedPath returns RawPath only when it is the encoding net/url itself would produce; otherwise it re-encodes
			// the *decoded* Path, in which an encoded slash of RawPath is already a real one. It is the encoded form of the
			// routed path only where RawPath is known to be empty.
			rawEmpty := false
			for _, ft := range factsAtBlock(x.Block()) {
				bo, ok := ft.Cond.(*ssa.BinOp)
				if !ok {
					continue
				}
				isRaw := func(v ssa.Value) bool {
					if c, ok := v.(*ssa.Call); ok {
						if b, ok := c.Call.Value.(*ssa.Builtin); ok && b.Name() == "len" {
							v = c.Call.Args[0]
						}
					}
					if _, f, ok := loadedField(v); ok && f.Name() == "RawPath" {
						return true
					}
					// the escaped copy of RawPath is empty exactly when RawPath is (the escaper maps bytes to non-empty text)
					if c, ok := v.(*ssa.Call); ok && theWorld != nil && c.Call.StaticCallee() != nil && theWorld.InModule(c.Call.StaticCallee()) && len(c.Call.Args) == 1 {
						if _, f, ok := loadedField(c.Call.Args[0]); ok && f.Name() == "RawPath" && verifyPathByteEscaper(theWorld, c.Call.StaticCallee()) == "" {
							return true
						}
					}
					return false
				}
				if !isRaw(bo.X) {
					continue
				}
				sv, isS := constString(bo.Y)
				zv, isZ := constInt(bo.Y)
				empty := (isS && sv == "") || (isZ && zv == 0)
				if empty && ((bo.Op == token.EQL && ft.Val) || (bo.Op == token.NEQ && !ft.Val) || (bo.Op == token.GTR && !ft.Val)) {
					rawEmpty = true
				}
			}
			if rawEmpty {
				return one(strPart{kind: "escaped", text: "EscapedPath() with RawPath empty", src: x})
			}
			return one(strPart{kind: "reencoded", text: "EscapedPath()", src: x})
		case isFuncNamed(obj, "net/url", "PathEscape"):
			return one(strPart{kind: "escaped", text: obj.Name() + "()", src: x})
		case theWorld != nil && x.Call.StaticCallee() != nil && theWorld.InModule(x.Call.StaticCallee()) && len(x.Call.Args) == 1 && isStringT(x.Call.Args[0].Type()):
			// a module function string -> string applied to RawPath: accepted as an escaper if its byte predicate, evaluated
			// for all 256 values, flags '#', controls, space and every byte >= 0x7f and leaves '%', '/' and unreserved
			// characters alone, and the function emits %XX for flagged bytes
			var out []strAlt
			for _, a := range shapes(x.Call.Args[0], depth+1) {
				kind := "const"
				for _, p := range a.parts {
					if p.kind != "const" {
						kind = p.kind
					}
				}
				if kind == "clientraw" {
					if why := verifyPathByteEscaper(theWorld, x.Call.StaticCallee()); why == "" {
						kind = "escaped"
					} else {
						kind = "unknown"
						out = append(out, strAlt{parts: []strPart{{kind: kind, text: FuncName(x.Call.StaticCallee()) + "(URL.RawPath): " + why, src: x}}, facts: a.facts})
						continue
					}
				} else if kind == "query" {
					if verifyPathByteEscaper(theWorld, x.Call.StaticCallee()) == "" {
						kind = "queryesc"
					} else {
						kind = "unknown"
					}
				} else if kind != "const" {
					kind = "unknown"
				}
				out = append(out, strAlt{parts: []strPart{{kind: kind, text: FuncName(x.Call.StaticCallee()) + "(…)", src: x}}, facts: a.facts})
			}
			return out
		}
		return one(strPart{kind: "unknown", text: valStr(x), src: x})
	case *ssa.UnOp:
		if _, f, ok := loadedField(x); ok {
			switch f.Name() {
			case "RawPath":
				// what the client sent: an encoded path, but possibly with bytes that are illegal in one ('#', raw non-ASCII)
				return one(strPart{kind: "clientraw", text: "URL.RawPath", src: x})
			case "Path":
				return one(strPart{kind: "raw", text: "URL.Path (decoded)", src: x})
			case "RawQuery":
				return one(strPart{kind: "query", text: "URL.RawQuery", src: x})
			}
		}
	case *ssa.Parameter:
		return one(strPart{kind: "param", text: x.Name(), src: x})
	}
	return one(strPart{kind: "unknown", text: valStr(v), src: v})
}

// colonFact: does the fact say "src contains a colon" (true) or "does not" (false)?
func colonFact(f Fact, src ssa.Value) (hasColon bool, ok bool) {
	eval := func(c *ssa.Call) (string, bool) {
		obj := calleeObj(c)
		if obj == nil || obj.Pkg() == nil || obj.Pkg().Path() != "strings" {
			return "", false
		}
		if len(c.Call.Args) != 2 || !sameShapeSrc(c.Call.Args[0], src) {
			return "", false
		}
		switch obj.Name() {
		case "IndexByte", "IndexRune":
			if k, ok := constInt(c.Call.Args[1]); ok && k == ':' {
				return "index", true
			}
		case "Index", "Contains":
			if s, ok := constString(c.Call.Args[1]); ok && s == ":" {
				return map[string]string{"Index": "index", "Contains": "bool"}[obj.Name()], true
			}
		case "ContainsRune":
			if k, ok := constInt(c.Call.Args[1]); ok && k == ':' {
				return "bool", true
			}
		}
		return "", false
	}
	switch x := f.Cond.(type) {
	case *ssa.Call:
		if kind, ok := eval(x); ok && kind == "bool" {
			return f.Val, true
		}
	case *ssa.BinOp:
		if c, isCall := x.X.(*ssa.Call); isCall {
			if kind, ok := eval(c); ok && kind == "index" {
				k, _ := constInt(x.Y)
				switch {
				case x.Op == token.GEQ && k == 0, x.Op == token.GTR && k == -1, x.Op == token.NEQ && k == -1:
					return f.Val, true
				case x.Op == token.LSS && k == 0, x.Op == token.EQL && k == -1:
					return !f.Val, true
				}
			}
		}
	}
	return false, false
}

func sameShapeSrc(a, b ssa.Value) bool { return a == b || sameExpr(a, b) }

func checkC08Location(w *World, r *Report) {
	ru := r.Rule("C08.3", "what reaches Location: the relative reference handed to localRedirect has no part derived from the decoded URL.Path, and begins with a constant \"../\" or \"./\", or with an escaped segment on a path where that segment was tested to contain no ':' (a segment with ':' gets \"./\" in front); localRedirect sets Location from that value", 1)
	fn := w.Func("defaultRedirectTrailingSlashHandler")
	local := w.Func("localRedirect")
	r.Analysed(FuncName(fn), FuncName(local))
	n := 0
	eachInstr(fn, func(in ssa.Instruction) {
		c, ok := in.(*ssa.Call)
		if !ok || c.Call.StaticCallee() != local {
			return
		}
		n++
		alts := shapes(c.Call.Args[2], 0)
		bad := ""
		var descs []string
		for _, a := range alts {
			var ds []string
			for _, p := range a.parts {
				ds = append(ds, p.kind+":"+p.text)
				if p.kind == "raw" {
					bad = "contains the decoded URL.Path (" + p.text + "): reserved characters are re-interpreted by the client"
				}
				if p.kind == "clientraw" {
					bad = "URL.RawPath is copied verbatim: it is what the client sent and may hold a '#' (request targets have no fragment) or raw non-ASCII bytes; the Location then resolves elsewhere (a#b/ is path a with fragment b/)"
				}
				if p.kind == "reencoded" {
					bad = "built from URL.EscapedPath() without knowing RawPath to be empty: when RawPath holds bytes net/url would escape differently, EscapedPath re-encodes the decoded path and an encoded slash (%2F) of the routed path becomes a real one"
				}
				if p.kind == "unknown" || p.kind == "param" {
					bad = "UNDECIDED: part of unknown provenance " + p.text
				}
			}
			descs = append(descs, strings.Join(ds, " + "))
			if bad != "" || len(a.parts) == 0 {
				continue
			}
			first := a.parts[0]
			switch first.kind {
			case "const":
				if !(strings.HasPrefix(first.text, "../") || strings.HasPrefix(first.text, "./") || strings.HasPrefix(first.text, "/")) {
					bad = "starts with the constant " + fmt.Sprintf("%q", first.text)
				}
			case "escaped":
				// infeasible alternatives (contradictory facts) are skipped; feasible ones need the no-colon fact
				safe := false
				for _, f := range a.facts {
					if has, ok := colonFact(f, first.src); ok && !has {
						safe = true
					}
				}
				if !safe {
					bad = "starts with the request's last segment without a ':' test: a segment like 'https:evil.com' is read as a URI scheme"
				}
			}
		}
		ru.Check("relative reference passed to localRedirect", w.Pos(c.Pos()), "no decoded part; safe first segment", bad == "", orDefault(bad, strings.Join(descs, " | ")))
	})
	if n < 2 {
		ru.Fail("calls of localRedirect", w.Pos(fn.Pos()), "add-slash and remove-slash redirects", fmt.Sprintf("%d", n))
	}
	// the sink in localRedirect, and C08.4
	ru4 := r.Rule("C08.4", "query kept: localRedirect appends \"?\" + URL.RawQuery, passed through the byte escaper that is verified for RawPath, to the reference when the query is not empty, and the Location header is set (through hexEscapeNonASCII) from that value", 1)
	okSink, okQuery, rawQuery := false, false, false
	eachInstr(local, func(in ssa.Instruction) {
		c, ok := in.(*ssa.Call)
		if !ok || !isMethodNamed(calleeObj(c), "net/http", "Header", "Set") {
			return
		}
		if k, ok := constString(c.Call.Args[1]); !ok || k != "Location" {
			return
		}
		v := c.Call.Args[2]
		if esc, ok := v.(*ssa.Call); ok && esc.Call.StaticCallee() != nil && esc.Call.StaticCallee().Name() == "hexEscapeNonASCII" {
			v = esc.Call.Args[0]
		}
		for _, a := range shapes(v, 0) {
			if len(a.parts) > 0 && a.parts[0].kind == "param" && a.parts[0].src == ssa.Value(local.Params[2]) {
				okSink = true
				if len(a.parts) == 3 && a.parts[1].kind == "const" && a.parts[1].text == "?" && a.parts[2].kind == "query" {
					rawQuery = true
				}
				if len(a.parts) == 3 && a.parts[1].kind == "const" && a.parts[1].text == "?" && a.parts[2].kind == "queryesc" {
					// on the edge where the query is non-empty
					for _, f := range a.facts {
						if bo, ok := f.Cond.(*ssa.BinOp); ok {
							if s, ok := constString(bo.Y); ok && s == "" && ((bo.Op == token.NEQ && f.Val) || (bo.Op == token.EQL && !f.Val)) {
								okQuery = true
							}
						}
					}
				}
			}
		}
	})
	ru.Check("Location sink in localRedirect", w.Pos(local.Pos()), "Location = escape(reference [+ \"?\" + RawQuery])", okSink, fmt.Sprint(okSink))
	whyQ := fmt.Sprint(okQuery)
	if rawQuery && !okQuery {
		whyQ = "URL.RawQuery is appended verbatim: it is what the client sent, and a '#' in it (a request target has no fragment) makes the client cut the query there"
	}
	ru4.Check("query string in localRedirect", w.Pos(local.Pos()), "\"?\" + the RawQuery with its illegal bytes escaped, appended when the query is not empty", okQuery, whyQ)
}

// checkC08TsrParams: the matchers save the candidate's parameters whenever they record a trailing-slash candidate.
func checkC08TsrParams(w *World, r *Report) {
	ru := r.Rule("C08.5", "parameters of the adjusted match: every place that records a trailing-slash candidate (tsr = true) also saves its parameters into the context's tsr copy unless the lookup is lazy; candidates coming from a sub-lookup take the sub-context's tsr copy, direct matches from a sub-lookup its params", 3)
	for _, name := range []string{"lookupByPath", "lookupByDomain"} {
		af := w.astFuncOf(modulePath, name)
		ctxName := ""
		for _, f := range af.decl.Type.Params.List {
			if st, ok := f.Type.(*ast.StarExpr); ok {
				if id, ok := st.X.(*ast.Ident); ok && id.Name == "cTx" {
					ctxName = f.Names[0].Name
				}
			}
		}
		// (a) after each `tsr = true` a !lazy block writes c.tsrParams
		ast.Inspect(af.decl.Body, func(n ast.Node) bool {
			blk, ok := n.(*ast.BlockStmt)
			if !ok {
				return true
			}
			for i, st := range blk.List {
				as, ok := st.(*ast.AssignStmt)
				if !ok || len(as.Lhs) != 1 || exprStr(as.Lhs[0]) != "tsr" || exprStr(as.Rhs[0]) != "true" {
					continue
				}
				saved := false
				for _, later := range blk.List[i+1:] {
					ifs, ok := later.(*ast.IfStmt)
					if !ok || exprStr(ifs.Cond) != "!lazy" {
						continue
					}
					ast.Inspect(ifs.Body, func(m ast.Node) bool {
						switch x := m.(type) {
						case *ast.CallExpr:
							if id, ok := x.Fun.(*ast.Ident); ok && id.Name == "copyWithResize" && len(x.Args) == 2 && exprStr(x.Args[0]) == ctxName+".tsrParams" && exprStr(x.Args[1]) == ctxName+".params" {
								saved = true
							}
						case *ast.AssignStmt:
							if len(x.Lhs) == 1 && exprStr(x.Lhs[0]) == "*"+ctxName+".tsrParams" {
								saved = true
							}
						}
						return true
					})
				}
				ru.Check("candidate recorded in "+name, w.Pos(as.Pos()), "the candidate's parameters are saved into c.tsrParams (unless lazy)", saved, fmt.Sprint(saved))
			}
			return true
		})
		// (b) sources taken from a sub-context
		ast.Inspect(af.decl.Body, func(n ast.Node) bool {
			as, ok := n.(*ast.AssignStmt)
			if !ok || len(as.Lhs) != 1 || len(as.Rhs) != 1 {
				return true
			}
			call, ok := as.Rhs[0].(*ast.CallExpr)
			if !ok || !call.Ellipsis.IsValid() || len(call.Args) != 2 {
				return true
			}
			src := exprStr(call.Args[1])
			if !strings.HasPrefix(src, "*subCtx.") {
				return true
			}
			dst := exprStr(as.Lhs[0])
			want := ""
			switch dst {
			case "*" + ctxName + ".tsrParams":
				want = "*subCtx.tsrParams"
			case "*" + ctxName + ".params":
				want = "*subCtx.params"
			default:
				return true
			}
			ru.Check("sub-lookup parameters merged in "+name, w.Pos(as.Pos()), dst+" takes "+want, src == want, src)
			return true
		})
		// (c) a candidate reported by a sub-lookup (its tsr result is true) carries the parameters the sub-lookup saved
		// for that candidate (sub.tsrParams); the sub-context's live params keep changing while the sub-lookup goes on to
		// other alternatives and must not have been merged into c.params when the candidate is recorded
		type subLookup struct{ tsrVar, sub string }
		var subs []subLookup
		ast.Inspect(af.decl.Body, func(n ast.Node) bool {
			as, ok := n.(*ast.AssignStmt)
			if !ok || len(as.Lhs) != 2 || len(as.Rhs) != 1 {
				return true
			}
			call, ok := as.Rhs[0].(*ast.CallExpr)
			if !ok || exprStr(call.Fun) != "lookupByPath" || len(call.Args) < 5 {
				return true
			}
			if sub := exprStr(call.Args[3]); sub != ctxName {
				subs = append(subs, subLookup{exprStr(as.Lhs[1]), sub})
			}
			return true
		})
		for _, b := range af.g.Blocks {
			if !b.Live {
				continue
			}
			for _, nd := range b.Nodes {
				as, ok := nd.(*ast.AssignStmt)
				if !ok || len(as.Lhs) != 1 || exprStr(as.Lhs[0]) != "tsr" || exprStr(as.Rhs[0]) != "true" {
					continue
				}
				for _, sl := range subs {
					under := false
					for _, f := range af.factsAt(b) {
						for _, ff := range splitFact(f) {
							if exprStr(ff.e) == sl.tsrVar && ff.val {
								under = true
							}
						}
					}
					if !under {
						continue
					}
					// the save: some statement reachable in the candidate's branch reads *sub.tsrParams into c.tsrParams
					takes := false
					merged := ""
					for _, b2 := range af.g.Blocks {
						if !b2.Live {
							continue
						}
						for _, nd2 := range b2.Nodes {
							a2, ok := nd2.(*ast.AssignStmt)
							if !ok || len(a2.Lhs) != 1 || len(a2.Rhs) != 1 {
								continue
							}
							rhs := exprStr(a2.Rhs[0])
							if exprStr(a2.Lhs[0]) == "*"+ctxName+".tsrParams" && strings.Contains(rhs, "*"+sl.sub+".tsrParams") && af.dominates(b, b2) {
								takes = true
							}
							if exprStr(a2.Lhs[0]) == "*"+ctxName+".params" && strings.Contains(rhs, "*"+sl.sub+".params") && (af.dominates(b2, b) && b2 != b) {
								merged = w.Pos(a2.Pos())
							}
						}
					}
					why := ""
					if merged != "" {
						why = "the sub-context's live params were already merged into " + ctxName + ".params at " + merged
					} else if !takes {
						why = "the candidate's parameters are not taken from *" + sl.sub + ".tsrParams"
					}
					ru.Check("candidate from a sub-lookup in "+name, w.Pos(as.Pos()), "saved from the sub-context's tsr copy; the sub-context's live params not merged before", why == "", orDefault(why, "*"+sl.sub+".tsrParams"))
				}
			}
		}
	}
}

// checkC08ParentPairing: the "remove the trailing slash" candidates are the parent of the current node, so the two
// variables must move together.
func checkC08ParentPairing(w *World, r *Report) {
	ru := r.Rule("C08.6", "parent and current move together: wherever the path matcher moves `current` to a child X.children[...] (descent into the static, param or catch-all child, and the resumption of a skipped alternative) it sets `parent` to X in the same basic block; the trailing-slash candidate `parent` is therefore always the node current hangs under", 2)
	af := w.astFuncOf(modulePath, "lookupByPath")
	n := 0
	for _, b := range af.g.Blocks {
		if !b.Live {
			continue
		}
		// symbolic values of the two cursors in terms of their values at block entry, so that
		// `parent = current; current = parent.children[i]` and `parent = current; current = current.children[i]` read the same
		env := map[string]string{"parent": "parent@entry", "current": "current@entry"}
		resolve := func(e string) string {
			for _, v := range []string{"parent", "current"} {
				if e == v {
					return env[v]
				}
				if strings.HasPrefix(e, v+".") {
					return env[v] + e[len(v):]
				}
			}
			return e
		}
		var last *ast.AssignStmt
		owner := ""
		for _, nd := range b.Nodes {
			as, ok := nd.(*ast.AssignStmt)
			if !ok || len(as.Lhs) != 1 || len(as.Rhs) != 1 {
				continue
			}
			switch exprStr(as.Lhs[0]) {
			case "parent":
				env["parent"] = resolve(exprStr(as.Rhs[0]))
			case "current":
				ie, ok := as.Rhs[0].(*ast.IndexExpr)
				if ok && strings.HasSuffix(exprStr(ie.X), ".children") {
					owner = resolve(strings.TrimSuffix(exprStr(ie.X), ".children"))
					last = as
					n++
					env["current"] = "child of " + owner
				} else {
					env["current"] = resolve(exprStr(as.Rhs[0]))
				}
			}
		}
		if last != nil {
			ru.Check("current = "+exprStr(last.Rhs[0]), w.Pos(last.Pos()), "parent holds "+owner+" when the block ends", env["parent"] == owner, "parent = "+env["parent"])
		}
	}
	if n < 3 {
		r.Unrecognised("C08.6: only %d descents found in lookupByPath", n)
	}
}

// checkC08OneSlashApart: a trailing-slash candidate is a route whose path differs from the request path by exactly one
// '/'. At the three places where the path matcher records one, the difference is a piece of the current node's key or
// of the path; the rule demands that this piece is tested to be exactly "/" (the sibling sites do it with
// len(piece) == 1 && piece[0] == '/'; the equivalent forms are accepted).
func checkC08OneSlashApart(w *World, r *Report) {
	ru := r.Rule("C08.7", "one slash apart: a candidate `n = parent` (drop the trailing slash) is recorded only where the matched part of the current key, current.key[:charsMatchedInNodeFound], is exactly \"/\"; a candidate `n = current` only where the unmatched rest of the key (add a slash) or of the path (drop it) is exactly \"/\"", 3)
	af := w.astFuncOf(modulePath, "lookupByPath")
	// single-definition locals: name -> defining expression
	defs := map[string]string{}
	ndefs := map[string]int{}
	ast.Inspect(af.decl.Body, func(n ast.Node) bool {
		if as, ok := n.(*ast.AssignStmt); ok && len(as.Lhs) == 1 && len(as.Rhs) == 1 {
			if id, ok := as.Lhs[0].(*ast.Ident); ok {
				defs[id.Name] = exprStr(as.Rhs[0])
				ndefs[id.Name]++
			}
		}
		return true
	})
	resolve := func(e string) string {
		if d, ok := defs[e]; ok && ndefs[e] == 1 {
			return d
		}
		return e
	}
	isSlash := func(s string) bool { return s == "slashDelim" || s == "'/'" }
	// pieces proven to be exactly "/" by the facts
	exactSlash := func(facts []astFact) map[string]bool {
		lenOne, firstSlash := map[string]bool{}, map[string]bool{}
		out := map[string]bool{}
		for _, f0 := range facts {
			for _, f := range splitFact(f0) {
				for _, pr := range [][2]token.Token{{token.EQL, token.NEQ}} {
					x, y, ok := isCmp(f.e, pr[0])
					pos := f.val
					if !ok {
						x, y, ok = isCmp(f.e, pr[1])
						pos = !f.val
					}
					if !ok || !pos {
						continue
					}
					for _, xy := range [][2]string{{x, y}, {y, x}} {
						a, b := xy[0], xy[1]
						if strings.HasPrefix(a, "len(") && b == "1" {
							lenOne[resolve(strings.TrimSuffix(strings.TrimPrefix(a, "len("), ")"))] = true
						}
						if strings.HasSuffix(a, "[0]") && isSlash(b) {
							firstSlash[resolve(strings.TrimSuffix(a, "[0]"))] = true
						} else if i := strings.LastIndex(a, "["); i > 0 && strings.HasSuffix(a, "]") && isSlash(b) {
							// X[k] is the first byte of X[k:]
							firstSlash[a[:i]+"["+a[i+1:len(a)-1]+":]"] = true
						}
						if b == "\"/\"" {
							out[resolve(a)] = true
						}
						// charsMatchedInNodeFound == 1 is len(current.key[:charsMatchedInNodeFound]) == 1
						if b == "1" && !strings.HasPrefix(a, "len(") {
							lenOne["current.key[:"+a+"]"] = true
						}
					}
				}
			}
		}
		for p := range lenOne {
			if firstSlash[p] {
				out[p] = true
			}
			// current.key[:k] starts with current.key[0]
			if strings.HasPrefix(p, "current.key[:") && firstSlash["current.key"] {
				out[p] = true
			}
		}
		return out
	}
	n := 0
	for _, b := range af.g.Blocks {
		if !b.Live {
			continue
		}
		isCand, target := false, ""
		var at ast.Node
		for _, nd := range b.Nodes {
			if as, ok := nd.(*ast.AssignStmt); ok && len(as.Lhs) == 1 && len(as.Rhs) == 1 {
				if exprStr(as.Lhs[0]) == "tsr" && exprStr(as.Rhs[0]) == "true" {
					isCand, at = true, as
				}
				if exprStr(as.Lhs[0]) == "n" {
					target = exprStr(as.Rhs[0])
				}
			}
		}
		if !isCand || (target != "parent" && target != "current") {
			continue // candidates handed up by a sub-lookup are judged where the sub-lookup records them
		}
		n++
		proven := exactSlash(af.factsAt(b))
		var ok bool
		var want string
		if target == "parent" {
			want = "current.key[:charsMatchedInNodeFound] is exactly \"/\""
			ok = proven["current.key[:charsMatchedInNodeFound]"]
		} else {
			want = "current.key[charsMatchedInNodeFound:] or path[charsMatched:] is exactly \"/\""
			ok = proven["current.key[charsMatchedInNodeFound:]"] || proven["path[charsMatched:]"]
		}
		var got []string
		for p := range proven {
			got = append(got, p)
		}
		sort.Strings(got)
		ru.Check("candidate n = "+target+" in lookupByPath", w.Pos(at.Pos()), want, ok, orDefault(strings.Join(got, ", "), "no piece is tested to be exactly \"/\" here")+map[bool]string{true: " is exactly \"/\"", false: ""}[len(got) > 0])
	}
	if n < 3 {
		r.Unrecognised("C08.7: only %d direct trailing-slash candidates found in lookupByPath", n)
	}
}

// checkC08CaseAnalysis: exhaustiveness of the trailing-slash case analysis of the path matcher. A candidate differs from
// the request by one '/'; where the walk can stand when that is so is a finite case table:
//
//	stop on a leaf, path consumed, rest of the key is "/"            -> add a slash, n = current        (C08.7 checks the guard)
//	stop on a leaf, key consumed, rest of the path is "/"            -> drop the slash, n = current     (C08.7)
//	stop on a leaf inside its key, matched part is "/"               -> drop the slash, n = parent      (C08.7)
//	stop on a node without route, matched part is "/"                -> drop the slash, n = parent      (C08.7)
//	stop on a node without route, key and path consumed              -> add a slash, n = its leaf child "/"
//	leaving a leaf for a wildcard child with only "/" left           -> drop the slash, n = current (a wildcard never takes an empty segment)
//
// The last two have no sibling to be compared with; this rule demands that they exist.
func checkC08CaseAnalysis(w *World, r *Report) {
	ru := r.Rule("C08.8", "the trailing-slash case analysis is exhaustive: besides the candidates of C08.7 the path matcher records (a) at a stop on a node without route whose key and the path are both consumed, the leaf child whose key is exactly \"/\" (add a slash), and (b) before it leaves a leaf for a param or catch-all child because no static child matches, that leaf when exactly \"/\" is left of the path (drop the slash)", 2)
	af := w.astFuncOf(modulePath, "lookupByPath")
	defs := map[string]string{}
	ndefs := map[string]int{}
	ast.Inspect(af.decl.Body, func(n ast.Node) bool {
		if as, ok := n.(*ast.AssignStmt); ok && len(as.Lhs) == 1 && len(as.Rhs) == 1 {
			if id, ok := as.Lhs[0].(*ast.Ident); ok {
				defs[id.Name] = exprStr(as.Rhs[0])
				ndefs[id.Name]++
			}
		}
		return true
	})
	holds := func(facts []astFact, pred func(e string, val bool) bool) bool {
		for _, f := range facts {
			if pred(exprStr(f.e), f.val) {
				return true
			}
		}
		return false
	}
	foundA, foundB := "", ""
	whyA, whyB := "no candidate with n = a child of current is recorded where current has no route", "no candidate n = current is recorded in the branch that descends into a wildcard child after the static search failed"
	for _, b := range af.g.Blocks {
		if !b.Live {
			continue
		}
		isCand, target := false, ""
		var at ast.Node
		for _, nd := range b.Nodes {
			if as, ok := nd.(*ast.AssignStmt); ok && len(as.Lhs) == 1 && len(as.Rhs) == 1 {
				if exprStr(as.Lhs[0]) == "tsr" && exprStr(as.Rhs[0]) == "true" {
					isCand, at = true, as
				}
				if exprStr(as.Lhs[0]) == "n" {
					target = exprStr(as.Rhs[0])
				}
			}
		}
		if !isCand {
			continue
		}
		facts := af.factsAt(b)
		noRoute := holds(facts, func(e string, v bool) bool { return (e == "current.isLeaf()" && !v) || (e == "!current.isLeaf()" && v) })
		onLeaf := holds(facts, func(e string, v bool) bool { return (e == "current.isLeaf()" && v) || (e == "!current.isLeaf()" && !v) })
		searchMiss := holds(facts, func(e string, v bool) bool {
			return (e == "idx<0" && v) || (e == "idx>=0" && !v) || (e == "idx==-1" && v)
		})
		// (a)
		if noRoute && strings.HasPrefix(target, "current.children[") {
			child := target
			keyIsSlash := holds(facts, func(e string, v bool) bool {
				return v && (e == "len("+child+".key)==1" || e == child+".key==\"/\"")
			})
			// the index comes from a search of the child keys for '/'
			idxVar := strings.TrimSuffix(strings.TrimPrefix(child, "current.children["), "]")
			fromSlash := strings.Contains(defs[idxVar], "childKeys") && (strings.Contains(defs[idxVar], "slashDelim") || strings.Contains(defs[idxVar], "'/'"))
			childLeaf := holds(facts, func(e string, v bool) bool { return e == child+".isLeaf()" && v })
			bothConsumed := holdsEq(facts, "charsMatched", "len(path)") && holdsEq(facts, "charsMatchedInNodeFound", "len(current.key)")
			// adding a slash is only an adjustment of a path that does not already end with one (the redirect handler toggles
			// the last slash: for a path ending in "/" it would remove it)
			noSlashYet := holds(facts, func(e string, v bool) bool {
				return (e == "strings.HasSuffix(path,\"/\")" && !v) || (e == "!strings.HasSuffix(path,\"/\")" && v)
			})
			if !noSlashYet {
				keyIsSlash = false
				whyA = fmt.Sprintf("candidate at %s is also recorded for a path that already ends with \"/\" (no test of strings.HasSuffix(path, \"/\"))", w.Pos(at.Pos()))
			}
			if keyIsSlash && fromSlash && childLeaf && bothConsumed {
				foundA = w.Pos(at.Pos())
			} else if noSlashYet {
				whyA = fmt.Sprintf("candidate at %s: keyIsSlash=%v indexFromSlashSearch=%v childIsLeaf=%v keyAndPathConsumed=%v", w.Pos(at.Pos()), keyIsSlash, fromSlash, childLeaf, bothConsumed)
			}
		}
		// (b)
		if searchMiss && target == "current" {
			rest := exactSlashPieces(facts, defs, ndefs)
			narrow := narrowerThanDescent(af, at)
			if onLeaf && rest["path[charsMatched:]"] && narrow != "" {
				whyB = fmt.Sprintf("candidate at %s is recorded under the extra condition %s: the descent that follows is attempted for a {param} child and for a catch-all child alike, and neither matches the empty rest", w.Pos(at.Pos()), narrow)
			} else if onLeaf && rest["path[charsMatched:]"] {
				foundB = w.Pos(at.Pos())
			} else {
				whyB = fmt.Sprintf("candidate at %s: currentIsLeaf=%v restOfPathIsSlash=%v", w.Pos(at.Pos()), onLeaf, rest["path[charsMatched:]"])
			}
		}
	}
	pos := w.Pos(af.decl.Pos())
	ru.Check("add a slash at a node without route", orDefault(foundA, pos), "n = current.children[i] with i found by searching the child keys for '/', key exactly \"/\", child is a leaf, key and path consumed", foundA != "", orDefault(map[bool]string{true: "recorded"}[foundA != ""], whyA))
	ru.Check("drop the slash before leaving a leaf for a wildcard child", orDefault(foundB, pos), "n = current under: static search failed, current is a leaf, the rest of the path is exactly \"/\"", foundB != "", orDefault(map[bool]string{true: "recorded"}[foundB != ""], whyB))
}

// exactSlashPieces: the pieces (source text) that the facts prove to be exactly "/" (shared with C08.7).
func exactSlashPieces(facts []astFact, defs map[string]string, ndefs map[string]int) map[string]bool {
	resolve := func(e string) string {
		if d, ok := defs[e]; ok && ndefs[e] == 1 {
			return d
		}
		return e
	}
	isSlash := func(s string) bool { return s == "slashDelim" || s == "'/'" }
	lenOne, firstSlash := map[string]bool{}, map[string]bool{}
	out := map[string]bool{}
	for _, f0 := range facts {
		for _, f := range splitFact(f0) {
			x, y, ok := isCmp(f.e, token.EQL)
			pos := f.val
			if !ok {
				x, y, ok = isCmp(f.e, token.NEQ)
				pos = !f.val
			}
			if !ok || !pos {
				continue
			}
			for _, xy := range [][2]string{{x, y}, {y, x}} {
				a, b := xy[0], xy[1]
				if strings.HasPrefix(a, "len(") && b == "1" {
					lenOne[resolve(strings.TrimSuffix(strings.TrimPrefix(a, "len("), ")"))] = true
				}
				if strings.HasSuffix(a, "[0]") && isSlash(b) {
					firstSlash[resolve(strings.TrimSuffix(a, "[0]"))] = true
				} else if i := strings.LastIndex(a, "["); i > 0 && strings.HasSuffix(a, "]") && isSlash(b) {
					firstSlash[a[:i]+"["+a[i+1:len(a)-1]+":]"] = true
				}
				if b == "\"/\"" {
					out[resolve(a)] = true
				}
				if b == "1" && !strings.HasPrefix(a, "len(") {
					lenOne["current.key[:"+a+"]"] = true
				}
				// k == len(X)-1 is len(X[k:]) == 1
				if strings.HasPrefix(b, "len(") && strings.HasSuffix(b, ")-1") {
					lenOne[strings.TrimSuffix(strings.TrimPrefix(b, "len("), ")-1")+"["+a+":]"] = true
				}
			}
		}
	}
	for p := range lenOne {
		if firstSlash[p] {
			out[p] = true
		}
		if strings.HasPrefix(p, "current.key[:") && firstSlash["current.key"] {
			out[p] = true
		}
	}
	return out
}

// verifyPathByteEscaper checks a module function used to make RawPath safe for a Location header. It returns "" when
// the function (a) decides per byte with a predicate func(byte) bool of the module that is a single boolean expression
// over the byte and constants, which evaluated for all 256 values is true for '#', for every byte <= ' ' and >= 0x7f, and
// false for '%', '/', letters, digits and "-._~"; and (b) emits '%' followed by two hex digits taken from a hex table.
func verifyPathByteEscaper(w *World, fn *ssa.Function) string {
	var pred *ssa.Function
	hasPercent, hasHi, hasLo := false, false, false
	eachInstr(fn, func(in ssa.Instruction) {
		switch x := in.(type) {
		case *ssa.Call:
			if cal := x.Call.StaticCallee(); cal != nil && w.InModule(cal) && len(cal.Params) == 1 && cal.Signature.Results().Len() == 1 {
				if b, ok := cal.Params[0].Type().Underlying().(*types.Basic); ok && b.Kind() == types.Uint8 {
					pred = cal
				}
			}
		case *ssa.BinOp:
			if k, ok := constInt(x.Y); ok {
				if x.Op == token.SHR && k == 4 {
					hasHi = true
				}
				if x.Op == token.AND && k == 15 {
					hasLo = true
				}
			}
		}
		for _, op := range in.Operands(nil) {
			if op != nil && *op != nil {
				if k, ok := constInt(*op); ok && k == '%' {
					hasPercent = true
				}
			}
		}
	})
	if pred == nil {
		return "no per-byte predicate func(byte) bool of the module is called"
	}
	if !(hasPercent && hasHi && hasLo) {
		return "the function does not emit '%' followed by the two hex digits of the byte"
	}
	// evaluate the predicate on the syntax tree
	var decl *ast.FuncDecl
	var info *types.Info
	for _, p := range w.Pkgs {
		for _, f := range p.Syntax {
			for _, d := range f.Decls {
				if fd, ok := d.(*ast.FuncDecl); ok && fd.Name.Name == pred.Name() && fd.Recv == nil && p.Types == pred.Pkg.Pkg {
					decl, info = fd, p.TypesInfo
				}
			}
		}
	}
	if decl == nil || decl.Body == nil || len(decl.Body.List) != 1 {
		return "the byte predicate is not a single return statement"
	}
	ret, ok := decl.Body.List[0].(*ast.ReturnStmt)
	if !ok || len(ret.Results) != 1 {
		return "the byte predicate is not a single return statement"
	}
	param := decl.Type.Params.List[0].Names[0].Name
	for b := int64(0); b < 256; b++ {
		v, known := evalByteBool(info, ret.Results[0], param, b)
		if !known {
			return "the byte predicate is not a comparison of the byte with constants"
		}
		must := b <= ' ' || b >= 0x7f || b == '#'
		mustNot := b == '%' || b == '/' || (b >= 'a' && b <= 'z') || (b >= 'A' && b <= 'Z') || (b >= '0' && b <= '9') || b == '-' || b == '.' || b == '_' || b == '~'
		if must && !v {
			return fmt.Sprintf("byte 0x%02x is not escaped", b)
		}
		if mustNot && v {
			return fmt.Sprintf("byte %q is escaped although it must be kept (existing %%XX sequences and separators stay as they are)", rune(b))
		}
	}
	return ""
}

// evalByteBool evaluates a boolean expression over one byte variable and constants.
func evalByteBool(info *types.Info, e ast.Expr, name string, b int64) (bool, bool) {
	num := func(x ast.Expr) (int64, bool) {
		for {
			p, ok := x.(*ast.ParenExpr)
			if !ok {
				break
			}
			x = p.X
		}
		if id, ok := x.(*ast.Ident); ok && id.Name == name {
			return b, true
		}
		if tv, ok := info.Types[x]; ok && tv.Value != nil {
			return constantToInt64(tv.Value)
		}
		return 0, false
	}
	switch x := e.(type) {
	case *ast.ParenExpr:
		return evalByteBool(info, x.X, name, b)
	case *ast.UnaryExpr:
		if x.Op == token.NOT {
			v, k := evalByteBool(info, x.X, name, b)
			return !v, k
		}
	case *ast.BinaryExpr:
		switch x.Op {
		case token.LAND:
			l, lk := evalByteBool(info, x.X, name, b)
			r, rk := evalByteBool(info, x.Y, name, b)
			return l && r, lk && rk
		case token.LOR:
			l, lk := evalByteBool(info, x.X, name, b)
			r, rk := evalByteBool(info, x.Y, name, b)
			return l || r, lk && rk
		case token.LSS, token.LEQ, token.GTR, token.GEQ, token.EQL, token.NEQ:
			l, lk := num(x.X)
			r, rk := num(x.Y)
			if !lk || !rk {
				return false, false
			}
			switch x.Op {
			case token.LSS:
				return l < r, true
			case token.LEQ:
				return l <= r, true
			case token.GTR:
				return l > r, true
			case token.GEQ:
				return l >= r, true
			case token.EQL:
				return l == r, true
			default:
				return l != r, true
			}
		}
	}
	return false, false
}

// checkTsrParamsRebuilt: the trailing-slash copy of the parameters lives in the pooled context. Where a candidate's
// parameters are put together with append, the first thing written is the truncation to length 0; an append onto the
// slice as it is keeps the parameters of an earlier candidate or an earlier request.
func checkTsrParamsRebuilt(w *World, r *Report, id string) {
	ru := r.Rule(id, "the trailing-slash parameter copy is rebuilt from empty: in every statement list of the matchers that assigns *c.tsrParams from an append onto *c.tsrParams, the first assignment is the truncation (*c.tsrParams)[:0]", 2)
	n := 0
	for _, name := range []string{"lookupByPath", "lookupByDomain"} {
		af := w.astFuncOf(modulePath, name)
		ctxName := ""
		for _, f := range af.decl.Type.Params.List {
			if st, ok := f.Type.(*ast.StarExpr); ok {
				if idn, ok := st.X.(*ast.Ident); ok && idn.Name == "cTx" {
					ctxName = f.Names[0].Name
				}
			}
		}
		target := "*" + ctxName + ".tsrParams"
		ast.Inspect(af.decl.Body, func(nd ast.Node) bool {
			blk, ok := nd.(*ast.BlockStmt)
			if !ok {
				return true
			}
			var first *ast.AssignStmt
			appendsOnto := false
			for _, st := range blk.List {
				as, ok := st.(*ast.AssignStmt)
				if !ok || len(as.Lhs) != 1 || exprStr(as.Lhs[0]) != target {
					continue
				}
				if first == nil {
					first = as
				}
				// innermost base of an append chain
				e := as.Rhs[0]
				for {
					call, ok := e.(*ast.CallExpr)
					if !ok || exprStr(call.Fun) != "append" || len(call.Args) == 0 {
						break
					}
					e = call.Args[0]
				}
				if e != as.Rhs[0] && exprStr(e) == target {
					appendsOnto = true
				}
			}
			if first == nil || !appendsOnto {
				return true
			}
			n++
			okk := exprStr(first.Rhs[0]) == "("+target+")[:0]"
			ru.Check("tsrParams assembled in "+name, w.Pos(first.Pos()), "starts with "+target+" = ("+target+")[:0]", okk, orDefault(map[bool]string{true: "truncated first"}[okk], "the first assignment is "+exprStr(first.Rhs[0])+": parameters already in the pooled slice are kept in front of the candidate's"))
			return true
		})
	}
	if n == 0 {
		r.Unrecognised("%s: no append-built trailing-slash parameter copy found in the matchers", id)
	}
}

// narrowerThanDescent inspects the condition of the if statement that directly encloses the candidate `at` (drop the
// slash before a wildcard descent). Its conjuncts may be: !tsr, current.isLeaf(), tests of the rest of the path, and a
// test that a wildcard child exists — which must cover both kinds (paramChildIndex and wildcardChildIndex), written
// inline or as a one-expression helper method of the node. Any other conjunct narrows the case analysis; it is returned.
func narrowerThanDescent(af *astFunc, at ast.Node) string {
	var encl *ast.IfStmt
	ast.Inspect(af.decl.Body, func(n ast.Node) bool {
		if is, ok := n.(*ast.IfStmt); ok {
			for _, st := range is.Body.List {
				if st == at {
					encl = is
				}
			}
		}
		return true
	})
	if encl == nil {
		return ""
	}
	covers := func(e ast.Expr) (mentions, both bool) {
		str := exprStr(e)
		mentions = strings.Contains(str, "paramChildIndex") || strings.Contains(str, "wildcardChildIndex")
		var dis []string
		var fl func(x ast.Expr)
		fl = func(x ast.Expr) {
			x = ast.Unparen(x)
			if be, ok := x.(*ast.BinaryExpr); ok && be.Op == token.LOR {
				fl(be.X)
				fl(be.Y)
				return
			}
			dis = append(dis, exprStr(x))
		}
		fl(e)
		has := func(f string) bool {
			for _, d := range dis {
				if d == "current."+f+">=0" || d == "current."+f+"!=-1" || d == "current."+f+">-1" {
					return true
				}
			}
			return false
		}
		return mentions, has("paramChildIndex") && has("wildcardChildIndex")
	}
	for _, f := range splitFact(astFact{encl.Cond, true}) {
		str := exprStr(f.e)
		switch {
		case str == "tsr" && !f.val:
			continue
		case str == "current.isLeaf()" && f.val:
			continue
		}
		idents := map[string]bool{}
		ast.Inspect(f.e, func(n ast.Node) bool {
			if id, ok := n.(*ast.Ident); ok {
				idents[id.Name] = true
			}
			return true
		})
		if !idents["current"] {
			continue // a test of the path / cursor only
		}
		e := f.e
		// one-expression helper method on current: inline it
		if call, ok := ast.Unparen(e).(*ast.CallExpr); ok && len(call.Args) == 0 {
			if sel, ok := call.Fun.(*ast.SelectorExpr); ok && exprStr(sel.X) == "current" {
				for _, file := range af.pkg.Syntax {
					for _, d := range file.Decls {
						fd, ok := d.(*ast.FuncDecl)
						if !ok || fd.Name.Name != sel.Sel.Name || fd.Recv == nil || len(fd.Recv.List) != 1 || len(fd.Recv.List[0].Names) != 1 || fd.Body == nil || len(fd.Body.List) != 1 {
							continue
						}
						if rs, ok := fd.Body.List[0].(*ast.ReturnStmt); ok && len(rs.Results) == 1 {
							recvName := fd.Recv.List[0].Names[0].Name
							mentions, _ := covers(rs.Results[0])
							if mentions {
								// judge the helper's expression with the receiver read as current
								txt := strings.ReplaceAll(exprStr(rs.Results[0]), recvName+".", "current.")
								if pe, err := parser.ParseExpr(txt); err == nil {
									e = pe
								}
							}
						}
					}
				}
			}
		}
		mentions, both := covers(e)
		if mentions && both && f.val {
			continue
		}
		if !f.val {
			return "!(" + str + ")"
		}
		return str
	}
	return ""
}
