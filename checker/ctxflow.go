package main

import (
	"fmt"
	"go/token"
	"go/types"
	"sort"
	"strings"

	"golang.org/x/tools/go/ssa"
)

// CtxFlow is a forward must-dataflow over one function that follows one pooled request context (a *cTx value) and
// records, per field of the context struct, whether the field has been written since the context was acquired and what
// kind of value it holds: the scrub value (nil / false / empty slice / nil map), a known constant, or anything.
// Callee effects come from summaries computed on the callee's code (with constant boolean arguments such as lazy=true
// propagated), so `lookup(..., c, true)` is known to leave scrubbed fields scrubbed while `lookup(..., c, false)` is not.

const (
	kUnknown = iota
	kScrub   // nil, false, length 0
	kConst   // integer constant k
	kParam   // (summaries only) the value of the callee's parameter number k: resolved at the call site when the argument is a constant
)

type fieldVal struct {
	written bool
	kind    int
	k       int64
}

func (f fieldVal) String() string {
	s := "stale"
	if f.written {
		s = "written"
	}
	switch f.kind {
	case kScrub:
		s += "/scrubbed"
	case kConst:
		s += fmt.Sprintf("/const %d", f.k)
	}
	return s
}

type ctxState struct {
	reached bool
	f       map[*types.Var]fieldVal
}

func (s ctxState) clone() ctxState {
	n := ctxState{reached: s.reached, f: make(map[*types.Var]fieldVal, len(s.f))}
	for k, v := range s.f {
		n.f[k] = v
	}
	return n
}

func meetField(a, b fieldVal) fieldVal {
	out := fieldVal{written: a.written && b.written}
	if a.kind == b.kind && (a.kind != kConst || a.k == b.k) {
		out.kind, out.k = a.kind, a.k
	}
	return out
}

func meetState(a, b ctxState) ctxState {
	if !a.reached {
		return b.clone()
	}
	if !b.reached {
		return a.clone()
	}
	out := ctxState{reached: true, f: map[*types.Var]fieldVal{}}
	for k, v := range a.f {
		out.f[k] = meetField(v, b.f[k])
	}
	return out
}

func equalState(a, b ctxState) bool {
	if a.reached != b.reached || len(a.f) != len(b.f) {
		return false
	}
	for k, v := range a.f {
		if b.f[k] != v {
			return false
		}
	}
	return true
}

// fieldEffect is the summary of what a callee does to one field of a context it receives.
type fieldEffect struct {
	any      bool // some store may happen
	must     bool // a store happens on every path
	kind     int  // value kind if all stores agree (kUnknown otherwise)
	k        int64
	keepsScr bool // every possible store writes the scrub value or reslices the field itself
}

type CtxFlow struct {
	w         *World
	ctxT      *types.Named
	anyParams *types.Var // synthetic: params or tsrParams written (exactly one of them is read, depending on tsr)
	fields    []*types.Var
	memo   map[string]map[*types.Var]fieldEffect
}

func newCtxFlow(w *World) *CtxFlow {
	cf := &CtxFlow{w: w, ctxT: w.FoxType("cTx"), memo: map[string]map[*types.Var]fieldEffect{}}
	st := cf.ctxT.Underlying().(*types.Struct)
	for i := 0; i < st.NumFields(); i++ {
		cf.fields = append(cf.fields, st.Field(i))
	}
	cf.anyParams = types.NewVar(token.NoPos, nil, "params|tsrParams", types.Typ[types.Bool])
	return cf
}

func (cf *CtxFlow) field(name string) *types.Var {
	for _, f := range cf.fields {
		if f.Name() == name {
			return f
		}
	}
	anchorFail("field cTx.%s", name)
	return nil
}

func (cf *CtxFlow) isCtxPtr(t types.Type) bool {
	p, ok := types.Unalias(t).Underlying().(*types.Pointer)
	return ok && namedOf(p.Elem()) == cf.ctxT && !isPointer(p.Elem())
}

// ctxWrite describes a store that writes field f of context value obj.
type ctxWrite struct {
	field *types.Var
	kind  int
	k     int64
	self  bool // reslice of the field itself (x = x[:k]): keeps the scrub property
}

// classifyStore: does st write a field of a context (any context value)? Returns the context value written.
func (cf *CtxFlow) classifyStore(st *ssa.Store) (ssa.Value, ctxWrite, bool) {
	// direct: &obj.f
	if base, f, ok := fieldOfAddr(st.Addr); ok && cf.isCtxPtr(base.Type()) {
		wv := ctxWrite{field: f}
		switch {
		case isNilConst(st.Val):
			wv.kind = kScrub
		default:
			if b, ok := constBool(st.Val); ok {
				if !b {
					wv.kind = kScrub
				}
			} else if n, ok := constInt(st.Val); ok {
				wv.kind, wv.k = kConst, n
			} else if prm, ok := st.Val.(*ssa.Parameter); ok && prm.Parent() != nil {
				if bt, ok := prm.Type().Underlying().(*types.Basic); ok && bt.Info()&types.IsInteger != 0 {
					wv.kind, wv.k = kParam, int64(paramIndex(prm.Parent(), prm))
				}
			}
		}
		return base, wv, true
	}
	// through a pointer-typed field: *(obj.f) = v
	if base, f, ok := loadedField(st.Addr); ok && cf.isCtxPtr(base.Type()) {
		wv := ctxWrite{field: f}
		if sl, ok := st.Val.(*ssa.Slice); ok {
			if u, ok := sl.X.(*ssa.UnOp); ok && u.Op == token.MUL && sameExpr(u.X, st.Addr) && sl.Low == nil {
				if n, ok := constInt(sl.High); ok && n == 0 {
					wv.kind = kScrub
				} else {
					wv.self = true
				}
			}
		}
		return base, wv, true
	}
	return nil, ctxWrite{}, false
}

// effects summarises what fn does to the context passed as parameter pidx, under the binding.
func (cf *CtxFlow) effects(fn *ssa.Function, pidx int, bind binding, depth int) map[*types.Var]fieldEffect {
	key := fmt.Sprintf("%p|%d|%s", fn, pidx, bind.key())
	if e, ok := cf.memo[key]; ok {
		return e
	}
	out := map[*types.Var]fieldEffect{}
	cf.memo[key] = out // recursion: optimistic (no effect) for cycles, completed below
	if depth > 8 || pidx >= len(fn.Params) {
		return out
	}
	param := ssa.Value(fn.Params[pidx])
	isObj := func(v ssa.Value) bool { return stripIface(seeThrough(stripIface(v))) == param }
	live := liveBlocks(fn, bind)
	// blocks executed on every path to a return
	mustBlocks := map[*ssa.BasicBlock]bool{}
	var rets []*ssa.BasicBlock
	for _, b := range fn.Blocks {
		if live[b] && len(b.Instrs) > 0 {
			if _, ok := b.Instrs[len(b.Instrs)-1].(*ssa.Return); ok && (len(b.Preds) > 0 || b == fn.Blocks[0]) {
				rets = append(rets, b)
			}
		}
	}
	for _, b := range fn.Blocks {
		if !live[b] {
			continue
		}
		all := len(rets) > 0
		for _, r := range rets {
			if !b.Dominates(r) {
				all = false
			}
		}
		mustBlocks[b] = all
	}
	add := func(f *types.Var, wv ctxWrite, must bool) {
		e, seen := out[f]
		scr := wv.kind == kScrub || wv.self
		if !seen {
			e = fieldEffect{any: true, must: must, kind: wv.kind, k: wv.k, keepsScr: scr}
			if wv.self {
				e.kind = kUnknown
			}
		} else {
			e.must = e.must || must
			if e.kind != wv.kind || ((wv.kind == kConst || wv.kind == kParam) && e.k != wv.k) || wv.self {
				e.kind = kUnknown
			}
			e.keepsScr = e.keepsScr && scr
		}
		out[f] = e
	}
	for _, b := range fn.Blocks {
		if !live[b] {
			continue
		}
		for _, in := range b.Instrs {
			switch x := in.(type) {
			case *ssa.Store:
				if base, wv, ok := cf.classifyStore(x); ok && isObj(base) {
					add(wv.field, wv, mustBlocks[b])
				}
			case ssa.CallInstruction:
				args := callArgs(x)
				// a field address (or the pointer held in a pointer-typed field) handed to a call: that field is written
				for _, a := range args {
					if base, f, ok := fieldOfAddr(a); ok && isObj(base) {
						add(f, ctxWrite{field: f}, mustBlocks[b])
					}
				}
				callee := x.Common().StaticCallee()
				if callee == nil || !cf.w.InModule(callee) || callee.Blocks == nil {
					continue
				}
				for j, a := range args {
					if !isObj(a) {
						continue
					}
					sub := cf.effects(callee, j, bindArgs(fn, bind, x, callee), depth+1)
					for f, e := range sub {
						e = resolveParamEffect(e, args)
						wv := ctxWrite{field: f, kind: e.kind, k: e.k}
						cur, seen := out[f]
						if !seen {
							cur = fieldEffect{any: true, must: e.must && mustBlocks[b], kind: e.kind, k: e.k, keepsScr: e.keepsScr}
						} else {
							cur.must = cur.must || (e.must && mustBlocks[b])
							if cur.kind != wv.kind || ((wv.kind == kConst || wv.kind == kParam) && cur.k != wv.k) {
								cur.kind = kUnknown
							}
							cur.keepsScr = cur.keepsScr && e.keepsScr
						}
						out[f] = cur
					}
				}
			}
		}
	}
	return out
}

// applyEffect updates the state of one field with a callee effect.
func applyEffect(v fieldVal, e fieldEffect) fieldVal {
	if !e.any {
		return v
	}
	if e.must {
		out := fieldVal{written: true}
		if e.kind != kUnknown {
			out.kind, out.k = e.kind, e.k
		} else if e.keepsScr && v.kind == kScrub {
			out.kind = kScrub
		}
		return out
	}
	out := fieldVal{written: v.written}
	if e.keepsScr && v.kind == kScrub {
		out.kind = kScrub
	} else if e.kind == kConst && v.kind == kConst && e.k == v.k {
		out.kind, out.k = kConst, v.k
	}
	return out
}

// Run performs the dataflow on fn for context value obj (defined by instruction def) and calls visit with the state
// holding immediately before each instruction reached after def.
func (cf *CtxFlow) Run(fn *ssa.Function, obj ssa.Value, def ssa.Instruction, visit func(in ssa.Instruction, st ctxState)) {
	isObj := func(v ssa.Value) bool { v = stripIface(seeThrough(stripIface(v))); return v == obj }
	fresh := func() ctxState {
		s := ctxState{reached: true, f: map[*types.Var]fieldVal{}}
		for _, f := range cf.fields {
			s.f[f] = fieldVal{}
		}
		s.f[cf.anyParams] = fieldVal{}
		return s
	}
	markAny := func(s ctxState) {
		if s.f[cf.field("params")].written || s.f[cf.field("tsrParams")].written {
			s.f[cf.anyParams] = fieldVal{written: true}
		}
	}
	in := map[*ssa.BasicBlock]ctxState{}
	transfer := func(b *ssa.BasicBlock, s ctxState, emit bool) ctxState {
		s = s.clone()
		for _, ins := range b.Instrs {
			if ins == def {
				s = fresh()
				continue
			}
			if !s.reached {
				continue
			}
			markAny(s)
			if emit && visit != nil {
				visit(ins, s)
			}
			switch x := ins.(type) {
			case *ssa.Store:
				if base, wv, ok := cf.classifyStore(x); ok && isObj(base) {
					cur := s.f[wv.field]
					nv := fieldVal{written: true, kind: wv.kind, k: wv.k}
					if wv.self {
						nv.kind = kUnknown
						if cur.kind == kScrub {
							nv.kind = kScrub
						}
					}
					s.f[wv.field] = nv
				}
			case ssa.CallInstruction:
				args := callArgs(x)
				for _, a := range args {
					if base, f, ok := fieldOfAddr(a); ok && isObj(base) {
						s.f[f] = fieldVal{written: true}
					}
					// pointer held in a pointer-typed field handed to a callee (copyWithResize(cp.params, ...))
					if base, f, ok := loadedField(a); ok && isObj(base) && isPointer(f.Type()) {
						s.f[f] = fieldVal{written: true}
					}
				}
				callee := x.Common().StaticCallee()
				for j, a := range args {
					if !isObj(a) {
						continue
					}
					if callee == nil || !cf.w.InModule(callee) || callee.Blocks == nil {
						if callee == nil {
							// dynamic call receiving the context (a handler): everything may change
							for _, f := range cf.fields {
								s.f[f] = fieldVal{written: s.f[f].written}
							}
						}
						continue
					}
					eff := cf.effects(callee, j, bindArgs(fn, nil, x, callee), 0)
					for _, f := range cf.fields {
						s.f[f] = applyEffect(s.f[f], resolveParamEffect(eff[f], args))
					}
				}
			}
		}
		return s
	}
	// iterate to fixpoint
	for iter := 0; iter < 50; iter++ {
		changed := false
		for _, b := range fn.Blocks {
			var s ctxState
			for _, p := range b.Preds {
				if ps, ok := in[p]; ok {
					s = meetState(s, transfer(p, ps, false))
				}
			}
			if b == fn.Blocks[0] {
				s = ctxState{}
			}
			if old, ok := in[b]; !ok || !equalState(old, s) {
				in[b] = s
				changed = true
			}
		}
		if !changed {
			break
		}
	}
	for _, b := range fn.Blocks {
		transfer(b, in[b], true)
	}
}

func (cf *CtxFlow) describe(st ctxState, names ...string) string {
	var parts []string
	for _, n := range names {
		parts = append(parts, n+"="+st.f[cf.field(n)].String())
	}
	sort.Strings(parts)
	return strings.Join(parts, " ")
}

// ctxAcquisitions lists the contexts taken from a tree pool in fn: the value (type assertion result) and its defining
// instruction.
func (cf *CtxFlow) acquisitions(p *Proto, fn *ssa.Function) (vals []ssa.Value, defs []ssa.Instruction) {
	eachInstr(fn, func(in ssa.Instruction) {
		c, ok := in.(*ssa.Call)
		if !ok || !isMethodNamed(calleeObj(c), "sync", "Pool", "Get") {
			return
		}
		if _, f, ok := fieldOfAddr(callArgs(c)[0]); !ok || f != p.PoolField {
			return
		}
		if refs := c.Referrers(); refs != nil {
			for _, ref := range *refs {
				if ta, ok := ref.(*ssa.TypeAssert); ok {
					vals = append(vals, ta)
					defs = append(defs, ta)
					return
				}
			}
		}
		vals = append(vals, c)
		defs = append(defs, c)
	})
	return
}

// resolveParamEffect turns "stores the value of parameter k" into a constant when the call passes one (c.scrub(RedirectHandler)).
func resolveParamEffect(e fieldEffect, args []ssa.Value) fieldEffect {
	if e.kind != kParam {
		return e
	}
	if int(e.k) < len(args) {
		if n, ok := constInt(args[e.k]); ok {
			e.kind, e.k = kConst, n
			return e
		}
	}
	e.kind, e.k = kUnknown, 0
	return e
}
