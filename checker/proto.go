package main

import (
	"go/types"

	"golang.org/x/tools/go/ssa"
)

// Proto gathers the constructs of the publication protocol, resolved by type structure: the writer lock is the field
// of type sync.Mutex in Router, the published pointer the field of type atomic.Pointer[T].
type Proto struct {
	w          *World
	Router     *types.Named
	Txn        *types.Named
	Mu         *types.Var // Router.mu
	Tree       *types.Var // Router.tree
	TreeType   *types.Named
	RootTxn    *types.Var // Txn.rootTxn
	Write      *types.Var // Txn.write
	TxnFox     *types.Var
	InnerTxn   *types.Named           // tXn
	PoolField  *types.Var             // iTree.ctx
	CtxType    *types.Named           // cTx
	Loaders    map[*ssa.Function]bool // functions that (transitively, through static module calls) load Router.tree
	DirectLoad map[*ssa.Function]bool
	guardSeen map[*ssa.Function]bool
}

type protoSite struct {
	fn   *ssa.Function
	call ssa.CallInstruction
	name string // method name: Load, Store, Swap, CompareAndSwap, Lock, Unlock, TryLock
}

func newProto(w *World) *Proto {
	p := &Proto{w: w}
	p.Router = w.FoxType("Router")
	p.Txn = w.FoxType("Txn")
	p.TreeType = w.FoxType("iTree")
	p.Tree = w.FieldOfType(p.Router, "atomic.Pointer[iTree] (or *iTree)", func(t types.Type) bool {
		if isNamed(t, "sync/atomic", "Pointer") {
			if n, ok := types.Unalias(t).(*types.Named); ok && n.TypeArgs().Len() == 1 && namedOf(n.TypeArgs().At(0)) == p.TreeType {
				return true
			}
			return false
		}
		if pt, ok := t.(*types.Pointer); ok {
			return namedOf(pt.Elem()) == p.TreeType
		}
		return false
	})
	p.Mu = routerLockField(w, p.Router)
	p.TreeType = w.FoxType("iTree")
	p.RootTxn = w.Field(p.Txn, "rootTxn")
	p.Write = w.Field(p.Txn, "write")
	p.TxnFox = w.Field(p.Txn, "fox")
	p.InnerTxn = namedOf(p.RootTxn.Type())
	if p.InnerTxn == nil {
		anchorFail("type of Txn.rootTxn")
	}
	p.PoolField = w.FieldOfType(p.TreeType, "sync.Pool", func(t types.Type) bool { return isNamed(t, "sync", "Pool") })
	p.CtxType = w.FoxType("cTx")
	p.computeLoaders()
	return p
}

// routerLockField resolves the writer lock: the field of Router of type sync.Mutex (or RWMutex). When the struct has
// several mutexes, the writer lock is the one acquired by (*Router).txnWith, the function that opens transactions.
func routerLockField(w *World, router *types.Named) *types.Var {
	st := router.Underlying().(*types.Struct)
	var cands []*types.Var
	for i := 0; i < st.NumFields(); i++ {
		t := st.Field(i).Type()
		if isNamed(t, "sync", "Mutex") || isNamed(t, "sync", "RWMutex") {
			cands = append(cands, st.Field(i))
		}
	}
	if len(cands) == 1 {
		return cands[0]
	}
	if len(cands) == 0 {
		anchorFail("Router has no field of type sync.Mutex")
	}
	var found *types.Var
	if fn := w.TryMethod("Router", "txnWith"); fn != nil {
		eachInstr(fn, func(in ssa.Instruction) {
			site, ok := in.(ssa.CallInstruction)
			if !ok {
				return
			}
			obj := calleeObj(site)
			if obj == nil || (obj.Name() != "Lock" && obj.Name() != "RLock") {
				return
			}
			if args := callArgs(site); len(args) > 0 {
				if _, f, ok := fieldOfAddr(args[0]); ok {
					for _, c := range cands {
						if c == f {
							found = f
						}
					}
				}
			}
		})
	}
	if found == nil {
		anchorFail("Router has %d mutex fields and none is acquired by txnWith", len(cands))
	}
	return found
}

// sites lists calls of sync/atomic.Pointer or sync.Mutex methods whose receiver is the given Router field.
func (p *Proto) sites(field *types.Var) []protoSite {
	var out []protoSite
	for _, fn := range p.w.ModuleFuncs() {
		eachInstr(fn, func(in ssa.Instruction) {
			site, ok := in.(ssa.CallInstruction)
			if !ok {
				return
			}
			args := callArgs(site)
			if len(args) == 0 {
				return
			}
			_, f, ok := fieldOfAddr(args[0])
			if !ok || f != field {
				return
			}
			obj := calleeObj(site)
			if obj == nil {
				return
			}
			out = append(out, protoSite{fn, site, obj.Name()})
		})
	}
	return out
}

// plainAccesses lists direct loads/stores of the field (not through atomic methods): present only if the field is
// not an atomic.Pointer any more.
func (p *Proto) plainAccesses(field *types.Var) []ssa.Instruction {
	var out []ssa.Instruction
	for _, fn := range p.w.ModuleFuncs() {
		eachInstr(fn, func(in ssa.Instruction) {
			switch x := in.(type) {
			case *ssa.Store:
				if _, f, ok := fieldOfAddr(x.Addr); ok && f == field {
					out = append(out, in)
				}
			case *ssa.UnOp:
				if _, f, ok := loadedField(x); ok && f == field {
					out = append(out, in)
				}
			}
		})
	}
	return out
}

func (p *Proto) computeLoaders() {
	p.DirectLoad = map[*ssa.Function]bool{}
	for _, s := range p.sites(p.Tree) {
		if s.name == "Load" {
			p.DirectLoad[s.fn] = true
		}
	}
	p.Loaders = map[*ssa.Function]bool{}
	for f := range p.DirectLoad {
		p.Loaders[f] = true
	}
	changed := true
	for changed {
		changed = false
		for _, fn := range p.w.ModuleFuncs() {
			if p.Loaders[fn] {
				continue
			}
			eachInstr(fn, func(in ssa.Instruction) {
				if site, ok := in.(ssa.CallInstruction); ok {
					if c := staticCallee(site); c != nil && p.Loaders[c] && !p.Loaders[fn] {
						p.Loaders[fn] = true
						changed = true
					}
				}
			})
		}
	}
}

// loadSitesIn returns the instructions of fn that obtain the published tree: direct Loads and calls of loaders.
func (p *Proto) loadSitesIn(fn *ssa.Function) []ssa.Instruction {
	var out []ssa.Instruction
	eachInstr(fn, func(in ssa.Instruction) {
		site, ok := in.(ssa.CallInstruction)
		if !ok {
			return
		}
		if c := staticCallee(site); c != nil && p.Loaders[c] {
			out = append(out, in)
			return
		}
		args := callArgs(site)
		if len(args) > 0 {
			if _, f, ok := fieldOfAddr(args[0]); ok && f == p.Tree {
				if obj := calleeObj(site); obj != nil && obj.Name() == "Load" {
					out = append(out, in)
				}
			}
		}
	})
	return out
}

// isLoadOfField reports whether v is a load of recv.field where recv is the receiver (first parameter) of fn.
func isLoadOfRecvField(fn *ssa.Function, v ssa.Value, field *types.Var) bool {
	base, f, ok := loadedField(v)
	if !ok || f != field {
		return false
	}
	return len(fn.Params) > 0 && base == ssa.Value(fn.Params[0])
}

// txnGuardFacts inspects the facts at block b inside a Txn method and reports whether they establish
// txn.write == true and txn.rootTxn != nil.
func (p *Proto) txnGuardFacts(fn *ssa.Function, b *ssa.BasicBlock) (write, live bool) {
	for _, f := range factsAtBlock(b) {
		if isLoadOfRecvField(fn, f.Cond, p.Write) && f.Val {
			write = true
		}
		if bo, ok := f.Cond.(*ssa.BinOp); ok {
			x, y := bo.X, bo.Y
			if isNilConst(x) {
				x, y = y, x
			}
			if isNilConst(y) && isLoadOfRecvField(fn, x, p.RootTxn) {
				if (bo.Op.String() == "==" && !f.Val) || (bo.Op.String() == "!=" && f.Val) {
					live = true
				}
			}
			// err := txn.check(mutation) ... err == nil: a guard helper of the module on the same transaction
			if isNilConst(y) && ((bo.Op.String() == "==" && f.Val) || (bo.Op.String() == "!=" && !f.Val)) {
				if c, ok := x.(*ssa.Call); ok && len(fn.Params) > 0 {
					if g := c.Call.StaticCallee(); g != nil && p.w.InModule(g) && len(g.Blocks) > 0 && g != fn && len(c.Call.Args) > 0 && c.Call.Args[0] == ssa.Value(fn.Params[0]) {
						gl, wk := p.guardSummary(g)
						if gl {
							live = true
						}
						if wk >= 0 && wk < len(c.Call.Args) {
							if v, isConst := constBool(c.Call.Args[wk]); isConst && v {
								write = true
							}
						}
						if wk == -2 {
							write = true
						}
					}
				}
			}
		}
	}
	return
}

// guardSummary describes a guard helper g(txn, ...) error: liveOnReturn — every return of g lies where rootTxn != nil is
// known (the settled case panics); writeParam — index of a bool parameter k such that every `return nil` lies where
// txn.write is known or k is known false (-2: where txn.write is known, unconditionally; -1: neither).
func (p *Proto) guardSummary(g *ssa.Function) (liveOnReturn bool, writeParam int) {
	if p.guardSeen == nil {
		p.guardSeen = map[*ssa.Function]bool{}
	}
	if p.guardSeen[g] {
		return false, -1
	}
	p.guardSeen[g] = true
	defer delete(p.guardSeen, g)
	liveOnReturn, writeParam = true, -2
	nret := 0
	for _, b := range g.Blocks {
		if len(b.Instrs) == 0 {
			continue
		}
		rt, ok := b.Instrs[len(b.Instrs)-1].(*ssa.Return)
		if !ok {
			continue
		}
		nret++
		wr, lv := p.txnGuardFacts(g, b)
		if !lv {
			liveOnReturn = false
		}
		if len(rt.Results) == 0 {
			writeParam = -1
			continue
		}
		res := rt.Results[len(rt.Results)-1]
		if !isNilConst(res) {
			if _, isConst := res.(*ssa.Const); !isConst {
				if _, isLoad := res.(*ssa.UnOp); !isLoad { // a sentinel error loaded from a package variable is "not nil"
					writeParam = -1
				}
			}
			continue
		}
		if wr {
			continue
		}
		// or a bool parameter known false here; a merge block is judged edge by edge (`if mutation && !txn.write {...}; return nil`)
		k := -1
		for _, f := range factsAtBlock(b) {
			if prm, ok := f.Cond.(*ssa.Parameter); ok && !f.Val {
				k = paramIndex(g, prm)
			}
		}
		if k < 0 && len(b.Preds) > 1 {
			all := true
			for _, q := range b.Preds {
				fs := factsAtBlock(q)
				if ef, ok := edgeFact(q, b); ok {
					fs = append(fs, ef)
				}
				okEdge := false
				for _, f := range fs {
					f = normFact(f)
					if isLoadOfRecvField(g, f.Cond, p.Write) && f.Val {
						okEdge = true
					}
					if prm, ok := f.Cond.(*ssa.Parameter); ok && !f.Val {
						if k < 0 || k == paramIndex(g, prm) {
							k = paramIndex(g, prm)
							okEdge = true
						}
					}
				}
				if !okEdge {
					all = false
				}
			}
			if !all {
				k = -1
			}
		}
		switch {
		case k < 0:
			writeParam = -1
		case writeParam == -2 || writeParam == k:
			writeParam = k
		default:
			writeParam = -1
		}
	}
	if nret == 0 {
		return false, -1
	}
	return
}

// mustPassThrough reports whether every path from the entry of fn to instruction `to`, restricted to the live
// blocks, executes instruction `via` first.
func mustPassThrough(fn *ssa.Function, bind binding, via, to ssa.Instruction) bool {
	live := liveBlocks(fn, bind)
	if via.Block() == to.Block() {
		if instrIndex(via) < instrIndex(to) {
			return true
		}
		// `to` precedes `via` in the same block: reaching the block at all executes `to` first
		return !live[to.Block()]
	}
	seen := map[*ssa.BasicBlock]bool{}
	stack := []*ssa.BasicBlock{fn.Blocks[0]}
	for len(stack) > 0 {
		b := stack[len(stack)-1]
		stack = stack[:len(stack)-1]
		if seen[b] {
			continue
		}
		seen[b] = true
		if b == to.Block() {
			return false
		}
		if b == via.Block() {
			continue // barrier
		}
		stack = append(stack, liveSuccs(fn, bind, b)...)
	}
	return true
}

// errorGlobal: v is (an interface holding / a load of) the package-level error variable named name.
func isLoadOfGlobal(v ssa.Value, name string) bool {
	v = stripConv(v)
	if mi, ok := v.(*ssa.MakeInterface); ok {
		v = stripConv(mi.X)
	}
	u, ok := v.(*ssa.UnOp)
	if !ok {
		return false
	}
	g, ok := u.X.(*ssa.Global)
	return ok && g.Name() == name
}
