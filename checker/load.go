package main

import (
	"fmt"
	"go/ast"
	"go/token"
	"go/types"
	"os"
	"path/filepath"
	"sort"
	"strings"

	"golang.org/x/tools/go/packages"
	"golang.org/x/tools/go/ssa"
	"golang.org/x/tools/go/ssa/ssautil"
)

const modulePath = "github.com/tigerwill90/fox"

// World is the resolved program every rule works on: type-checked syntax of the module
// packages plus the SSA form of the whole program (dependencies included).
type World struct {
	RepoDir string
	Fset    *token.FileSet
	Pkgs    []*packages.Package // module packages, sorted by path
	ByPath  map[string]*packages.Package
	Prog    *ssa.Program
	SSAPkgs map[string]*ssa.Package

	Fox    *packages.Package
	FoxSSA *ssa.Package

	GOOS, GOARCH string

	allFuncs   map[*ssa.Function]bool
	modFuncs   []*ssa.Function // functions (incl. anonymous and methods) defined in module packages
	funcDecls  map[*types.Func]*ast.FuncDecl
	fieldOwner map[*types.Var]string
}

// anchorError is raised (via panic) when a construct a rule is anchored on cannot be found. It stops the check
// with exit status 2: the checker does not know the code any more and says so instead of passing vacuously.
type anchorError struct{ msg string }

func (e anchorError) Error() string { return "ANCHOR-UNRESOLVED " + e.msg }

func anchorFail(format string, args ...any) {
	panic(anchorError{fmt.Sprintf(format, args...)})
}

func loadWorld(repo, goos, goarch string) (*World, error) {
	env := os.Environ()
	// go/packages runs the `go` found on PATH; the repository needs go >= 1.24 and only go1.26.8 is installed
	// beside the default toolchain, so put it first (GOTOOLCHAIN=local keeps it from switching).
	if _, err := os.Stat("/opt/veriftools/go1.26.8/bin/go"); err == nil && !strings.HasPrefix(os.Getenv("PATH"), "/opt/veriftools/go1.26.8/bin:") {
		os.Setenv("PATH", "/opt/veriftools/go1.26.8/bin:"+os.Getenv("PATH")) // exec.LookPath uses this process's PATH
		env = os.Environ()
	}
	env = append(env, "GOFLAGS=-mod=mod", "GOPROXY=off", "GOWORK=off", "GOSUMDB=off", "GOTOOLCHAIN=local", "CGO_ENABLED=0")
	if goos != "" {
		env = append(env, "GOOS="+goos)
	}
	if goarch != "" {
		env = append(env, "GOARCH="+goarch)
	}
	cfg := &packages.Config{
		Mode:  packages.LoadAllSyntax,
		Dir:   repo,
		Env:   env,
		Tests: false,
	}
	pkgs, err := packages.Load(cfg, "./...")
	if err != nil {
		return nil, fmt.Errorf("packages.Load: %w", err)
	}
	var errs []string
	packages.Visit(pkgs, nil, func(p *packages.Package) {
		for _, e := range p.Errors {
			errs = append(errs, e.Error())
		}
	})
	if len(errs) > 0 {
		sort.Strings(errs)
		if len(errs) > 10 {
			errs = errs[:10]
		}
		return nil, fmt.Errorf("the tree does not type-check:\n  %s", strings.Join(errs, "\n  "))
	}
	w := &World{RepoDir: repo, ByPath: map[string]*packages.Package{}, SSAPkgs: map[string]*ssa.Package{}, GOOS: goos, GOARCH: goarch}
	for _, p := range pkgs {
		if p.PkgPath == modulePath || strings.HasPrefix(p.PkgPath, modulePath+"/") {
			w.Pkgs = append(w.Pkgs, p)
			w.ByPath[p.PkgPath] = p
		}
	}
	sort.Slice(w.Pkgs, func(i, j int) bool { return w.Pkgs[i].PkgPath < w.Pkgs[j].PkgPath })
	if len(w.Pkgs) < 9 {
		return nil, fmt.Errorf("expected at least 9 module packages, loaded %d", len(w.Pkgs))
	}
	w.Fset = pkgs[0].Fset
	prog, _ := ssautil.AllPackages(pkgs, ssa.InstantiateGenerics)
	prog.Build()
	w.Prog = prog
	for _, p := range w.Pkgs {
		sp := prog.Package(p.Types)
		if sp == nil {
			return nil, fmt.Errorf("no SSA package for %s", p.PkgPath)
		}
		w.SSAPkgs[p.PkgPath] = sp
	}
	w.Fox = w.ByPath[modulePath]
	w.FoxSSA = w.SSAPkgs[modulePath]
	if w.Fox == nil {
		return nil, fmt.Errorf("package %s not loaded", modulePath)
	}
	w.allFuncs = ssautil.AllFunctions(prog)
	for fn := range w.allFuncs {
		if w.InModule(fn) && fn.Blocks != nil {
			// compiler-generated wrappers, bound-method closures and thunks carry no source of their own
			if syn := fn.Synthetic; strings.Contains(syn, "wrapper") || strings.Contains(syn, "bound method") || strings.Contains(syn, "thunk") {
				continue
			}
			w.modFuncs = append(w.modFuncs, fn)
		}
	}
	sort.Slice(w.modFuncs, func(i, j int) bool {
		a, b := w.modFuncs[i], w.modFuncs[j]
		if a.Pos() != b.Pos() {
			return a.Pos() < b.Pos()
		}
		return a.String() < b.String()
	})
	w.funcDecls = map[*types.Func]*ast.FuncDecl{}
	for _, p := range w.Pkgs {
		for _, f := range p.Syntax {
			for _, d := range f.Decls {
				if fd, ok := d.(*ast.FuncDecl); ok {
					if obj, ok := p.TypesInfo.Defs[fd.Name].(*types.Func); ok {
						w.funcDecls[obj] = fd
					}
				}
			}
		}
	}
	theWorld = w
	return w, nil
}

// InModule reports whether fn is defined (syntactically) in a package of the module. Instantiations of
// generic module functions count; synthetic wrappers/thunks do not unless they have a module origin.
func (w *World) InModule(fn *ssa.Function) bool {
	if fn == nil {
		return false
	}
	root := fn
	for root.Parent() != nil {
		root = root.Parent()
	}
	if o := root.Origin(); o != nil {
		root = o
	}
	if root.Pkg != nil {
		pp := root.Pkg.Pkg.Path()
		return pp == modulePath || strings.HasPrefix(pp, modulePath+"/")
	}
	if obj := root.Object(); obj != nil && obj.Pkg() != nil {
		pp := obj.Pkg().Path()
		return pp == modulePath || strings.HasPrefix(pp, modulePath+"/")
	}
	return false
}

// InPkg reports whether fn belongs (syntactically) to the given module package path.
func (w *World) InPkg(fn *ssa.Function, path string) bool {
	root := fn
	for root.Parent() != nil {
		root = root.Parent()
	}
	if o := root.Origin(); o != nil {
		root = o
	}
	if root.Pkg != nil {
		return root.Pkg.Pkg.Path() == path
	}
	if obj := root.Object(); obj != nil && obj.Pkg() != nil {
		return obj.Pkg().Path() == path
	}
	return false
}

// ModuleFuncs returns every function with a body defined in the module, in source order.
func (w *World) ModuleFuncs() []*ssa.Function { return w.modFuncs }

// FoxFuncs returns module functions of the root package.
func (w *World) FoxFuncs() []*ssa.Function {
	var out []*ssa.Function
	for _, f := range w.modFuncs {
		if w.InPkg(f, modulePath) {
			out = append(out, f)
		}
	}
	return out
}

func (w *World) Pos(p token.Pos) string {
	if !p.IsValid() {
		return "-"
	}
	pos := w.Fset.Position(p)
	rel, err := filepath.Rel(w.RepoDir, pos.Filename)
	if err != nil || strings.HasPrefix(rel, "..") {
		rel = pos.Filename
	}
	return fmt.Sprintf("%s:%d", rel, pos.Line)
}

// InstrPos gives a position for an instruction, falling back to the nearest earlier instruction of its block (or
// the function) when the instruction itself has none (implicit returns, synthesized jumps).
func (w *World) InstrPos(in ssa.Instruction) string {
	if in.Pos().IsValid() {
		return w.Pos(in.Pos())
	}
	b := in.Block()
	idx := instrIndex(in)
	for i := idx - 1; i >= 0; i-- {
		if b.Instrs[i].Pos().IsValid() {
			return w.Pos(b.Instrs[i].Pos())
		}
	}
	for d := b.Idom(); d != nil; d = d.Idom() {
		for i := len(d.Instrs) - 1; i >= 0; i-- {
			if d.Instrs[i].Pos().IsValid() {
				return w.Pos(d.Instrs[i].Pos())
			}
		}
	}
	return w.Pos(in.Parent().Pos())
}

// ---- anchors ---------------------------------------------------------------------------------------------

// NamedType returns the named type pkg.name or fails the anchor.
func (w *World) NamedType(pkgPath, name string) *types.Named {
	p := w.ByPath[pkgPath]
	if p == nil {
		anchorFail("package %s", pkgPath)
	}
	obj := p.Types.Scope().Lookup(name)
	tn, ok := obj.(*types.TypeName)
	if !ok {
		anchorFail("type %s.%s", pkgPath, name)
	}
	n, ok := tn.Type().(*types.Named)
	if !ok {
		anchorFail("type %s.%s is not a named type", pkgPath, name)
	}
	return n
}

func (w *World) FoxType(name string) *types.Named { return w.NamedType(modulePath, name) }

// Field returns the field object `name` of struct type t (named).
func (w *World) Field(t *types.Named, name string) *types.Var {
	st, ok := t.Underlying().(*types.Struct)
	if !ok {
		anchorFail("%s is not a struct", t)
	}
	for i := 0; i < st.NumFields(); i++ {
		if st.Field(i).Name() == name {
			return st.Field(i)
		}
	}
	anchorFail("field %s.%s", t.Obj().Name(), name)
	return nil
}

// FieldOfType returns the unique field of struct t whose type satisfies pred.
func (w *World) FieldOfType(t *types.Named, what string, pred func(types.Type) bool) *types.Var {
	st, ok := t.Underlying().(*types.Struct)
	if !ok {
		anchorFail("%s is not a struct", t)
	}
	var found *types.Var
	for i := 0; i < st.NumFields(); i++ {
		if pred(st.Field(i).Type()) {
			if found != nil {
				anchorFail("%s has more than one field of type %s", t.Obj().Name(), what)
			}
			found = st.Field(i)
		}
	}
	if found == nil {
		anchorFail("%s has no field of type %s", t.Obj().Name(), what)
	}
	return found
}

// Func returns the SSA function for a package-level function of the fox package.
func (w *World) Func(name string) *ssa.Function {
	return w.FuncIn(modulePath, name)
}

func (w *World) FuncIn(pkgPath, name string) *ssa.Function {
	sp := w.SSAPkgs[pkgPath]
	if sp == nil {
		anchorFail("package %s", pkgPath)
	}
	fn := sp.Func(name)
	if fn == nil || fn.Blocks == nil {
		anchorFail("function %s.%s", pkgPath, name)
	}
	return fn
}

// TryFuncIn is FuncIn without failing.
func (w *World) TryFuncIn(pkgPath, name string) *ssa.Function {
	sp := w.SSAPkgs[pkgPath]
	if sp == nil {
		return nil
	}
	fn := sp.Func(name)
	if fn == nil || fn.Blocks == nil {
		return nil
	}
	return fn
}

// TryFunc is Func without failing.
func (w *World) TryFunc(name string) *ssa.Function {
	fn := w.FoxSSA.Func(name)
	if fn == nil || fn.Blocks == nil {
		return nil
	}
	return fn
}

// Method returns the SSA function of method recv.name where recv is a named type of package fox. Pointer and value
// receivers are both looked up.
func (w *World) Method(recv, name string) *ssa.Function {
	fn := w.TryMethodIn(modulePath, recv, name)
	if fn == nil {
		anchorFail("method %s.%s", recv, name)
	}
	return fn
}

func (w *World) TryMethod(recv, name string) *ssa.Function {
	return w.TryMethodIn(modulePath, recv, name)
}

func (w *World) TryMethodIn(pkgPath, recv, name string) *ssa.Function {
	p := w.ByPath[pkgPath]
	if p == nil {
		return nil
	}
	tn, ok := p.Types.Scope().Lookup(recv).(*types.TypeName)
	if !ok {
		return nil
	}
	for _, t := range []types.Type{tn.Type(), types.NewPointer(tn.Type())} {
		ms := types.NewMethodSet(t)
		for i := 0; i < ms.Len(); i++ {
			sel := ms.At(i)
			if sel.Obj().Name() == name && len(sel.Index()) == 1 {
				fn := w.Prog.FuncValue(sel.Obj().(*types.Func))
				if fn != nil && fn.Blocks != nil {
					return fn
				}
			}
		}
	}
	return nil
}

// MethodsOf lists the declared methods (pointer and value receivers) of a fox named type, sorted by name.
func (w *World) MethodsOf(recv string) []*ssa.Function {
	named := w.FoxType(recv)
	var out []*ssa.Function
	for i := 0; i < named.NumMethods(); i++ {
		fn := w.Prog.FuncValue(named.Method(i))
		if fn != nil && fn.Blocks != nil {
			out = append(out, fn)
		}
	}
	sort.Slice(out, func(i, j int) bool { return out[i].Name() < out[j].Name() })
	return out
}

// FieldOwner names the struct type declaring field f ("Route.mws").
func (w *World) FieldOwner(f *types.Var) string {
	if w.fieldOwner == nil {
		w.fieldOwner = map[*types.Var]string{}
		for _, p := range w.Pkgs {
			sc := p.Types.Scope()
			for _, n := range sc.Names() {
				tn, ok := sc.Lookup(n).(*types.TypeName)
				if !ok {
					continue
				}
				if st, ok := tn.Type().Underlying().(*types.Struct); ok {
					for i := 0; i < st.NumFields(); i++ {
						w.fieldOwner[st.Field(i)] = tn.Name() + "." + st.Field(i).Name()
					}
				}
			}
		}
	}
	if s, ok := w.fieldOwner[f]; ok {
		return s
	}
	return f.Name()
}

// Decl returns the syntax of a declared function.
func (w *World) Decl(fn *ssa.Function) *ast.FuncDecl {
	if fn == nil {
		return nil
	}
	if o := fn.Origin(); o != nil {
		fn = o
	}
	obj, ok := fn.Object().(*types.Func)
	if !ok {
		return nil
	}
	return w.funcDecls[obj]
}

// PkgOf returns the loaded package a module function belongs to.
func (w *World) PkgOf(fn *ssa.Function) *packages.Package {
	root := fn
	for root.Parent() != nil {
		root = root.Parent()
	}
	if o := root.Origin(); o != nil {
		root = o
	}
	if root.Pkg != nil {
		return w.ByPath[root.Pkg.Pkg.Path()]
	}
	return nil
}

// FuncName gives a stable human readable name: (*T).M, F, F$1 ...
func FuncName(fn *ssa.Function) string {
	if fn == nil {
		return "<nil>"
	}
	s := fn.String()
	s = strings.ReplaceAll(s, modulePath+"/", "")
	s = strings.ReplaceAll(s, modulePath+".", "")
	s = strings.ReplaceAll(s, modulePath, "fox")
	return s
}
