package main

import (
	"fmt"
	"go/token"
	"go/types"
	"strings"

	"golang.org/x/tools/go/ssa"
)

func init() { register("C14", checkC14) }

type recInfo struct {
	w        *World
	recT     *types.Named
	embedded *types.Var // the embedded http.ResponseWriter
	size     *types.Var
	status   *types.Var
	hijacked *types.Var
	notWr    int64
}

func newRecInfo(w *World) *recInfo {
	ri := &recInfo{w: w, recT: w.FoxType("recorder")}
	st := ri.recT.Underlying().(*types.Struct)
	for i := 0; i < st.NumFields(); i++ {
		f := st.Field(i)
		if f.Embedded() && isNamed(f.Type(), "net/http", "ResponseWriter") {
			ri.embedded = f
		}
	}
	if ri.embedded == nil {
		anchorFail("recorder embeds http.ResponseWriter")
	}
	ri.size, ri.status, ri.hijacked = w.Field(ri.recT, "size"), w.Field(ri.recT, "status"), w.Field(ri.recT, "hijacked")
	c, ok := w.Fox.Types.Scope().Lookup("notWritten").(*types.Const)
	if !ok {
		anchorFail("constant notWritten")
	}
	ri.notWr, _ = constantInt64(c)
	return ri
}

// isEmbedded: v is a load of r.ResponseWriter (r = receiver of fn).
func (ri *recInfo) isEmbedded(fn *ssa.Function, v ssa.Value) bool {
	b, f, ok := loadedField(v)
	return ok && f == ri.embedded && b == ssa.Value(fn.Params[0])
}

// derivedFromEmbedded: v is the embedded writer or a type assertion of it.
func (ri *recInfo) derivedFromEmbedded(fn *ssa.Function, v ssa.Value) bool {
	for i := 0; i < 4; i++ {
		switch x := v.(type) {
		case *ssa.Extract:
			v = x.Tuple
			continue
		case *ssa.TypeAssert:
			v = x.X
			continue
		}
		break
	}
	return ri.isEmbedded(fn, v)
}

// sizeIsNotWritten: fact asserting r.size == notWritten (true) or != (false); ok=false if unrelated.
func (ri *recInfo) sizeFact(fn *ssa.Function, f Fact) (isNotWritten bool, ok bool) {
	bo, isBin := f.Cond.(*ssa.BinOp)
	if !isBin {
		return false, false
	}
	x, y := bo.X, bo.Y
	if _, isC := x.(*ssa.Const); isC {
		x, y = y, x
	}
	k, isK := constInt(y)
	b, fld, isLoad := loadedField(x)
	if !isK || !isLoad || fld != ri.size || b != ssa.Value(fn.Params[0]) || k != ri.notWr {
		return false, false
	}
	switch bo.Op {
	case token.EQL:
		return f.Val, true
	case token.NEQ:
		return !f.Val, true
	}
	return false, false
}

func checkC14(w *World, r *Report) {
	r.Explanation = "Accounting discipline of the response recorder (response_writer.go) and of the Context response helpers, decided on every path of each method: every call that forwards body " +
		"bytes to the underlying writer (Write, io.WriteString, ReaderFrom.ReadFrom) has its returned count added to size on every path to the return, the only conditions allowed to skip the addition " +
		"being comparisons of that count with zero (never the error); size leaves 'not written' only together with a forwarded final header or a positive count; a final header is forwarded only while " +
		"nothing was written (so at most once, never after body bytes) and informational headers pass through without state change; the ReadFrom fallback writes through the recorder itself; Flush forwards " +
		"the pending header through the recorder first in both flusher forms; each optional capability is delegated after a type assertion on the underlying writer and otherwise returns an error wrapping " +
		"http.ErrNotSupported; String/Blob/Stream set the content type, then the status, then the body; Redirect rejects codes outside 300..308."
	r.NotDecided = []string{"byte order and content", "behaviour of arbitrary underlying writers", "hijacked connection semantics"}
	r.Assumptions = []string{"the underlying http.ResponseWriter reports the number of bytes it accepted"}
	ri := newRecInfo(w)
	checkC14Accounting(w, r, ri)
	checkC14Header(w, r, ri)
	checkC14Paths(w, r, ri)
	checkC14Capabilities(w, r, ri)
	checkC14HijackedGuard(w, r, ri)
	checkC14Helpers(w, r)
}

// forwardingCalls: calls in fn that hand body bytes to the underlying writer; returns the call and its count result.
func (ri *recInfo) forwardingCalls(fn *ssa.Function) (calls []*ssa.Call) {
	eachInstr(fn, func(in ssa.Instruction) {
		c, ok := in.(*ssa.Call)
		if !ok {
			return
		}
		cc := c.Common()
		if cc.IsInvoke() {
			if (cc.Method.Name() == "Write" || cc.Method.Name() == "WriteString" || cc.Method.Name() == "ReadFrom") && ri.derivedFromEmbedded(fn, cc.Value) {
				calls = append(calls, c)
			}
			return
		}
		obj := calleeObj(c)
		if (isFuncNamed(obj, "io", "WriteString") || isFuncNamed(obj, "io", "Copy") || isFuncNamed(obj, "io", "CopyBuffer") || isFuncNamed(obj, "io", "CopyN")) && len(cc.Args) > 0 {
			if ri.derivedFromEmbedded(fn, stripIface(cc.Args[0])) {
				calls = append(calls, c)
			}
		}
	})
	return
}

func checkC14Accounting(w *World, r *Report, ri *recInfo) {
	ru := r.Rule("C14.1", "bytes are accounted on every exit: for each call of a recorder method that forwards body bytes to the underlying writer, the returned count is added to size on every path to the return; only comparisons of that count with 0 may skip the addition (never the error)", 2)
	for _, fn := range w.MethodsOf("recorder") {
		for _, c := range ri.forwardingCalls(fn) {
			r.Analysed(FuncName(fn))
			var cnt ssa.Value
			if refs := c.Referrers(); refs != nil {
				for _, ref := range *refs {
					if ex, ok := ref.(*ssa.Extract); ok && ex.Index == 0 {
						cnt = ex
					}
				}
			}
			if cnt == nil {
				ru.Fail("forward in "+FuncName(fn), w.Pos(c.Pos()), "the count returned by the underlying writer is used", "count discarded")
				continue
			}
			isCnt := func(v ssa.Value) bool {
				if cv, ok := v.(*ssa.Convert); ok {
					v = cv.X
				}
				return v == cnt
			}
			isAccount := func(in ssa.Instruction) bool {
				st, ok := in.(*ssa.Store)
				if !ok {
					return false
				}
				b, f, ok := fieldOfAddr(st.Addr)
				if !ok || f != ri.size || b != ssa.Value(fn.Params[0]) {
					return false
				}
				bo, ok := st.Val.(*ssa.BinOp)
				if !ok || bo.Op != token.ADD {
					return false
				}
				_, lf, isLoad := loadedField(bo.X)
				if isLoad && lf == ri.size && isCnt(bo.Y) {
					return true
				}
				_, lf, isLoad = loadedField(bo.Y)
				return isLoad && lf == ri.size && isCnt(bo.X)
			}
			// explore paths from the call to each return
			bad := ""
			npaths := 0
			var walk func(b *ssa.BasicBlock, from int, accounted, zeroCnt bool, seen map[*ssa.BasicBlock]bool)
			walk = func(b *ssa.BasicBlock, from int, accounted, zeroCnt bool, seen map[*ssa.BasicBlock]bool) {
				if bad != "" {
					return
				}
				for _, in := range b.Instrs[from:] {
					if isAccount(in) {
						accounted = true
					}
					if _, ok := in.(*ssa.Return); ok {
						npaths++
						if !accounted && !zeroCnt {
							bad = "a return at " + w.InstrPos(in) + " is reachable after the forwarding call without size += n (and without n having been compared to 0)"
						}
						return
					}
				}
				for _, s := range b.Succs {
					if seen[s] {
						continue
					}
					z := zeroCnt
					if f, ok := edgeFact(b, s); ok {
						if bo, ok := f.Cond.(*ssa.BinOp); ok && isCnt(bo.X) {
							if k, ok := constInt(bo.Y); ok && k == 0 {
								// n > 0 false, n != 0 false, n == 0 true, n <= 0 true
								if (bo.Op == token.GTR && !f.Val) || (bo.Op == token.NEQ && !f.Val) || (bo.Op == token.EQL && f.Val) || (bo.Op == token.LEQ && f.Val) {
									z = true
								}
							}
						}
					}
					seen[s] = true
					walk(s, 0, accounted, z, seen)
					delete(seen, s)
				}
			}
			walk(c.Block(), instrIndex(c)+1, false, false, map[*ssa.BasicBlock]bool{c.Block(): true})
			ru.Check("forward in "+FuncName(fn), w.Pos(c.Pos()), "size += n on every path to the return (only n <= 0 may skip it)", bad == "" && npaths > 0, orDefault(bad, fmt.Sprintf("%d path(s) to a return, all accounted", npaths)))
		}
	}
}

func checkC14Header(w *World, r *Report, ri *recInfo) { checkC14HeaderAs(w, r, ri, "C14.2") }

func checkC14HeaderAs(w *World, r *Report, ri *recInfo, id string) {
	ru := r.Rule(id, "header discipline: a final status is forwarded to the underlying writer only while nothing has been written (size == notWritten), informational statuses (1xx except 101) pass through without touching the state, and size leaves notWritten only together with a forwarded header or a positive byte count", 3)
	for _, fn := range w.MethodsOf("recorder") {
		recv := ssa.Value(fn.Params[0])
		eachInstr(fn, func(in ssa.Instruction) {
			switch x := in.(type) {
			case *ssa.Call:
				cc := x.Common()
				if !cc.IsInvoke() || cc.Method.Name() != "WriteHeader" || !ri.isEmbedded(fn, cc.Value) {
					return
				}
				facts := factsAtBlock(x.Block())
				notWritten := false
				lo, hi, not101 := false, false, false
				for _, f := range facts {
					if v, ok := ri.sizeFact(fn, f); ok && v {
						notWritten = true
					}
					if bo, ok := f.Cond.(*ssa.BinOp); ok {
						if _, isParam := bo.X.(*ssa.Parameter); isParam {
							k, _ := constInt(bo.Y)
							switch {
							case bo.Op == token.GEQ && f.Val && k == 100:
								lo = true
							case bo.Op == token.LEQ && f.Val && k == 199, bo.Op == token.LSS && f.Val && k == 200:
								hi = true
							case bo.Op == token.NEQ && f.Val && k == 101:
								not101 = true
							}
						}
					}
				}
				info := lo && hi && not101
				// a final header must be paired with size = 0 in the same block
				sets := false
				for _, y := range x.Block().Instrs {
					if st, ok := y.(*ssa.Store); ok {
						if b, f, ok := fieldOfAddr(st.Addr); ok && f == ri.size && b == recv {
							if k, ok := constInt(st.Val); ok && k == 0 {
								sets = true
							}
						}
					}
				}
				if !info && !(notWritten && sets) {
					// one forward call may serve both kinds of status; judge it path by path
					if okPaths, desc := ri.headerForwardPathwise(fn, x, recv); okPaths {
						ru.Pass("header forward in "+FuncName(fn), w.Pos(x.Pos()), "on every path: nothing written yet; informational statuses leave the state alone, final ones set size = 0 first", desc)
						return
					}
				}
				switch {
				case info:
					ru.Check("informational forward in "+FuncName(fn), w.Pos(x.Pos()), "1xx (not 101) forwarded without state change, only while nothing was written", notWritten && !sets, fmt.Sprintf("size==notWritten=%v changesSize=%v", notWritten, sets))
				default:
					ru.Check("final header forward in "+FuncName(fn), w.Pos(x.Pos()), "forwarded only under size == notWritten, together with size = 0", notWritten && sets, fmt.Sprintf("size==notWritten=%v setsSize0=%v", notWritten, sets))
				}
			case *ssa.Store:
				b, f, ok := fieldOfAddr(x.Addr)
				if !ok || f != ri.size || b != recv {
					return
				}
				k, isK := constInt(x.Val)
				if !isK || k != 0 {
					return
				}
				// paired with a forwarded header in the same block, or under count > 0
				paired := false
				for _, y := range x.Block().Instrs {
					if c, ok := y.(*ssa.Call); ok && c.Common().IsInvoke() && c.Common().Method.Name() == "WriteHeader" && ri.isEmbedded(fn, c.Common().Value) {
						paired = true
					}
				}
				positive := false
				for _, ft := range factsAtBlock(x.Block()) {
					if bo, ok := ft.Cond.(*ssa.BinOp); ok {
						if ex, ok := bo.X.(*ssa.Extract); ok && ex.Index == 0 {
							if z, ok := constInt(bo.Y); ok && z == 0 && ((bo.Op == token.GTR && ft.Val) || (bo.Op == token.NEQ && ft.Val) || (bo.Op == token.LEQ && !ft.Val) || (bo.Op == token.EQL && !ft.Val)) {
								positive = true
							}
						}
					}
				}
				if !paired && !positive {
					// the forward may sit in a later block shared with the informational case
					eachInstr(fn, func(y ssa.Instruction) {
						if c, ok := y.(*ssa.Call); ok && c.Common().IsInvoke() && c.Common().Method.Name() == "WriteHeader" && ri.isEmbedded(fn, c.Common().Value) {
							if okp, _ := ri.headerForwardPathwise(fn, c, recv); okp {
								paired = true
							}
						}
					})
				}
				ru.Check("size = 0 in "+FuncName(fn), w.Pos(x.Pos()), "size leaves notWritten only with a forwarded header or a positive byte count", paired || positive, fmt.Sprintf("forwardedHeader=%v positiveCount=%v", paired, positive))
			}
		})
	}
	// WriteHeader records the status it forwards
	wh := w.Method("recorder", "WriteHeader")
	okStatus := false
	eachInstr(wh, func(in ssa.Instruction) {
		if st, ok := in.(*ssa.Store); ok {
			if b, f, ok := fieldOfAddr(st.Addr); ok && f == ri.status && b == ssa.Value(wh.Params[0]) && st.Val == ssa.Value(wh.Params[1]) {
				// forwarded with the same code in the same block
				for _, y := range st.Block().Instrs {
					if c, ok := y.(*ssa.Call); ok && c.Common().IsInvoke() && c.Common().Method.Name() == "WriteHeader" && len(c.Common().Args) == 1 && c.Common().Args[0] == ssa.Value(wh.Params[1]) {
						okStatus = true
					}
				}
			}
		}
	})
	if !okStatus {
		eachInstr(wh, func(y ssa.Instruction) {
			if c, ok := y.(*ssa.Call); ok && c.Common().IsInvoke() && c.Common().Method.Name() == "WriteHeader" && ri.isEmbedded(wh, c.Common().Value) && len(c.Common().Args) == 1 && c.Common().Args[0] == ssa.Value(wh.Params[1]) {
				if okp, _ := ri.headerForwardPathwise(wh, c, ssa.Value(wh.Params[0])); okp {
					okStatus = true // every final path stores status = code before forwarding that code
				}
			}
		})
	}
	ru.Check("status recorded in (*recorder).WriteHeader", w.Pos(wh.Pos()), "the recorded status is the code forwarded", okStatus, fmt.Sprint(okStatus))
	// implicit header in Write/WriteString uses the recorded status
	for _, name := range []string{"Write", "WriteString"} {
		fn := w.Method("recorder", name)
		ok := false
		// directly, or in a helper method called on the same recorder
		var scan func(g *ssa.Function, depth int)
		scan = func(g *ssa.Function, depth int) {
			eachInstr(g, func(in ssa.Instruction) {
				c, isCall := in.(*ssa.Call)
				if !isCall {
					return
				}
				if c.Common().IsInvoke() && c.Common().Method.Name() == "WriteHeader" && ri.isEmbedded(g, c.Common().Value) {
					if _, f, isLoad := loadedField(c.Common().Args[0]); isLoad && f == ri.status {
						ok = true
					}
					return
				}
				if callee := c.Call.StaticCallee(); callee != nil && depth < 2 && len(callee.Params) > 0 && len(c.Call.Args) > 0 && c.Call.Args[0] == ssa.Value(g.Params[0]) && callee.Signature.Recv() != nil {
					scan(callee, depth+1)
				}
			})
		}
		scan(fn, 0)
		ru.Check("implicit header in (*recorder)."+name, w.Pos(fn.Pos()), "the first body write forwards the recorded status", ok, fmt.Sprint(ok))
	}
	// accessors
	wr := w.Method("recorder", "Written")
	okW := false
	eachInstr(wr, func(in ssa.Instruction) {
		if ret, ok := in.(*ssa.Return); ok {
			if bo, ok := ret.Results[0].(*ssa.BinOp); ok && bo.Op == token.NEQ {
				if _, f, ok := loadedField(bo.X); ok && f == ri.size {
					if k, ok := constInt(bo.Y); ok && k == ri.notWr {
						okW = true
					}
				}
			}
		}
	})
	ru.Check("(*recorder).Written", w.Pos(wr.Pos()), "Written() is size != notWritten", okW, fmt.Sprint(okW))
	rs := w.Method("recorder", "reset")
	vals := map[*types.Var]string{}
	eachInstr(rs, func(in ssa.Instruction) {
		if st, ok := in.(*ssa.Store); ok {
			if _, f, ok := fieldOfAddr(st.Addr); ok {
				vals[f] = valStr(st.Val)
			}
		}
	})
	okR := strings.HasPrefix(vals[ri.size], fmt.Sprint(ri.notWr)+":") && strings.HasPrefix(vals[ri.status], "200:") && strings.HasPrefix(vals[ri.hijacked], "false:") && vals[ri.embedded] != ""
	ru.Check("(*recorder).reset", w.Pos(rs.Pos()), "reset sets size = notWritten, status = 200, hijacked = false and installs the writer", okR, fmt.Sprintf("size=%s status=%s hijacked=%s", vals[ri.size], vals[ri.status], vals[ri.hijacked]))
}

func checkC14Paths(w *World, r *Report, ri *recInfo) { checkC14PathsAs(w, r, ri, "C14.3") }

func checkC14PathsAs(w *World, r *Report, ri *recInfo, id string) {
	ru := r.Rule(id, "fast and fallback paths agree: the ReadFrom fallback copies through the recorder's own Write (so it is accounted like any write); FlushError forwards the pending header through the recorder before flushing, in both flusher forms", 2)
	rf := w.Method("recorder", "ReadFrom")
	found := false
	eachInstr(rf, func(in ssa.Instruction) {
		c, ok := in.(*ssa.Call)
		if !ok {
			return
		}
		obj := calleeObj(c)
		if !(isFuncNamed(obj, "io", "CopyBuffer") || isFuncNamed(obj, "io", "Copy")) {
			return
		}
		found = true
		// dst = iface(struct{Writer: iface(r)}) or iface(r)
		dst := stripIface(c.Call.Args[0])
		okDst := dst == ssa.Value(rf.Params[0])
		if u, ok := dst.(*ssa.UnOp); ok && u.Op == token.MUL {
			if a, ok := u.X.(*ssa.Alloc); ok {
				if refs := a.Referrers(); refs != nil {
					for _, ref := range *refs {
						if fa, ok := ref.(*ssa.FieldAddr); ok {
							if fr := fa.Referrers(); fr != nil {
								for _, y := range *fr {
									if st, ok := y.(*ssa.Store); ok && stripIface(st.Val) == ssa.Value(rf.Params[0]) {
										okDst = true
									}
								}
							}
						}
					}
				}
			}
		}
		ru.Check("ReadFrom fallback destination", w.Pos(c.Pos()), "the fallback copies into the recorder itself, not into the underlying writer", okDst, valStr(c.Call.Args[0]))
	})
	if !found {
		ru.Fail("ReadFrom fallback", w.Pos(rf.Pos()), "a fallback copy exists for writers without ReaderFrom", "no io.Copy/CopyBuffer call")
	}
	fe := w.Method("recorder", "FlushError")
	selfWH := w.Method("recorder", "WriteHeader")
	nflush := 0
	eachInstr(fe, func(in ssa.Instruction) {
		c, ok := in.(*ssa.Call)
		if !ok || !c.Common().IsInvoke() || (c.Common().Method.Name() != "Flush" && c.Common().Method.Name() != "FlushError") || !ri.derivedFromEmbedded(fe, c.Common().Value) {
			return
		}
		nflush++
		// a guarded self WriteHeader(r.status) must precede: guard block dominates the flush, its true branch calls WriteHeader
		okk := false
		for d := c.Block(); d != nil; d = d.Idom() {
			if len(d.Instrs) == 0 {
				continue
			}
			iff, isIf := d.Instrs[len(d.Instrs)-1].(*ssa.If)
			if !isIf {
				continue
			}
			nw, rel := ri.sizeFact(fe, normFact(Fact{iff.Cond, true}))
			if !rel {
				continue
			}
			branch := d.Succs[0]
			if !nw {
				branch = d.Succs[1]
			}
			for _, y := range branch.Instrs {
				if sc, ok := y.(*ssa.Call); ok && sc.Call.StaticCallee() == selfWH {
					if _, f, ok := loadedField(sc.Call.Args[1]); ok && f == ri.status {
						okk = true
					}
				}
			}
		}
		ru.Check("flush via "+c.Common().Method.Name(), w.Pos(c.Pos()), "if nothing was written yet the recorder's own WriteHeader(status) runs before the flush", okk, fmt.Sprint(okk))
	})
	if nflush < 2 {
		ru.Fail("FlushError forms", w.Pos(fe.Pos()), "both flusher forms (FlushError and http.Flusher) are delegated", fmt.Sprintf("%d found", nflush))
	}
}

func checkC14Capabilities(w *World, r *Report, ri *recInfo) {
	ru := r.Rule("C14.4", "capability template: each optional capability type-asserts the underlying writer, delegates to the asserted value on success and otherwise returns http.ErrNotSupported or an error wrapping it", 3)
	errNS := w.Func("ErrNotSupported")
	// ErrNotSupported() wraps http.ErrNotSupported with %w
	okWrap := false
	eachInstr(errNS, func(in ssa.Instruction) {
		if c, ok := in.(*ssa.Call); ok && isFuncNamed(calleeObj(c), "fmt", "Errorf") {
			if s, ok := constString(c.Call.Args[0]); ok && strings.Contains(s, "%w") {
				okWrap = true
			}
		}
	})
	refsNS := false
	eachInstr(errNS, func(in ssa.Instruction) {
		if u, ok := in.(*ssa.UnOp); ok {
			if g, ok := u.X.(*ssa.Global); ok && g.Name() == "ErrNotSupported" && g.Pkg.Pkg.Path() == "net/http" {
				refsNS = true
			}
		}
	})
	ru.Check("ErrNotSupported()", w.Pos(errNS.Pos()), "wraps http.ErrNotSupported with %w", okWrap && refsNS, fmt.Sprintf("%%w=%v refersToHttpErr=%v", okWrap, refsNS))
	for _, name := range []string{"FlushError", "Push", "Hijack", "SetReadDeadline", "SetWriteDeadline", "EnableFullDuplex"} {
		fn := w.Method("recorder", name)
		r.Analysed(FuncName(fn))
		nassert, okDelegate, okFail := 0, true, false
		eachInstr(fn, func(in ssa.Instruction) {
			switch x := in.(type) {
			case *ssa.TypeAssert:
				if x.CommaOk && ri.isEmbedded(fn, x.X) {
					nassert++
				}
			case *ssa.Call:
				cc := x.Common()
				if cc.IsInvoke() && !ri.derivedFromEmbedded(fn, cc.Value) {
					okDelegate = false
				}
			case *ssa.Return:
				for _, res := range x.Results {
					if !isErrorType(res.Type()) {
						continue
					}
					if c, ok := res.(*ssa.Call); ok && c.Call.StaticCallee() == errNS {
						okFail = true
					}
					if u, ok := stripIface(res).(*ssa.UnOp); ok {
						if g, ok := u.X.(*ssa.Global); ok && g.Name() == "ErrNotSupported" {
							okFail = true
						}
					}
				}
			}
		})
		ru.Check("(*recorder)."+name, w.Pos(fn.Pos()), "type assertion on the underlying writer; delegate on success; ErrNotSupported otherwise", nassert >= 1 && okDelegate && okFail, fmt.Sprintf("assertions=%d delegatesOnlyToUnderlying=%v failsWithNotSupported=%v", nassert, okDelegate, okFail))
	}
	// hijacked flag set only on the success branch of Hijack
	hj := w.Method("recorder", "Hijack")
	okH := false
	eachInstr(hj, func(in ssa.Instruction) {
		if st, ok := in.(*ssa.Store); ok {
			if _, f, ok := fieldOfAddr(st.Addr); ok && f == ri.hijacked {
				for _, ft := range factsAtBlock(st.Block()) {
					if ex, ok := ft.Cond.(*ssa.Extract); ok && ex.Index == 1 && ft.Val {
						if _, isTA := ex.Tuple.(*ssa.TypeAssert); isTA {
							okH = true
						}
					}
				}
			}
		}
	})
	ru.Check("(*recorder).Hijack flag", w.Pos(hj.Pos()), "hijacked is set only when the underlying writer is a Hijacker", okH, fmt.Sprint(okH))
	// ... and only after the delegated Hijack succeeded: a recorder marked hijacked drops every later header and body byte,
	// which is only right when the connection was really taken over
	okS, whyS := false, "the flag is set without a test of the delegated call's error"
	eachInstr(hj, func(in ssa.Instruction) {
		st, ok := in.(*ssa.Store)
		if !ok {
			return
		}
		if _, f, ok := fieldOfAddr(st.Addr); !ok || f != ri.hijacked {
			return
		}
		for _, ft := range factsAtBlock(st.Block()) {
			bo, ok := ft.Cond.(*ssa.BinOp)
			if !ok || !isNilConst(bo.Y) || !isErrorType(bo.X.Type()) {
				continue
			}
			ex, ok := bo.X.(*ssa.Extract)
			if !ok {
				continue
			}
			if c, ok := ex.Tuple.(*ssa.Call); ok && c.Common().IsInvoke() && c.Common().Method.Name() == "Hijack" {
				if (bo.Op == token.EQL && ft.Val) || (bo.Op == token.NEQ && !ft.Val) {
					okS, whyS = true, "set under err == nil of the delegated Hijack"
				}
			}
		}
	})
	ru.Check("(*recorder).Hijack flag after success", w.Pos(hj.Pos()), "hijacked is set only when the delegated Hijack returned no error", okS, whyS)
}

// checkC14HijackedGuard: once the connection was handed over, the recorder must not forward anything. Write and
// WriteString test the flag; every other method that forwards body bytes to the underlying writer has to as well,
// fast path or not (sibling agreement).
func checkC14HijackedGuard(w *World, r *Report, ri *recInfo) {
	ru := r.Rule("C14.6", "nothing is forwarded after a hijack: every call of a recorder method that hands body bytes to the underlying writer (Write, WriteString, ReadFrom, io.WriteString/Copy on it) is dominated by a test that the recorder is not hijacked", 3)
	for _, fn := range w.MethodsOf("recorder") {
		if len(fn.Params) == 0 {
			continue
		}
		recv := ssa.Value(fn.Params[0])
		for _, c := range ri.forwardingCalls(fn) {
			guarded := false
			for _, ft := range factsAtBlock(c.Block()) {
				if b, f, ok := loadedField(ft.Cond); ok && f == ri.hijacked && stripIface(seeThrough(b)) == recv && !ft.Val {
					guarded = true
				}
			}
			ru.Check("forward in "+FuncName(fn), w.Pos(c.Pos()), "reached only when r.hijacked is false", guarded, orDefault(map[bool]string{true: "guarded"}[guarded], "bytes are handed to the underlying writer without a test of the hijacked flag (the sibling methods return http.ErrHijacked)"))
		}
	}
}

func checkC14Helpers(w *World, r *Report) {
	ru := r.Rule("C14.5", "Context helpers: String, Blob and Stream set the Content-Type header, then WriteHeader(code), then write the body, through the context's writer; Redirect returns an error unless 300 <= code <= 308", 2)
	for _, name := range []string{"String", "Blob", "Stream"} {
		fn := w.Method("cTx", name)
		r.Analysed(FuncName(fn))
		var setCT, wh, body []ssa.Instruction
		eachInstr(fn, func(in ssa.Instruction) {
			c, ok := in.(*ssa.Call)
			if !ok {
				return
			}
			obj := calleeObj(c)
			switch {
			case isMethodNamed(obj, "net/http", "Header", "Set"):
				if k, ok := constString(c.Call.Args[1]); ok && k == "Content-Type" {
					setCT = append(setCT, c)
				}
			case c.Common().IsInvoke() && c.Common().Method.Name() == "WriteHeader":
				if len(c.Common().Args) == 1 && c.Common().Args[0] == ssa.Value(fn.Params[1]) {
					wh = append(wh, c)
				}
			case c.Common().IsInvoke() && (c.Common().Method.Name() == "Write" || c.Common().Method.Name() == "WriteString"),
				isFuncNamed(obj, "fmt", "Fprintf"), isFuncNamed(obj, "io", "Copy"), isFuncNamed(obj, "io", "WriteString"):
				body = append(body, c)
			}
		})
		ok := len(setCT) >= 1 && len(wh) == 1 && len(body) >= 1
		why := fmt.Sprintf("setContentType=%d writeHeader(code)=%d bodyWrites=%d", len(setCT), len(wh), len(body))
		if ok {
			for _, s := range setCT {
				if instrReachableFrom(wh[0], s) {
					ok, why = false, "Content-Type is set after the status was written"
				}
			}
			for _, b := range body {
				if !instrDominates(wh[0], b) {
					ok, why = false, "the body can be written before the status"
				}
			}
		}
		ru.Check("(*cTx)."+name, w.Pos(fn.Pos()), "content type, then status (the code argument), then body", ok, why)
		if name == "String" {
			// the body is the formatted text on every path: a raw write of the format string differs for "%%" and for
			// verbs without operands
			bad := ""
			for _, b := range body {
				c := b.(*ssa.Call)
				if !isFuncNamed(calleeObj(c), "fmt", "Fprintf") {
					bad = "body written without formatting at " + w.Pos(c.Pos())
				} else if len(c.Call.Args) != 3 || c.Call.Args[1] != ssa.Value(fn.Params[2]) || c.Call.Args[2] != ssa.Value(fn.Params[3]) {
					bad = "fmt.Fprintf at " + w.Pos(c.Pos()) + " is not called with the helper's format and values"
				}
			}
			ru.Check("(*cTx).String body", w.Pos(fn.Pos()), "every body write is fmt.Fprintf(writer, format, values...)", bad == "" && len(body) > 0, orDefault(bad, "formatted on every path"))
		}
	}
	rd := w.Method("cTx", "Redirect")
	okR, why := false, "no call of http.Redirect"
	eachInstr(rd, func(in ssa.Instruction) {
		c, ok := in.(*ssa.Call)
		if !ok || !isFuncNamed(calleeObj(c), "net/http", "Redirect") {
			return
		}
		lo, hi := false, false
		for _, f := range factsAtBlock(c.Block()) {
			bo, ok := f.Cond.(*ssa.BinOp)
			if !ok || bo.X != ssa.Value(rd.Params[1]) {
				continue
			}
			k, _ := constInt(bo.Y)
			if (bo.Op == token.LSS && !f.Val && k == 300) || (bo.Op == token.GEQ && f.Val && k == 300) {
				lo = true
			}
			if (bo.Op == token.GTR && !f.Val && k == 308) || (bo.Op == token.LEQ && f.Val && k == 308) {
				hi = true
			}
		}
		okR, why = lo && hi && c.Call.Args[3] == ssa.Value(rd.Params[1]), fmt.Sprintf("code>=300:%v code<=308:%v", lo, hi)
	})
	ru.Check("(*cTx).Redirect", w.Pos(rd.Pos()), "http.Redirect is reached only for 300 <= code <= 308, with that code", okR, why)
}

// headerForwardPathwise judges a forward of WriteHeader that is shared by the informational and the final case: on
// every acyclic path from the entry to the call, the state must be "nothing written" and either the three informational
// tests hold and size is not assigned, or one of them fails and size = 0 is assigned before the call.
func (ri *recInfo) headerForwardPathwise(fn *ssa.Function, call *ssa.Call, recv ssa.Value) (bool, string) {
	paths := pathsBetween(fn.Blocks[0], call.Block(), 128)
	if len(paths) == 0 || len(paths) >= 128 {
		return false, ""
	}
	ninfo, nfinal := 0, 0
	for _, path := range paths {
		notWritten := false
		lo, hi, n101 := 0, 0, 0 // 1 true, -1 false
		setsSize, setsStatus, infeasible := false, false, false
		for j, b := range path {
			for _, in := range b.Instrs {
				if in == ssa.Instruction(call) {
					break
				}
				if st, ok := in.(*ssa.Store); ok {
					if bb, f, ok := fieldOfAddr(st.Addr); ok && f == ri.size && bb == recv {
						if k, ok := constInt(st.Val); ok && k == 0 {
							setsSize = true
						} else {
							return false, ""
						}
					}
					if bb, f, ok := fieldOfAddr(st.Addr); ok && f == ri.status && bb == recv {
						if _, isParam := st.Val.(*ssa.Parameter); isParam {
							setsStatus = true
						}
					}
				}
			}
			if j+1 >= len(path) {
				break
			}
			f, ok := edgeFact(b, path[j+1])
			if !ok {
				continue
			}
			// a condition that is a phi of short-circuit evaluation: take the value that flows in along this path
			for depth := 0; depth < 4; depth++ {
				if u, isNot := f.Cond.(*ssa.UnOp); isNot && u.Op == token.NOT {
					f = Fact{u.X, !f.Val}
					continue
				}
				ph, isPhi := f.Cond.(*ssa.Phi)
				if !isPhi {
					break
				}
				resolved := false
				for k := j; k >= 1; k-- {
					if path[k] == ph.Block() {
						for pi, pred := range ph.Block().Preds {
							if pred == path[k-1] {
								f = Fact{ph.Edges[pi], f.Val}
								resolved = true
							}
						}
						break
					}
				}
				if !resolved {
					break
				}
			}
			if cb, isConst := f.Cond.(*ssa.Const); isConst {
				if bv, ok := constBool(cb); ok && bv != f.Val {
					infeasible = true
				}
				continue
			}
			if v, ok := ri.sizeFact(fn, f); ok && v {
				notWritten = true
			}
			if bo, ok := f.Cond.(*ssa.BinOp); ok {
				if _, isParam := bo.X.(*ssa.Parameter); isParam {
					k, _ := constInt(bo.Y)
					sign := map[bool]int{true: 1, false: -1}[f.Val]
					switch {
					case bo.Op == token.GEQ && k == 100:
						lo = sign
					case bo.Op == token.LSS && k == 100:
						lo = -sign
					case bo.Op == token.LEQ && k == 199, bo.Op == token.LSS && k == 200:
						hi = sign
					case bo.Op == token.GTR && k == 199, bo.Op == token.GEQ && k == 200:
						hi = -sign
					case bo.Op == token.NEQ && k == 101:
						n101 = sign
					case bo.Op == token.EQL && k == 101:
						n101 = -sign
					}
				}
			}
		}
		if infeasible {
			continue
		}
		if !notWritten {
			return false, ""
		}
		isInfo := lo == 1 && hi == 1 && n101 == 1
		isFinal := lo == -1 || hi == -1 || n101 == -1
		switch {
		case isInfo && !setsSize:
			ninfo++
		case isFinal && !isInfo && setsSize && setsStatus:
			nfinal++
		default:
			return false, ""
		}
	}
	return ninfo > 0 && nfinal > 0, fmt.Sprintf("%d informational path(s) without state change, %d final path(s) with size = 0", ninfo, nfinal)
}
