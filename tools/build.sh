#!/bin/sh
# Builds /verif/bin/foxcheck from /verif/checker, offline, with the go1.26.8 toolchain + x/tools v0.50.0.
set -e
cd "$(dirname "$0")/../checker"
export PATH=/opt/veriftools/go1.26.8/bin:$PATH GOTOOLCHAIN=local GOFLAGS=-mod=mod GOPROXY=off GOSUMDB=off GOWORK=off CGO_ENABLED=0
mkdir -p ../bin
go build -o ../bin/foxcheck .
