#!/usr/bin/env python3
"""Generates /verif/MANIFEST.json from the table below (one entry per property).

A property is claimed only when bin/foxcheck implements it (listed by `foxcheck -list`); otherwise it goes under
not_applicable with the reason given here.
"""
import json, os, subprocess, sys

HERE = os.path.dirname(os.path.abspath(__file__))
VERIF = os.path.dirname(HERE)

# id -> (technique, level text, level note, design ref)
CLAIMS = {
 "C06": (
  "call-graph reachability (CHA, VTA cross-check) with constant-parameter propagation; guard dominance on the lock sites",
  "Decides, for every path inside the module, that no read entry point of the API (enumerated from the type-checked program: Router/Txn/Iter read "
  "methods, every Context/Route/recorder method, every module-provided handler, middleware and resolver) reaches a lock acquire, condition wait, channel "
  "operation or sleep, and that a read-only transaction never locks or unlocks the writer mutex. This is the static observation point the property itself names "
  "('static call graph from the read entry points to sync.Mutex/RWMutex/channel operations'); a lock added on any read path fails the check with the call chain.",
  "Not decided: progress as observed at run time, blocking inside the standard library, user handlers/middleware/resolvers (analysis boundary, listed in evidence). "
  "Trusted: go/types + go/ssa + CHA call resolution of x/tools v0.50.0; no reflection/unsafe/linkname in the module.",
  "DESIGN.md section 5 C06"),
 "C03": (
  "ownership / escape analysis over SSA (fresh / transaction-private / shared lattice with function summaries, parameter obligations, guard-sensitive phi pruning, cache-membership facts)",
  "Decides the whole immutability discipline of the copy-on-write tree, for every function of the package and every path: each of the (currently 57) constructs that write a node, an element of a "
  "[]*node or reorder/extend such a slice in place targets storage that is fresh or private to the running transaction; the copy-on-write search hands out only private parents; the writable cache "
  "receives only deep-private nodes and is dropped wherever the root set escapes (commit, clone, snapshot); a write transaction never hands out its live root set; Route and root storage are written "
  "only during construction. A new write site anywhere in the package is classified by the same rules, so 'some copy-on-write path mutates a node still reachable from an older root' is excluded "
  "statically rather than sampled over histories.",
  "Not decided: what lookups through a frozen tree return (matcher, C01). Assumes no unsafe/reflect/linkname writes (checked: fox does not import unsafe), node types never cross the API (checked), single-goroutine Txn use. "
  "The analysis fails closed: unrecognised provenance is 'shared'.",
  "DESIGN.md section 5 C03"),
 "C04": (
  "typestate / dominance analysis over SSA (guards, settle-exactly-once path sets, must-dataflow for deferred aborts) plus call-graph reachability",
  "Decides on every path of the protocol functions: the atomic pointer is stored only by the constructor and by Txn.Commit (once, guarded, with the tree the transaction built); "
  "Commit and Abort settle exactly once past their guards (rootTxn cleared, one Unlock) and do nothing when stopped by a guard; every managed write transaction has an Abort "
  "deferred on every exit including panic, registered before anything can panic; Commit is control-dependent on the nil error of the operation; every Txn method has the settled "
  "guard and every mutator call the read-only guard (exhaustive over the method set from go/types); uncommitted state never touches the published pointer. "
  "These are necessary structural conditions of atomicity/isolation ('none of them visible, ever' after abort/error/panic; 'refuses further use'); with C03 and C05 they give the "
  "single-immutable-tree-per-reader argument.",
  "Not decided: what concurrent readers observe at run time; correctness of what a transaction writes (C02). Trusted: go/ssa CFG/dominators; Txn used by one goroutine (documented).",
  "DESIGN.md section 5 C04"),
 "C05": (
  "dominance / must-pass-through on the lock-load-store-unlock sites, who-may-write over Router/iTree fields, path-set typestate for pooled contexts, slice-ownership analysis for append",
  "Decides the ordering and ownership conditions the property calls 'misplaced load, store or unlock': Lock before the load that seeds a write transaction; Store before Unlock; at most "
  "one load of the published tree per path and none in a loop (through callees); contexts go back to the pool of the tree they came from; Router and iTree fields are written only during "
  "construction; every pooled context is released exactly once or handed to the caller and never used after release; no append extends a slice whose backing array is shared with "
  "another object (the NewRoute/Router.mws race). Each is a necessary condition of race-freedom for some schedule.",
  "Not decided: linearizability of observed histories, lost/duplicated commits as observed, absence of panics (need executions). Assumes published trees are immutable (C03) and the "
  "documented happens-before of sync/atomic and sync.Mutex.",
  "DESIGN.md section 5 C05"),
 "C11": (
  "forward must-dataflow over ServeHTTP following the pooled context (callee effect summaries with constant-argument propagation), guard-set (dominating branch facts) and table extraction",
  "Decides the dispatch structure behind the 404/405/OPTIONS answers: on every path to each special handler (no-route, no-method, auto-OPTIONS, redirect) the context exposes no route, no "
  "parameters and no trailing-slash flag (scrubbed, and not undone by the intervening lazy lookups, whose whole call tree is summarised); the scope reported there is the constant the handler "
  "was wrapped with in New (two tables extracted from the code and compared); the OPTIONS and 405 branches are gated by their option flag / method and a non-empty method list; both Allow loops "
  "use the request's host and matched path with the shared matcher in lazy mode, accept under n != nil && (!tsr || route.ignoreTrailingSlash), the 405 loop excludes exactly the request method, and "
  "the Allow header is set before the handler runs.",
  "Not decided: that the listed methods are exactly those that would serve the request (inherits the matcher, C01); '*' handling beyond structure; bodies/statuses of user handlers.",
  "DESIGN.md section 5 C11"),
 "C12": (
  "forward must-dataflow per acquisition of a pooled context over all fields of the context struct (from go/types), with checked exemptions; provenance check of the values stored by Clone",
  "Decides reset coverage: at each of the (currently 9) points where a pooled context is handed to user code (6 handler calls in ServeHTTP, Router.Lookup, Txn.Lookup, CloneWith) every field of "
  "the context struct has been assigned since the context left the pool, unless exempt for a reason that is itself checked (allocation-time constants, scratch never read by Context methods, tsrParams read "
  "only under tsr, the embedded recorder touched only by reset()). A field added to the struct without a reset, a reset variant dropping an assignment, or a branch of ServeHTTP forgetting route/tsr fails. "
  "Clone stores only fresh or immutable values (no alias of pooled params, writer, request or recorder), clones the request and the response headers.",
  "Not decided: what user middleware does with contexts; header maps owned by the underlying writer. Single ownership of contexts is C05.5.",
  "DESIGN.md section 5 C12"),
 "C13": (
  "slice-ownership analysis for append, table extraction and comparison, SSA structure checks of the two composition loops and of every middleware list entry",
  "Decides the structural half of middleware composition: no append extends a middleware slice shared with another object (the concurrent NewRoute race); scope pairing New/ServeHTTP; ServeHTTP -> hall, "
  "Route.Handle -> hbase, Route.HandleMiddleware -> hself; NewRoute composes (hself, hall) from the route's own list after the option loop; both composition loops run from last to first and filter by "
  "scope, the route-only chain also by the global flag, results returned in (route-only, all) order; every entry appended to Router.mws is global, every entry appended to Route.mws is route-scoped and "
  "not global; DefaultOptions prepends Recovery(RouteHandler) then Logger(AllHandlers).",
  "Not decided: order and once-ness of execution as observed for arbitrary configurations (user middleware may not call next).",
  "DESIGN.md section 5 C13"),
 "C14": (
  "path enumeration and guard-set (dominating branch facts) over the SSA of each recorder method; template check of the capability methods; ordering check of the Context helpers",
  "Decides the accounting discipline of the response recorder on every path: each forwarding of body bytes (Write, io.WriteString, ReaderFrom.ReadFrom) adds the returned count to size on every path to "
  "the return, only comparisons of that count with zero may skip it (never the error: the defect repaired in ReadFrom); a final status is forwarded only under size == notWritten together with size = 0, "
  "1xx (not 101) pass through without state change; size leaves notWritten only with a forwarded header or positive count; the ReadFrom fallback copies through the recorder itself; FlushError commits "
  "the header through the recorder in both flusher forms; the six capabilities follow the assert/delegate/ErrNotSupported template (ErrNotSupported() wraps with %w); String/Blob/Stream order "
  "content-type, status (the code argument), body; Redirect only for 300..308.",
  "Not decided: byte order, arbitrary underlying writers' behaviour, hijack semantics, sequences of calls as observed. Trusted: the underlying writer reports accepted byte counts.",
  "DESIGN.md section 5 C14"),
 "C15": (
  "structure / dominance checks of the Recovery closure and recovery function over SSA, must-dataflow for deferred aborts (shared with C04.3), constant audit of the redaction list with canonicalisation computed by the checker",
  "Decides the structural conditions of panic containment: the recovery function is deferred first, before the handler, and calls recover() itself; it re-raises only under errors.Is(value, http.ErrAbortHandler) "
  "and re-raises the recovered value; the user recovery function runs only under !Written() && !connIsBroken(value); every managed write transaction (Updates, View and the single-operation helpers) aborts on "
  "every exit including panic, so the writer lock is released; the redaction list contains the six credential headers and the comparison with dumped header names is capitalisation-insensitive (EqualFold, or a "
  "canonicalised lookup against entries that are all in canonical form), the raw header line being written only when the comparison failed.",
  "Not decided: behaviour for every panic value / response progress as observed; log content beyond the redaction decision.",
  "DESIGN.md section 5 C15"),
 "C18": (
  "constant-table audit (CIDR literals parsed by the checker against the IANA special-purpose registries), AST rule over return statements, call/structure checks of the iterators",
  "Decides: every default trusted/blacklisted CIDR literal lies inside a registered special-purpose block (no globally routable unicast space is trusted by default); every return of every ClientIP method is an error "
  "or an address coming from that strategy's iterator/parser/delegate (never a fabricated fallback); rightmost strategies use only the backward iterator (lines last-to-first, split from the right with LastIndex), the "
  "forward iterator only under Take(limit) in the leftmost strategy; trusted count selects index count-1; single-header takes the last instance; defaults are only the fallback argument of orSlice.",
  "Not decided: parsing of every header content, spoof-resistance as observed, panics on arbitrary input; block-level membership only (carve-outs inside special blocks not chased). Trusted: the registry table embedded in the checker.",
  "DESIGN.md section 5 C18"),
 "C19": (
  "who-writes enumeration per field with guard-set (dominating facts) pairing, nil-test dominance for function-typed option arguments, dynamic-comparability check before interface-keyed map updates",
  "Decides the invariants behind 'a route carries exactly the options it was created with': enabling either trailing-slash mode disables the other at the store, on the same object; NewRoute inherits flags, resolver, "
  "middleware, parameter count and host split before applying options; resolver fields are never assigned nil, the accessor maps the sentinel to nil and Context.ClientIP picks the route's resolver exactly when a route "
  "is set (special handlers see no route: C11.1 repeated); nil handlers/middleware/routes are rejected with ErrInvalidConfig/ErrInvalidRoute before being stored; annotation keys are tested non-nil and dynamically comparable "
  "before the map insert; Hostname/Path/ParamsLen/Annotation accessors read the stored values.",
  "Not decided: last-one-wins for arbitrary option sequences beyond these invariants; user-supplied resolvers.",
  "DESIGN.md section 5 C19"),
 "C20": (
  "path-set counting of emissions over the Logger closure, interval algebra over the guards of level(), guard-set checks for the message fallback, call whitelist",
  "Decides: no record before the handler and exactly one on every path after it; level() compares the status only with constants and its extracted interval map is 2xx->INFO, 3xx->DEBUG, 4xx->WARN, 5xx->ERROR; the "
  "record's level is level(recorded status); Location is read only at DEBUG; message = resolver address / remote address (ErrNoClientIPResolver) / 'unknown'; status, method, host, path attributes come from the matching "
  "accessors after the handler; the closure has no recover/defer and calls only read-only accessors; Recovery is registered outside Logger; special handlers see no route (C11.1 repeated) so the router-wide resolver is used there.",
  "Not decided: record content for every handler behaviour as observed; latency; what the slog.Handler does.",
  "DESIGN.md section 5 C20"),
 "C01": (
  "relational dataflow (len(params) vs. saved counter) on the syntax-level CFG of both matchers, guard-set facts, who-may-call and receiver checks over SSA, context dataflow for the empty-params precondition",
  "Decides structural necessary conditions of correct selection and parameters: one matcher behind every entry point, each entry point looking up in its own root (transaction root / iterator snapshot / once-loaded tree) and "
  "with RawPath when present; the counter saved with each skipped alternative always equals the number of recorded parameters and a backtrack restores both (the invariant whose violation dropped parameters after two nested "
  "backtracks); lookups start with empty params; a leaf is a direct match only after full consumption of path and key (or catch-all / sub-lookup result); parameter alternatives are resumed before catch-all ones; a "
  "trailing-slash candidate is returned only when no alternative is left.",
  "NOT decided: that the matcher computes the documented relation for every route set (priority across splits, infix enumeration, host-then-path fallback), substitution round-trip. Those quantify over route sets and requests "
  "and need execution or proof; the rules here are invariants of the algorithm as coded.",
  "DESIGN.md section 5 C01"),
 "C08": (
  "guard-set (dominating branch facts) on the dispatch sites of ServeHTTP, constant propagation for the status, string-shape abstraction (const / escaped / decoded parts over phis and concatenations) at the Location sink",
  "Decides dispatch and Location construction of trailing-slash actions: redirect only under tsr, method != CONNECT, URL.Path != \"/\", the matched route's redirect flag and path == CleanPath(path) for the very path value "
  "handed to the matcher; ignore-dispatch under the first three and the matched route's ignore flag; 301 for GET else 308; the Location value contains nothing derived from the decoded path and begins with \"../\", \"./\" or a "
  "segment tested free of ':' (the repaired defect); the query string is appended; every recorded trailing-slash candidate saves its parameters, taking sub-lookup candidates from the sub-context's tsr copy.",
  "NOT decided: when a slash-adjusted route exists and which one is selected (matcher behaviour depending on how siblings split the radix nodes); that CleanPath is canonical (C17).",
  "DESIGN.md section 5 C08"),
 "C09": (
  "guard-set on the host-to-path transition of the host matcher (syntax-level CFG), return-shape check of StripHostPort over SSA, dominance of the fallback resets",
  "Decides: the path phase under a host node starts only when the whole host and the whole node key were consumed and through the '/' child (the repaired defect: hosts extending or truncating a registered hostname); the host "
  "given to the matcher is StripHostPort(Host), non-empty; StripHostPort trims one trailing dot except for empty/unparsable input; the hostname result is returned exactly when a node was found; the path-only fallback starts with "
  "params truncated and tsr cleared; the path-only shortcut only for a root whose single child is '/'.",
  "NOT decided: label-by-label equality of hostname parameters for all hosts (walk-loop behaviour), choice among several hostname routes.",
  "DESIGN.md section 5 C09"),
 "C02": (
  "path counting (path-set dataflow) over the tree mutators, paired-effect check in truncate, guard-set on the exact-pattern lookups, constructor discipline and root-selection rules, sentinel tracing of returned errors",
  "Decides structural necessary conditions of the map model: +1/-1/0 change of the route count on exactly the success paths of insert/remove/update and none on failure paths (a failed call inside a transaction leaves Len "
  "unchanged); the count follows every drop performed by truncate (the repaired defect); Router.Route, Txn.Route and Iter.Routes accept under one test (found, not trailing-slash adjusted, same pattern) and each reads its own root "
  "(a transaction's uncommitted one, an iterator's snapshot); Has delegates to Route; commit only after a nil error; nodes are built only by the constructors that derive params/infix sub-node (so Update is seen by all accessors); "
  "errors returned by insert/update wrap the documented sentinels with %w and Delete maps a miss to ErrRouteNotFound.",
  "NOT decided: that insert/update/remove/truncate implement map semantics for every history (four split and five merge cases), membership of RouteConflictError.Matched, iterator contents for arbitrary trees.",
  "DESIGN.md section 5 C02"),
 "C07": (
  "constructor-discipline rule over every node allocation and every newNodeFromRef call site, sort-before-derive dominance in newNode, plus the ownership rule (C03.1) and publication rule (C04.1)",
  "Thin by nature (the property quantifies over histories). Decided: node tables never depend on construction history: nodes are allocated only by the constructor or as empty roots with both child indexes -1 (a truncated root "
  "equals a fresh one), the only function composing a child list sorts it ascending before deriving first-byte keys and param/catch-all indexes, every other construction passes the four child tables of one and the same node or the "
  "empty tuple; an aborted transaction leaves no trace (no write reaches published storage, Abort publishes nothing).",
  "NOT decided: the heart of the property, i.e. that deletes merge nodes back so that all histories ending in the same route set route identically; insertion-order independence of splits. These are statements about tree shapes "
  "over histories that no sound static argument in reach covers; claimed at level 'other' only for the construction invariants named.",
  "DESIGN.md section 5 C07"),
 "C10": (
  "must-pass-through over the call paths to the tree mutators (dominating nil-error facts), path-set dataflow of (cursor offset, inspected bytes) over one iteration of the validator's loop on the syntax-level CFG, guard-set on its success return",
  "Decides: the mutators are reachable only through Txn entry points that validated the very pattern (NewRoute on its nil-error branch, parseRoute for Delete), and NewRoute stores the pattern it validated; in the validator no "
  "byte is stepped over unread on any path (the repaired '*x' defect); every increment of the wildcard counter meets the maxParams comparison before the loop continues; the name-length limit is tested in both wildcard states; "
  "success is returned only in the default scanner state.",
  "NOT decided: equality of the accepted language with the documented grammar (hand-written state machine), routability round-trip, crash-freedom on arbitrary bytes. A zero Route built by user code is outside the contract.",
  "DESIGN.md section 5 C10"),
 "C16": (
  "the repository compiler's own escape analysis (go build -gcflags=-m with the toolchain pinned in go.mod) mapped onto a call-graph-derived hot region, plus an SSA scan for allocating constructs and a provisioning check of the pooled buffers",
  "Decides allocation sites, not counts: in the hot region (blocks of ServeHTTP that can still reach a route chain, and every module function they call) the compiler reports no heap allocation other than boxed string "
  "constants and the slices.Grow of copyWithResize; no defer in a loop, go statement, map/chan/slice creation, capturing closure, string concatenation/conversion, boxing or allocating helper call occurs there; every append "
  "extends a pooled context buffer in place and is stored back (a buffer grown once stays grown); insert records parameter count and depth on every success path, commit/txn/clone carry them, allocateContext sizes params and "
  "tsrParams alike and each pool allocates from its own tree.",
  "NOT decided: the number of allocations for a given route set/request (capacity versus pushes), sync.Pool behaviour under GC, allocations inside standard-library callees. Trusted: completeness of the compiler's escape diagnostics.",
  "DESIGN.md section 5 C16"),
 "C17": (
  "difference-bound reasoning over the branch facts of the syntax-level CFG of CleanPath/bufApp (dominating edges with a kill analysis for reassigned variables, short-circuit context, unit propagation through failed "
  "earlier switch cases), a sibling rule on the lazy-buffer test, and a dominance fact on the redirect dispatch in ServeHTTP (SSA)",
  "Decides four structural parts only, NOT that CleanPath returns the canonical form. (1) A trailing-slash redirect is issued only under path == CleanPath(path) for the path value handed to the matcher (last sentence of "
  "the property). (2) The part of 'never panics' that follows from guards alone: every read of the input at the read cursor (p[0], p[n-1], p[r], p[r+1], p[r+2]) and every reslice of the fixed-capacity buffer (buf[:n+1], "
  "(*buf)[:l]) is in range on every path, proved from the comparisons that dominate it. (3) Lazy-buffer discipline: the output so far is read through the write cursor from the input string only while len(buf) == 0 is known "
  "and from the buffer only once it is known non-empty, and the same test selects the returned value. (4) Bytes are examined only by ==/!= comparison with '/' or '.', or with another byte.",
  "NOT decided: equality of the returned string with the lexical definition for any input (rooted, no empty/./.. elements, trailing-slash rule), idempotence, and the range of the accesses indexed by the bare write cursor "
  "(p[w], buf[w], p[:w], buf[:w], s[w], b[w], s[:w]), which needs the loop invariant w <= r and is not derived. Those quantify over all strings through index arithmetic; they need symbolic execution or a proof, a different "
  "technique family. A change of what CleanPath computes that keeps every index guarded and the buffer test consistent is NOT detected by this check.",
  "DESIGN.md section 5 C17"),
}

NOT_APPLICABLE = {}

NOT_YET = "structural clause identified in DESIGN.md section 5 but its rule is not implemented yet in this commit"


def main():
    exe = os.path.join(VERIF, "bin", "foxcheck")
    impl = subprocess.run([exe, "-list"], capture_output=True, text=True, check=True).stdout.split()
    props = [json.loads(l)["id"] for l in open(os.path.join(VERIF, "properties.jsonl"))]
    checks, na = [], []
    for pid in props:
        if pid in CLAIMS and pid in impl:
            tech, text, note, ref = CLAIMS[pid]
            checks.append({
                "property_id": pid,
                "quick_cmd": "sh check.sh %s quick" % pid,
                "thorough_cmd": "sh check.sh %s thorough" % pid,
                "evidence_file": "/verif/evidence/%s.json" % pid,
                "replay_cmd_template": "bin/foxcheck -replay {path}",
                "engine": "foxcheck",
                "level_claimed": {"category": "other", "text": text, "design_ref": ref},
                "level_note": note,
                "technique": "static analysis: " + tech,
            })
        else:
            na.append({"property_id": pid, "reason": NOT_APPLICABLE.get(pid, NOT_YET)})
    man = {
        "version": 1,
        "setup_cmd": "sh tools/build.sh",
        "hooks": {
            "guard": "verif",
            "enable": "none: the checks are static and read /repo's working tree as it is; no hook or instrumentation was added to the repository",
            "baseline_off_cmd": "cd /repo && GOFLAGS=-mod=mod go test -vet=off -count=1 ./...",
            "source_commits": [],
            "add_only": True,
        },
        "engines": [{
            "name": "foxcheck",
            "path": "/verif/checker",
            "serves_properties": [c["property_id"] for c in checks],
            "kind_free_text": "repository-specific static analyser (go/packages + go/types + go/ssa + go/cfg, x/tools v0.50.0, go1.26.8): ownership, "
                              "typestate/dominance, call-graph reachability, guard-set, must-dataflow and constant-table rules; one binary, one rule set per property",
        }],
        "checks": checks,
        "not_applicable": na,
        "notes": "All checks are static: they load and type-check /repo's current working tree on every run and never execute router code. "
                 "Exit 0 = every obligation discharged; exit 1 + VIOLATION line = a construct violates a rule (replay file names it); exit 2 = no verdict "
                 "(tree does not type-check, or an anchor of the checker could not be resolved). Thorough tier adds the VTA call-graph cross-check, an OS/arch load "
                 "matrix and seeded single-edit variants of the current tree (variants/<id>/*.diff). Genuine defects found and repaired are listed in known-findings.txt.",
    }
    with open(os.path.join(VERIF, "MANIFEST.json"), "w") as f:
        json.dump(man, f, indent=1)
        f.write("\n")
    print("claimed:", [c["property_id"] for c in checks])
    print("not applicable:", [n["property_id"] for n in na])


if __name__ == "__main__":
    main()
