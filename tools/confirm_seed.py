#!/usr/bin/env python3
"""Confirm a sub-agent's seeded change independently and store it under /verif/seeded/<prop>-<X>/.
usage: confirm_seed.py <prop> [A B ...]
Steps (in a scratch git worktree of /repo outside /repo and /verif, removed afterwards):
 1. apply X.patch.diff, go build ./... and run the full existing suite (must pass)
 2. add X_demo_test.go, run the demo test (must FAIL)
 3. revert the patch, run the demo test again (must PASS)
"""
import sys, os, subprocess, json, shutil, re, tempfile
prop=sys.argv[1]; xs=sys.argv[2:] or ['A','B']
src='%s/%s.out'%(os.environ.get('SEEDROOT','/tmp/seed'),prop)
rnd=os.environ.get('ROUND','')  # later rounds: one agent seeds several properties; meta.json[X]['property'] names the target
env=dict(os.environ, GOFLAGS='-mod=mod', GOPROXY='off')
def sh(cmd, cwd, timeout=1200):
    r=subprocess.run(cmd, shell=True, cwd=cwd, env=env, capture_output=True, text=True, timeout=timeout)
    return r.returncode, (r.stdout+r.stderr)
meta_all=json.load(open(os.path.join(src,'meta.json'))) if os.path.exists(os.path.join(src,'meta.json')) else {}
for x in xs:
    patch=os.path.join(src,x+'.patch.diff'); demo=os.path.join(src,x+'_demo_test.go')
    if not (os.path.exists(patch) and os.path.exists(demo)):
        print(prop,x,'missing files'); continue
    wt=tempfile.mkdtemp(prefix='seedconfirm-'); os.rmdir(wt)
    rc,out=sh('git -C /repo worktree add --detach %s HEAD'%wt,'/')
    ran=[]
    try:
        rc,out=sh('git apply %s'%patch, wt); ran.append('git apply %s.patch.diff -> %d'%(x,rc))
        if rc!=0: print(prop,x,'patch does not apply',out[:300]); continue
        rc,out=sh('go build ./... && go test -vet=off -count=1 ./...', wt); ran.append('go build ./... && go test -vet=off -count=1 ./... (with change) -> %d'%rc)
        suite_ok = rc==0
        pkgline=open(demo).read().split('\n')
        pkg=[l for l in pkgline if l.startswith('package ')][0].split()[1]
        sub='.' if pkg.startswith('fox') else './'+pkg.replace('_test','')
        dst=os.path.join(wt, '' if sub=='.' else sub, 'zz_seed_demo_test.go'); shutil.copy(demo,dst)
        names=re.findall(r'^func (Test\w+)\(', open(demo).read(), re.M)
        runpat='^(%s)$'%'|'.join(names)
        race = ' -race' if isinstance(meta_all,dict) and isinstance(meta_all.get(x),dict) and meta_all[x].get('race_detector_required') else ''
        cmd="go test -vet=off -count=1%s -run '%s' %s"%(race,runpat,sub)
        rc1,out1=sh(cmd, wt); ran.append(cmd+' (with change) -> %d'%rc1)
        sh('git checkout -- .', wt)
        rc2,out2=sh(cmd, wt); ran.append(cmd+' (without change) -> %d'%rc2)
        ok = suite_ok and rc1!=0 and rc2==0
        print('%s-%s suite_passes=%s demo_fails_with=%s demo_passes_without=%s => %s'%(prop,x,suite_ok,rc1!=0,rc2==0,'CONFIRMED' if ok else 'REJECTED'))
        if not ok:
            print(out1[-600:] if rc1==0 else '', out2[-600:] if rc2!=0 else '', out[-400:] if not suite_ok else '')
            continue
        tprop=(meta_all.get(x) or {}).get('property',prop) if isinstance(meta_all,dict) and isinstance(meta_all.get(x),dict) else prop
        d='/verif/seeded/%s-%s'%(prop,x) if not rnd else '/verif/seeded/%s-%s-%s%s'%(tprop,rnd,prop,x)
        os.makedirs(d,exist_ok=True)
        shutil.copy(patch,os.path.join(d,'patch.diff')); shutil.copy(demo,os.path.join(d,'demo_test.go'))
        m=meta_all.get(x) if isinstance(meta_all.get(x),dict) else None
        if m is None:
            for k,v in (meta_all.items() if isinstance(meta_all,dict) else []):
                if isinstance(v,dict) and k.upper().startswith(x): m=v
            if m is None and isinstance(meta_all,list):
                m=meta_all[xs.index(x)] if len(meta_all)>xs.index(x) else {}
        m=dict(m or {})
        meta={'property':tprop,'round':rnd or 'r1','origin':'independent sub-agent given only the property text and a scratch worktree',
              'summary':m.get('summary'),'mechanism':m.get('mechanism'),'needs_to_manifest':m.get('needs_to_manifest'),
              'demo_tests':names,'confirmed_by_me':{'commands':ran,'suite_passes_with_change':suite_ok,'demo_fails_with_change':rc1!=0,'demo_passes_without_change':rc2==0}}
        json.dump(meta,open(os.path.join(d,'meta.json'),'w'),indent=1)
    finally:
        sh('git -C /repo worktree remove --force %s'%wt,'/'); sh('go clean -testcache','/tmp')
