#!/bin/sh
# dev helper: run the thorough tier for a property and print the variant outcomes
cd "$(dirname "$0")/.."
sh check.sh "$1" thorough; echo "exit=$?"
jq -r '.coverage.seeded_variants.results[]? | "\(.outcome)\t\(.name)\t\(.reported // [] | join(" ; "))"' evidence/$1.json
jq -r '.coverage.rules[] | select(.id|endswith(".matrix")) | .sample_obligations[]?, .failed[]? | "\(.ok)\t\(.key)\t\(.why)"' evidence/$1.json
