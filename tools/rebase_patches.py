#!/usr/bin/env python3
"""Rebase stored patches (variants, benign refactorings, seeded changes) onto /repo's current HEAD after a fix: commit.
A patch that no longer applies is applied to the newest earlier commit it applies to (scratch worktree outside /repo and
/verif), committed there and cherry-picked onto HEAD (3-way merge). Conflicts are reported and left for manual work."""
import subprocess, glob, os, sys, tempfile, shutil
def sh(cmd, cwd=None):
    r=subprocess.run(cmd,shell=True,cwd=cwd,capture_output=True,text=True); return r.returncode, r.stdout+r.stderr
head=sh('git -C /repo rev-parse HEAD')[1].strip()
commits=sh('git -C /repo rev-list --first-parent HEAD -n 40')[1].split()
files=sorted(glob.glob('/verif/variants/*/*.diff')+glob.glob('/verif/benign/*.diff')+glob.glob('/verif/seeded/*/patch.diff'))
only=sys.argv[1:] 
wt=tempfile.mkdtemp(prefix='rebasewt-'); os.rmdir(wt)
sh('git -C /repo worktree add --detach %s HEAD'%wt)
ok=rebased=failed=0
try:
    for f in files:
        if only and not any(o in f for o in only): continue
        sh('git checkout -q --detach %s && git reset -q --hard && git clean -fdq'%head, wt)
        rc,_=sh('patch -p1 -s -F2 --dry-run --no-backup-if-mismatch -i %s'%f, wt)
        if rc==0: ok+=1; continue
        text=open(f).read()
        header=''.join(l+'\n' for l in text.split('\n') if l.startswith('# '))
        done=False
        for b in commits[1:]:
            sh('git checkout -q --detach %s && git reset -q --hard && git clean -fdq'%b, wt)
            rc,_=sh('patch -p1 -s -F2 --no-backup-if-mismatch -i %s'%f, wt)
            if rc!=0:
                sh('git reset -q --hard && git clean -fdq', wt); continue
            sh('find . -name "*.orig" -delete; find . -name "*.rej" -delete; git add -A && git -c user.email=x@x -c user.name=x commit -q -m tmp', wt)
            tmp=sh('git rev-parse HEAD', wt)[1].strip()
            sh('git checkout -q --detach %s'%head, wt)
            rc,out=sh('git -c user.email=x@x -c user.name=x cherry-pick --no-commit %s'%tmp, wt)
            if rc!=0:
                sh('git cherry-pick --abort; git reset -q --hard', wt)
                print('CONFLICT', f, 'base', b[:7]); failed+=1; done=True; break
            rc,diff=sh('git diff --cached HEAD', wt)
            brc,bout=sh('GOFLAGS=-mod=mod GOPROXY=off go build ./... 2>&1 | head -3', wt)
            sh('git reset -q --hard', wt)
            if bout.strip():
                print('DOES-NOT-BUILD', f, bout.strip()[:120]); failed+=1; done=True; break
            open(f,'w').write(header+diff)
            print('rebased ', f, 'from', b[:7]); rebased+=1; done=True; break
        if not done:
            print('NO-BASE ', f); failed+=1
finally:
    sh('git -C /repo worktree remove --force %s'%wt)
print('apply as is: %d, rebased: %d, need manual work: %d'%(ok,rebased,failed))
