#!/usr/bin/env python3
"""Detection matrix: run every implemented check against every stored seeded change (scratch copies of /repo).
Writes /verif/seeded/MATRIX.json and MATRIX.md."""
import os, subprocess, tempfile, shutil, glob, json, sys
from concurrent.futures import ThreadPoolExecutor
verif='/verif'; exe=os.path.join(verif,'bin','foxcheck')
impl=subprocess.run([exe,'-list'],capture_output=True,text=True).stdout.split()
# BASELINE: obligations that already fail on the unchanged tree (the known findings) are not counted against a patch
def _base(prop):
    r=subprocess.run([exe,'-inner','-property',prop,'-repo','/repo'],capture_output=True,text=True)
    line=[l for l in r.stdout.splitlines() if l.startswith('INNER-SUMMARY ')]
    if not line: return set()
    return set((f['Key'],f.get('Why','')) for f in (json.loads(line[0][len('INNER-SUMMARY '):])['failed'] or []))
BASE={}
def base(prop):
    if prop not in BASE: BASE[prop]=_base(prop)
    return BASE[prop]
seeds=sorted(glob.glob(os.path.join(verif,'seeded','C*-*','patch.diff')))
# SEEDFILTER=r6: run only the seeds whose id contains the filter and merge them into the stored MATRIX.json
flt=os.environ.get('SEEDFILTER','')
if flt: seeds=[s for s in seeds if flt in os.path.basename(os.path.dirname(s))]
def run(seed):
    sid=os.path.basename(os.path.dirname(seed)); own=sid.split('-')[0]
    tmp=tempfile.mkdtemp(prefix='foxmx-')
    res={'seed':sid,'property':own,'detected_by':{}, 'own_check':None}
    try:
        subprocess.run(['rsync','-a','--exclude','.git','/repo/',tmp+'/'],check=True)
        r=subprocess.run(['patch','-p1','-s','-F2','--no-backup-if-mismatch','-i',seed],cwd=tmp,capture_output=True,text=True)
        if r.returncode!=0:
            res['own_check']='patch-failed'; return res
        for prop in impl:
            r=subprocess.run([exe,'-inner','-property',prop,'-repo',tmp],capture_output=True,text=True)
            line=[l for l in r.stdout.splitlines() if l.startswith('INNER-SUMMARY ')]
            if not line:
                res['detected_by'][prop]=['NO-VERDICT: '+(r.stderr.strip().splitlines() or ['?'])[0][:100]]; continue
            s=json.loads(line[0][len('INNER-SUMMARY '):])
            keys=sorted(set(f['Key'].split('/')[0] for f in (s['failed'] or []) if (f['Key'],f.get('Why','')) not in base(prop)))
            if keys: res['detected_by'][prop]=keys
        own_hits=[k for k in res['detected_by'].get(own,[]) if not k.startswith('NO-VERDICT')]
        res['own_check']='detected' if own_hits else ('no-verdict' if own in res['detected_by'] else 'MISSED')
    finally:
        shutil.rmtree(tmp,ignore_errors=True)
    return res
with ThreadPoolExecutor(max_workers=6) as ex:
    results=list(ex.map(run,seeds))
if flt and os.path.exists(os.path.join(verif,'seeded','MATRIX.json')):
    prev=json.load(open(os.path.join(verif,'seeded','MATRIX.json')))
    done=set(r['seed'] for r in results)
    results=sorted([r for r in prev if r['seed'] not in done]+results,key=lambda r:r['seed'])
json.dump(results,open(os.path.join(verif,'seeded','MATRIX.json'),'w'),indent=1)
with open(os.path.join(verif,'seeded','MATRIX.md'),'w') as f:
    f.write('# Seeded changes (independent sub-agents) versus the checks\n\n')
    f.write('Each row: a confirmed breaking change (suite passes, demo fails with it, passes without). "own check" is the quick check of the property the change was written to break.\n\n')
    f.write('| seed | own check | rules of the own check that fire | other checks that fire |\n|---|---|---|---|\n')
    for r in results:
        own=r['property']
        others=', '.join('%s(%s)'%(p,' '.join(k)) for p,k in sorted(r['detected_by'].items()) if p!=own)
        f.write('| %s | %s | %s | %s |\n'%(r['seed'],r['own_check'],' '.join(r['detected_by'].get(own,[])),others))
n=sum(1 for r in results if r['own_check']=='detected')
print('%d/%d detected by their own property check'%(n,len(results)))
for r in results:
    if r['own_check']!='detected': print('  ',r['seed'],r['own_check'],r['detected_by'])
