#!/usr/bin/env python3
"""Create a single-edit variant of the current /repo tree as a unified diff.

usage: mkvariant.py <property> <name> <expect-rule> <file> <description>   (old/new text on stdin, separated by a line '=====')
The old text must occur exactly once in <file> (or give file as path@N to pick the N-th occurrence, 1-based).
The diff is written to /verif/variants/<property>/<name>.diff with '# expect:' / '# what:' header lines.
"""
import sys, os, difflib
prop, name, expect, filespec, what = sys.argv[1:6]
repo = os.environ.get('REPO', '/repo')
path, nth = (filespec.split('@') + [None])[:2]
src = open(os.path.join(repo, path)).read()
blob = sys.stdin.read()
old, new = blob.split('\n=====\n')
if new.endswith('\n') and not old.endswith('\n'):
    new = new[:-1]
cnt = src.count(old)
if cnt == 0:
    sys.exit('old text not found in %s' % path)
if nth is None and cnt != 1:
    sys.exit('old text occurs %d times in %s; use file@N' % (cnt, path))
idx = -1
for _ in range(int(nth or 1)):
    idx = src.index(old, idx + 1)
dst = src[:idx] + new + src[idx + len(old):]
diff = ''.join(difflib.unified_diff(src.splitlines(True), dst.splitlines(True), 'a/' + path, 'b/' + path, n=3))
d = os.path.join('/verif/variants', prop)
os.makedirs(d, exist_ok=True)
out = os.path.join(d, name + '.diff')
# several edits for one variant: append when the file exists and APPEND=1
mode = 'a' if os.environ.get('APPEND') == '1' and os.path.exists(out) else 'w'
with open(out, mode) as f:
    if mode == 'w':
        f.write('# expect: %s\n# what: %s\n' % (expect, what))
    f.write(diff)
print('wrote', out)
