#!/usr/bin/env python3
"""Writes /verif/RULES.md: the rule catalogue as built, read from the evidence files of the last run."""
import json, glob, os
out=['# Rule catalogue (generated from evidence/*.json by tools/gen_rules_md.py)\n',
     'One line per rule: id, number of constructs it matched on the current tree (each one an obligation that was discharged), rule text.\n']
for f in sorted(glob.glob('/verif/evidence/C*.json')):
    e=json.load(open(f)); c=e['coverage']
    out.append('\n## %s  (%d obligations, %d discharged, tier %s)\n'%(e['property_id'],c['obligations'],c['discharged'],e['tier']))
    for r in c['rules']:
        out.append('* **%s** [%d] %s'%(r['id'],r['instances'],r['rule']))
        for i in r.get('accepted_idioms',[]) or []:
            out.append('    * accepted idiom: %s'%i)
    nd=c.get('not_decided') or []
    if nd: out.append('\nNot decided: '+'; '.join(nd))
open('/verif/RULES.md','w').write('\n'.join(out)+'\n')
print('RULES.md written')
