#!/usr/bin/env python3
"""Run the checks against independently seeded breaking changes.
usage: seedtest.py <dir-with-*.patch.diff> [property ...]   (default: all implemented properties)
Each patch is applied to a scratch copy of /repo (never to /repo itself)."""
import sys, os, subprocess, tempfile, shutil, glob, json
verif='/verif'
exe=os.path.join(verif,'bin','foxcheck')
impl=subprocess.run([exe,'-list'],capture_output=True,text=True).stdout.split()
# BASELINE: obligations that already fail on the unchanged tree (the known findings) are not counted against a patch
def _base(prop):
    r=subprocess.run([exe,'-inner','-property',prop,'-repo','/repo'],capture_output=True,text=True)
    line=[l for l in r.stdout.splitlines() if l.startswith('INNER-SUMMARY ')]
    if not line: return set()
    return set((f['Key'],f.get('Why','')) for f in (json.loads(line[0][len('INNER-SUMMARY '):])['failed'] or []))
BASE={}
def base(prop):
    if prop not in BASE: BASE[prop]=_base(prop)
    return BASE[prop]
d=sys.argv[1]
props=sys.argv[2:] or impl
patches=sorted(glob.glob(os.path.join(d,'*.diff')))
for p in patches:
    tmp=tempfile.mkdtemp(prefix='foxseed-')
    try:
        subprocess.run(['rsync','-a','--exclude','.git','/repo/',tmp+'/'],check=True)
        r=subprocess.run(['patch','-p1','-s','-F2','--no-backup-if-mismatch','-i',p],cwd=tmp,capture_output=True,text=True)
        if r.returncode!=0:
            print(os.path.basename(p),'PATCH-FAILED',r.stdout.strip()[:200]); continue
        hits=[]
        for prop in props:
            r=subprocess.run([exe,'-inner','-property',prop,'-repo',tmp],capture_output=True,text=True)
            line=[l for l in r.stdout.splitlines() if l.startswith('INNER-SUMMARY ')]
            if not line:
                hits.append('%s:NO-VERDICT(%s)'%(prop,(r.stderr.strip().splitlines() or ['?'])[0][:120])); continue
            s=json.loads(line[0][len('INNER-SUMMARY '):])
            if s.get('status')==2: hits.append('%s:NO-VERDICT(%s)'%(prop,(r.stderr.strip().splitlines() or ['?'])[0][:120]))
            for f in s['failed'] or []:
                if (f['Key'],f.get('Why','')) in base(prop): continue
                hits.append('%s @%s'%(f['Key'][:110],f['Pos']))
        real=[h for h in hits if 'NO-VERDICT' not in h]
        print('%-40s %s'%(os.path.basename(os.path.dirname(p))+'/'+os.path.basename(p), 'DETECTED' if real else ('no-verdict' if hits else 'missed')))
        for h in hits[:int(os.environ.get('MAXHITS','6'))]: print('      ',h)
    finally:
        shutil.rmtree(tmp,ignore_errors=True)
