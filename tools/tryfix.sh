#!/bin/sh
# usage: tryfix.sh <worktree> <demo_test.go> <pkgdir> <patchfile>
# Shows that the demo fails on the worktree's HEAD, passes with the patch, and that the full suite passes with it.
export GOFLAGS=-mod=mod GOPROXY=off
wt=$1; demo=$2; pkg=$3; patch=$4
cd $wt || exit 2
git checkout -q -- . && git clean -fdq
cp $demo $wt/$pkg/zz_defect_demo_test.go
echo "== demo on unfixed tree (must FAIL)"; go test -vet=off -count=1 -run 'TestD|TestDefect' ./$pkg 2>&1 | tail -4
git apply $patch || exit 2
echo "== demo with fix (must PASS)"; go test -vet=off -count=1 -run 'TestD|TestDefect' ./$pkg 2>&1 | tail -3
rm $wt/$pkg/zz_defect_demo_test.go
echo "== full suite with fix"; go build ./... && go test -vet=off -count=1 ./... 2>&1 | grep -v "no test files" | tail -8
gofmt -l .
git checkout -q -- . && git clean -fdq
