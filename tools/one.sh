#!/bin/sh
# dev helper: run the named checks against one patch (applied to a scratch copy): one.sh <patch> <Cxx> [Cyy ...]
d=$(mktemp -d /tmp/one-XXXXXX); cp "$1" "$d/"; shift
python3 "$(dirname "$0")/seedtest.py" "$d" "$@"; rm -rf "$d"
