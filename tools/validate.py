#!/opt/veriftools/pyvenv/bin/python
import json, jsonschema, glob, sys
m=json.load(open('/verif/MANIFEST.json')); jsonschema.validate(m,json.load(open('/root/.vp/MANIFEST.schema.json'))); print("manifest valid:", len(m['checks']), "checks,", len(m.get('not_applicable',[])), "n/a")
es=json.load(open('/root/.vp/EVIDENCE.schema.json'))
for f in sorted(glob.glob('/verif/evidence/C*.json')):
    e=json.load(open(f)); jsonschema.validate(e,es); print("evidence valid:", f.split('/')[-1], e['tier'], "obl", e['coverage'].get('obligations'), "viol", e.get('violations'))
